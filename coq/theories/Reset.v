(* Reset.v — model of the reset-value path of the generator (property C08):

     generation/src/mir/passes/byte_order_specified.rs   (effect on registers; runs before)
     generation/src/mir/passes/reset_values_converted.rs (convert_reset_value, get_target_byte_order, run_pass)
     generation/src/mir/passes/mod.rs                    (search_object)
     generation/src/mir/lir_transform.rs                 (transform_field_sets, find_refs, get_method: reset fn)
     generation/src/lir/token_transform/field_set_transform.rs (new / new_zero / new_as_<ref>)

   and the specification written from the text of property C08 and book/src/registers.md, refs.md.
   Definitions only; proofs are in ResetProofs.v.

   bitvec is modelled by its documented numbering: `view_bits::<Lsb0>()` numbers bit i of a [u8] as bit
   (i mod 8) counted from the least-significant end of byte i/8, `Msb0` counts from the most-significant end. *)
From Coq Require Import ZArith List Bool String Ascii.
From DD Require Import Common Carrier Bits BitsSpec Mir GenErr Layout.
Import ListNotations.
Open Scope string_scope.
Open Scope Z_scope.

(* MIR orders -> the orders of Bits.v / BitsSpec.v (C01) *)
Definition bo_of (b : byte_ord) : byte_order := match b with BoLE => LE | BoBE => BE end.
Definition bito_of (b : bit_ord) : bit_order := match b with BiLSB0 => LSB0 | BiMSB0 => MSB0 end.

(* ------------------------------------------------------------------------------------------ *)
(** * Primitive operations used by convert_reset_value *)

(* uN::to_le_bytes for n bytes *)
Fixpoint le_bytes (n : nat) (v : Z) : list Z :=
  match n with
  | O => []
  | S m => v mod 256 :: le_bytes m (v / 256)
  end.

(* u8::reverse_bits, written out over the eight bit positions *)
Definition bit_at (b i : Z) : Z := if Z.testbit b i then 1 else 0.
Definition reverse_bits (b : Z) : Z :=
  128 * bit_at b 0 + 64 * bit_at b 1 + 32 * bit_at b 2 + 16 * bit_at b 3 +
  8 * bit_at b 4 + 4 * bit_at b 5 + 2 * bit_at b 6 + bit_at b 7.

(* bitvec views of a byte array (documented numbering) *)
Definition lsb0_view (arr : list Z) (i : Z) : bool :=
  Z.testbit (nth (Z.to_nat (i / 8)) arr 0) (i mod 8).
Definition msb0_view (arr : list Z) (i : Z) : bool :=
  Z.testbit (nth (Z.to_nat (i / 8)) arr 0) (7 - i mod 8).

(* from, from+1, ..., to-1 *)
Definition zrange (from to : Z) : list Z :=
  map (fun i => from + Z.of_nat i) (seq 0 (Z.to_nat (to - from))).

(* `view[from..].any()` for a view of `total` bits (the caller checks from <= total: slicing panics otherwise) *)
Definition any_from (view : Z -> bool) (from total : Z) : bool := existsb view (zrange from total).

(* u32::div_ceil(8) *)
Definition byte_len (size_bits : Z) : Z := (size_bits + 7) / 8.

Definition is_msb0 (b : bit_ord) : bool := match b with BiMSB0 => true | BiLSB0 => false end.
Definition is_be (b : byte_ord) : bool := match b with BoBE => true | BoLE => false end.

Definition err_too_big (tyname name : string) (size : Z) : gen_error :=
  mk_err "reset_too_big" [tyname; name; show_Z size].
Definition err_len (tyname name : string) (want got : Z) : gen_error :=
  mk_err "reset_len" [tyname; name; show_Z want; show_Z got].

(* ------------------------------------------------------------------------------------------ *)
(** * convert_reset_value, statement by statement.
    Fail = panic, Ok (RErr e) = anyhow error (compile_error!), Ok (ROk bytes) = ResetValue::Array(bytes). *)

Definition convert_reset_value (rv : reset_value) (bit_order : bit_ord) (size_bits : Z)
           (object_type_name object_name : string) (target_byte_order : byte_ord)
  : outcome (result (list Z)) :=
  let target_byte_size := byte_len size_bits in
  match rv with
  | RInt int =>
    (* let mut array = int.to_le_bytes(); *)
    let array := le_bytes 16 int in
    (* if bit_order == MSB0 { array.iter_mut().for_each(|b| *b = b.reverse_bits()) } *)
    let array := if is_msb0 bit_order then map reverse_bits array else array in
    (* let array_view = array.view_bits_mut::<Lsb0>();  array_view[size_bits..]: range start beyond 128 panics *)
    if 128 <? size_bits then Fail AssertFail
    else if any_from (lsb0_view array) size_bits 128
    then Ok (RErr (err_too_big object_type_name object_name size_bits))
    else
      (* let mut final_array = array[..target_byte_size].to_vec();   (target_byte_size <= 16 here) *)
      let final_array := firstn (Z.to_nat target_byte_size) array in
      let final_array := if is_msb0 bit_order then map reverse_bits final_array else final_array in
      (* if target_byte_order == BE { final_array.reverse() } *)
      let final_array := if is_be target_byte_order then rev final_array else final_array in
      Ok (ROk final_array)
  | RArr array =>
    let len := Z.of_nat (List.length array) in
    if negb (len =? target_byte_size)
    then Ok (RErr (err_len object_type_name object_name target_byte_size len))
    else
      (* if target_byte_order == BE { array.reverse() } *)
      let array := if is_be target_byte_order then rev array else array in
      (* array.view_bits::<O>()[size_bits..]: range start beyond the view panics *)
      if 8 * len <? size_bits then Fail AssertFail
      else
        let too_big :=
          match bit_order with
          | BiLSB0 => any_from (lsb0_view array) size_bits (8 * len)
          | BiMSB0 => any_from (msb0_view array) size_bits (8 * len)
          end in
        if too_big then Ok (RErr (err_too_big object_type_name object_name size_bits))
        else
          (* if target_byte_order == BE { array.reverse() } *)
          let array := if is_be target_byte_order then rev array else array in
          Ok (ROk array)
  end.

(* ------------------------------------------------------------------------------------------ *)
(** * Tree utilities *)

(* apply f to every non-block object, keep the tree shape (recurse_objects_mut with a closure that only
   touches leaves) *)
Fixpoint map_object (f : object -> object) (o : object) : object :=
  match o with
  | OBlock c n a r objs => OBlock c n a r (map (map_object f) objs)
  | _ => f o
  end.

Definition map_objects (f : object -> object) (objs : list object) : list object := map (map_object f) objs.

(* passes::search_object — transcribed: depth-first, first match, whatever its kind *)
Fixpoint search_in (name : string) (o : object) : option object :=
  if String.eqb (object_name o) name then Some o
  else match o with
       | OBlock _ _ _ _ objs =>
         (fix go (l : list object) : option object :=
            match l with
            | [] => None
            | x :: t => match search_in name x with Some r => Some r | None => go t end
            end) objs
       | _ => None
       end.

Fixpoint search_object (name : string) (objs : list object) : option object :=
  match objs with
  | [] => None
  | x :: t => match search_in name x with Some r => Some r | None => search_object name t end
  end.

(* ------------------------------------------------------------------------------------------ *)
(** * byte_order_specified: what it leaves on a register (its rejections are Layout.byte_order_check) *)

Definition with_byte_order (r : register) (bo : option byte_ord) : register :=
  {| rg_cfg := rg_cfg r; rg_name := rg_name r; rg_access := rg_access r; rg_byte_order := bo;
     rg_bit_order := rg_bit_order r; rg_allow_bit_overlap := rg_allow_bit_overlap r;
     rg_allow_address_overlap := rg_allow_address_overlap r; rg_address := rg_address r;
     rg_size_bits := rg_size_bits r; rg_reset := rg_reset r; rg_repeat := rg_repeat r; rg_fields := rg_fields r |}.

Definition bos_register (g : config) (r : register) : register :=
  match rg_byte_order r with
  | Some _ => r
  | None =>
    match g_default_byte_order g with
    | Some d => with_byte_order r (Some d)
    | None => if 8 <? rg_size_bits r then r (* the pass bails out on this register *)
              else with_byte_order r (Some BoLE)
    end
  end.

(* commands are touched too, but nothing in this file looks at them *)
Definition bos_object (g : config) (o : object) : object :=
  match o with ORegister r => ORegister (bos_register g r) | _ => o end.

Definition bos_pass (d : device) : result device :=
  match first_error (map (byte_order_check (d_config d)) (preorder_objects (d_objects d))) with
  | Some e => RErr e
  | None => ROk {| d_config := d_config d; d_objects := map_objects (bos_object (d_config d)) (d_objects d) |}
  end.

(* ------------------------------------------------------------------------------------------ *)
(** * reset_values_converted::run_pass *)

(* reg.byte_order.or(default).or((size <= 8).then_some(LE)).expect(..) *)
Definition get_target_byte_order (g : config) (r : register) : outcome byte_ord :=
  match rg_byte_order r with
  | Some b => Ok b
  | None =>
    match g_default_byte_order g with
    | Some b => Ok b
    | None => if rg_size_bits r <=? 8 then Ok BoLE else Fail AssertFail
    end
  end.

Definition with_reset (r : register) (rv : option reset_value) : register :=
  {| rg_cfg := rg_cfg r; rg_name := rg_name r; rg_access := rg_access r; rg_byte_order := rg_byte_order r;
     rg_bit_order := rg_bit_order r; rg_allow_bit_overlap := rg_allow_bit_overlap r;
     rg_allow_address_overlap := rg_allow_address_overlap r; rg_address := rg_address r;
     rg_size_bits := rg_size_bits r; rg_reset := rv; rg_repeat := rg_repeat r; rg_fields := rg_fields r |}.

(* what the first traversal computes for one object: None = nothing to convert *)
Definition convert_object (d : device) (o : object) : outcome (result (option (list Z))) :=
  match o with
  | ORegister reg =>
    do tbo <- get_target_byte_order (d_config d) reg;
    match rg_reset reg with
    | Some rv =>
      do r <- convert_reset_value rv (rg_bit_order reg) (rg_size_bits reg) "register" (rg_name reg) tbo;
      Ok (match r with ROk a => ROk (Some a) | RErr e => RErr e end)
    | None => Ok (ROk None)
    end
  | ORef _ name (OvRegister target _ _ _ (Some rv) _) =>
    match search_object target (d_objects d) with
    | None => Fail AssertFail                         (* .expect("Refs have been validated already for existance") *)
    | Some (ORegister base_reg) =>
      do tbo <- get_target_byte_order (d_config d) base_reg;
      do r <- convert_reset_value rv (rg_bit_order base_reg) (rg_size_bits base_reg) "ref register" name tbo;
      Ok (match r with ROk a => ROk (Some a) | RErr e => RErr e end)
    | Some _ => Fail AssertFail                       (* .as_register().expect("... for types") *)
    end
  | _ => Ok (ROk None)
  end.

(* first object (pre-order) whose conversion does not succeed: the `?` / the panic stops the traversal *)
Fixpoint first_stop (l : list (outcome (result (option (list Z))))) : option (outcome (result unit)) :=
  match l with
  | [] => None
  | Ok (ROk _) :: t => first_stop t
  | Ok (RErr e) :: _ => Some (Ok (RErr e))
  | Fail k :: _ => Some (Fail k)
  end.

(* second traversal: put the converted values back (the HashMap keyed by (name, cfg) in between is the identity
   when ids are unique, which names_unique has established; Determ.v models the map itself for C20) *)
Definition replace_reset (d : device) (o : object) : object :=
  match convert_object d o with
  | Ok (ROk (Some a)) =>
    match o with
    | ORegister reg => ORegister (with_reset reg (Some (RArr a)))
    | ORef c name (OvRegister target acc addr aao _ rep) => ORef c name (OvRegister target acc addr aao (Some (RArr a)) rep)
    | _ => o
    end
  | _ => o
  end.

Definition reset_pass (d : device) : outcome (result device) :=
  match first_stop (map (convert_object d) (preorder_objects (d_objects d))) with
  | Some (Fail k) => Fail k
  | Some (Ok (RErr e)) => Ok (RErr e)
  | Some (Ok (ROk _)) => Fail OutOfFuel   (* unreachable: first_stop never returns this *)
  | None => Ok (ROk {| d_config := d_config d; d_objects := map_objects (replace_reset d) (d_objects d) |})
  end.

(* ------------------------------------------------------------------------------------------ *)
(** * Emission: constructors of the field sets and the constructor each accessor hands to RegisterOperation *)

(* convert_case's Snake for names whose words are one capital followed by lower-case ASCII letters
   (FooBar -> foo_bar, RefA -> ref_a); the check only uses such names *)
Definition is_upper (c : ascii) : bool := let n := nat_of_ascii c in (Nat.leb 65 n) && (Nat.leb n 90).
Definition is_lower (c : ascii) : bool := let n := nat_of_ascii c in (Nat.leb 97 n) && (Nat.leb n 122).
Definition to_lower (c : ascii) : ascii := if is_upper c then ascii_of_nat (nat_of_ascii c + 32) else c.
Fixpoint snake_go (prev_lower : bool) (s : string) : string :=
  match s with
  | EmptyString => EmptyString
  | String c t =>
    let rest := String (to_lower c) (snake_go (is_lower c) t) in
    if is_upper c && prev_lower then String "_"%char rest else rest
  end.
Definition snake (s : string) : string := snake_go false s.

Definition new_as_name (ref_name : string) : string := "new_as_" ++ snake ref_name.

Record ctor_set := {
  cs_name : string;                       (* struct name = register name *)
  cs_size_bits : Z;                       (* const SIZE_BITS *)
  cs_size_bytes : Z;                      (* N of `bits: [u8; N]` and of new_zero's `[0; N]` *)
  cs_new : list Z;                        (* byte literals of new() *)
  cs_new_as : list (string * list Z) }.   (* (function name, byte literals) of every new_as_<ref>() *)

Record accessor := {
  ac_name : string;                       (* method name on the block struct *)
  ac_field_set : string;                  (* field_sets::<X> *)
  ac_reset_fn : string }.                 (* X::<fn> handed to RegisterOperation::new *)

Record emitted := { em_sets : list ctor_set; em_accessors : list accessor }.

Fixpoint mapO {A B} (f : A -> outcome B) (l : list A) : outcome (list B) :=
  match l with
  | [] => Ok []
  | a :: t => do b <- f a; do bs <- mapO f t; Ok (b :: bs)
  end.

Fixpoint cat_options {A} (l : list (option A)) : list A :=
  match l with
  | [] => []
  | Some a :: t => a :: cat_options t
  | None :: t => cat_options t
  end.

(* find_refs: every Ref object (pre-order) whose override names the register *)
Definition refers_to (name : string) (o : object) : bool :=
  match o with ORef _ _ ov => String.eqb (override_target ov) name | _ => false end.
Definition find_refs (all : list object) (name : string) : list object := filter (refers_to name) all.

(* .as_register().expect("Ref must be register override"), then filter_map on the reset value,
   reset_value.as_array().unwrap() *)
Definition ref_ctor (o : object) : outcome (option (string * list Z)) :=
  match o with
  | ORef _ rname (OvRegister _ _ _ _ rv _) =>
    match rv with
    | None => Ok None
    | Some (RArr a) => Ok (Some (new_as_name rname, a))
    | Some (RInt _) => Fail AssertFail
    end
  | _ => Fail AssertFail
  end.

Definition zeros (n : Z) : list Z := List.repeat 0 (Z.to_nat n).

(* transform_field_sets for one register + generate_field_set's constructors *)
Definition ctor_set_of (all : list object) (r : register) : outcome ctor_set :=
  do overrides <- mapO ref_ctor (find_refs all (rg_name r));
  do _bo <- match rg_byte_order r with Some b => Ok b | None => Fail AssertFail end;   (* r.byte_order.unwrap() *)
  do new <- match rg_reset r with
            | None => Ok (zeros (byte_len (rg_size_bits r)))     (* unwrap_or_else(|| vec![0; size_bits.div_ceil(8)]) *)
            | Some (RArr a) => Ok a
            | Some (RInt _) => Fail AssertFail                    (* rv.as_array().unwrap() *)
            end;
  Ok {| cs_name := rg_name r; cs_size_bits := rg_size_bits r; cs_size_bytes := byte_len (rg_size_bits r);
        cs_new := new; cs_new_as := cat_options overrides |}.

Definition ctor_set_of_object (all : list object) (o : object) : outcome (option ctor_set) :=
  match o with
  | ORegister r =>
    if rg_size_bits r =? 0 then Ok None      (* generate_field_set emits nothing for size 0 *)
    else do c <- ctor_set_of all r; Ok (Some c)
  | _ => Ok None
  end.

(* get_method, register part: which constructor the accessor hands over.  Accessors generated inside a
   ref'd *block* (the block is cloned under the ref's name) are not listed. *)
Definition accessor_of (top : list object) (o : object) : outcome (option accessor) :=
  match o with
  | ORegister r => Ok (Some {| ac_name := snake (rg_name r); ac_field_set := rg_name r; ac_reset_fn := "new" |})
  | ORef _ name (OvRegister target _ _ _ rv _) =>
    match search_object target top with
    | Some (ORegister base) =>
      Ok (Some {| ac_name := snake name; ac_field_set := rg_name base;
                  ac_reset_fn := match rv with Some _ => new_as_name name | None => "new" end |})
    | _ => Fail AssertFail                       (* "All refs are validated in a mir pass" *)
    end
  | _ => Ok None
  end.

Definition emit (d : device) : outcome emitted :=
  let all := preorder_objects (d_objects d) in
  do sets <- mapO (ctor_set_of_object all) all;
  do accs <- mapO (accessor_of (d_objects d)) all;
  Ok {| em_sets := cat_options sets; em_accessors := cat_options accs |}.

(* refs_validated, reduced to what matters here: a ref whose target is not a real object of the ref's kind is
   rejected; kinds are checked in the order block, register, command.  With several dangling refs of one kind
   the real choice depends on HashMap order (finding D13); this model reports the first in pre-order and the
   check generates at most one dangling ref per definition. *)
Definition is_real (kind : string) (name : string) (o : object) : bool :=
  match o with
  | OBlock _ n _ _ _ => String.eqb kind "Block" && String.eqb n name
  | ORegister r => String.eqb kind "Register" && String.eqb (rg_name r) name
  | OCommand c => String.eqb kind "Command" && String.eqb (cm_name c) name
  | _ => false
  end.

Definition ref_kind (ov : override) : string :=
  match ov with OvBlock _ _ _ => "Block" | OvRegister _ _ _ _ _ _ => "Register" | OvCommand _ _ _ _ => "Command" end.

Definition dangling (kind : string) (all : list object) (o : object) : option gen_error :=
  match o with
  | ORef _ name ov =>
    if String.eqb (ref_kind ov) kind && negb (existsb (is_real kind (override_target ov)) all)
    then Some (mk_err "ref_unknown" [kind; name; override_target ov]) else None
  | _ => None
  end.

Definition refs_check (d : device) : option gen_error :=
  let all := preorder_objects (d_objects d) in
  first_error (map (dangling "Block" all) all ++ map (dangling "Register" all) all ++ map (dangling "Command" all) all).

(* byte_order_specified ; reset_values_converted ; ... ; refs_validated ; (other passes: no effect on what is
   modelled) ; emission.  [refs_first = false] is the order of mir::passes::run_passes on the unchanged tree:
   reset_values_converted runs BEFORE refs_validated although it `expect`s the refs to be valid (finding D14: a
   dangling ref with a reset override panics the generator).  [refs_first = true] is the repaired order. *)
Definition pipeline_with (refs_first : bool) (d : device) : outcome (result emitted) :=
  match bos_pass d with
  | RErr e => Ok (RErr e)
  | ROk d1 =>
    match (if refs_first then refs_check d1 else None) with
    | Some e => Ok (RErr e)
    | None =>
      match reset_pass d1 with
      | Fail k => Fail k
      | Ok (RErr e) => Ok (RErr e)
      | Ok (ROk d2) =>
        match refs_check d2 with
        | Some e => Ok (RErr e)
        | None => match emit d2 with Fail k => Fail k | Ok em => Ok (ROk em) end
        end
      end
    end
  end.

Definition pipeline (d : device) : outcome (result emitted) := pipeline_with false d.

(* ------------------------------------------------------------------------------------------ *)
(** * Specification, from the property text *)

(* "the integer's little-endian bytes cut to the register's byte length": byte i is (v / 256^i) mod 256 *)
Definition spec_le_bytes (len : Z) (v : Z) : list Z := map (fun i => (v / 256 ^ i) mod 256) (zrange 0 len).

(* what a freshly constructed field set holds *)
Definition spec_bytes (rv : option reset_value) (bo : byte_ord) (size_bits : Z) : list Z :=
  match rv with
  | None => zeros (byte_len size_bits)                                   (* "all zero when none is declared" *)
  | Some (RArr a) => a                                                   (* "the array form verbatim" *)
  | Some (RInt v) =>                                                     (* LE bytes, cut, "reversed for big-endian" *)
    let le := spec_le_bytes (byte_len size_bits) v in
    match bo with BoLE => le | BoBE => rev le end
  end.

(* set-bit k of the register's bytes, in exactly C01's numbering *)
Definition reg_bit (bo : byte_ord) (bito : bit_ord) (bytes : list Z) (k : Z) : bool :=
  setbit (bo_of bo) (bito_of bito) bytes k.

(* "a bit set at or above the register's size" *)
Definition high_bit_set (bo : byte_ord) (bito : bit_ord) (size_bits : Z) (bytes : list Z) : Prop :=
  exists k, size_bits <= k < 8 * Z.of_nat (List.length bytes) /\ reg_bit bo bito bytes k = true.

(* "A reset value with the wrong number of bytes, or with a bit set at or above the register's size, is rejected."
   Array: its length differs from ceil(size/8).  Integer: it does not fit into ceil(size/8) bytes. *)
Definition spec_reject (rv : reset_value) (bo : byte_ord) (bito : bit_ord) (size_bits : Z) : Prop :=
  match rv with
  | RArr a => Z.of_nat (List.length a) <> byte_len size_bits \/ high_bit_set bo bito size_bits a
  | RInt v => 2 ^ (8 * byte_len size_bits) <= v \/
              high_bit_set bo bito size_bits (spec_bytes (Some (RInt v)) bo size_bits)
  end.

(* the value is a u128 / a Vec<u8> *)
Definition rv_wf (rv : reset_value) : Prop :=
  match rv with
  | RInt v => 0 <= v < 2 ^ 128
  | RArr a => Forall (fun b => 0 <= b < 256) a
  end.

Definition accepted (r : outcome (result (list Z))) : Prop := exists out, r = Ok (ROk out).
Definition rejected (r : outcome (result (list Z))) : Prop :=
  exists e, r = Ok (RErr e) /\ (e_kind e = "reset_len" \/ e_kind e = "reset_too_big").

(* ------------------------------------------------------------------------------------------ *)
(** * Canonical result string for the correspondence check *)

Definition show_bytes (l : list Z) : string := "[" ++ show_list show_Z l ++ "]".
Definition show_new_as (p : string * list Z) : string := fst p ++ "=" ++ show_bytes (snd p).
Definition show_ctor_set (c : ctor_set) : string :=
  cs_name c ++ ":" ++ show_Z (cs_size_bits c) ++ ":" ++ show_Z (cs_size_bytes c) ++ ":" ++ show_bytes (cs_new c)
  ++ ":" ++ String.concat "," (map show_new_as (cs_new_as c)).
Definition show_accessor (a : accessor) : string := ac_name a ++ ":" ++ ac_field_set a ++ ":" ++ ac_reset_fn a.

Definition show_pipeline (r : outcome (result emitted)) : string :=
  match r with
  | Fail _ => "panic"
  | Ok (RErr e) => "error:" ++ show_error e
  | Ok (ROk em) => "ok;" ++ String.concat ";" (map show_ctor_set (em_sets em)) ++ "#" ++
                   String.concat ";" (map show_accessor (em_accessors em))
  end.

Definition reset_result (d : device) : string := show_pipeline (pipeline_with false d).
(* the same with refs_validated moved in front of reset_values_converted (used once D14 is marked fixed) *)
Definition reset_result_refs_first (d : device) : string := show_pipeline (pipeline_with true d).

(* one value, for unit-level evaluation by the check (L2 expectations, replays) *)
Definition show_convert (rv : reset_value) (bito : bit_ord) (size : Z) (bo : byte_ord) : string :=
  match convert_reset_value rv bito size "register" "R" bo with
  | Fail _ => "panic"
  | Ok (RErr e) => "error:" ++ show_error e
  | Ok (ROk a) => "ok:" ++ show_bytes a
  end.
