(* Access.v — C17: access specifiers decide exactly which operations exist.
   Definitions only (specification + model); proofs are in AccessProofs.v.

   SPEC  : written from the property text and the book (registers.md `access`, buffers.md,
           field-sets.md `access`, global-config.md, refs.md), without looking at the tables.
   MODEL : what the code does.  The capability tables are NOT written here: they are the
           translated files gen/Caps.v (impl Read/WriteCapability for ..), gen/OpBounds.v (the
           `where Access: ..` bound of the impl block of every operation) and gen/FrontDefaults.v
           (whether a front end reads global_config.default_*_access), regenerated from /repo on
           every build by tools/translate_tables.py. *)
From Coq Require Import Bool List String.
From DD Require Import AccessTypes.
From DDGen Require Import Caps OpBounds FrontDefaults.
Import ListNotations.
Open Scope string_scope.

(* ------------------------------------------------------------------------------------ *)
(** * Specification (property text)                                                       *)

Definition includes_read (a : access) : bool := match a with RW | RO => true | WO => false end.
Definition includes_write (a : access) : bool := match a with RW | WO => true | RO => false end.

(* "read operations": read, its async twin, buffer read / read_exact, embedded-io Read *)
Definition read_ops : list opkey :=
  [ (Reg, "read"); (Reg, "read_async");
    (Buf, "read"); (Buf, "read_exact"); (Buf, "read_async"); (Buf, "read_exact_async");
    (Buf, "embedded_io::Read::read"); (Buf, "embedded_io_async::Read::read") ].

(* "write operations": write, write_with_zero, buffer write / write_all / flush, their async
   twins, embedded-io Write *)
Definition write_ops : list opkey :=
  [ (Reg, "write"); (Reg, "write_with_zero"); (Reg, "write_async"); (Reg, "write_with_zero_async");
    (Buf, "write"); (Buf, "write_all"); (Buf, "flush");
    (Buf, "write_async"); (Buf, "write_all_async"); (Buf, "flush_async");
    (Buf, "embedded_io::Write::write"); (Buf, "embedded_io::Write::flush");
    (Buf, "embedded_io_async::Write::write"); (Buf, "embedded_io_async::Write::flush") ].

(* "modify only when it includes both" *)
Definition modify_ops : list opkey := [ (Reg, "modify"); (Reg, "modify_async") ].

(* every operation the property talks about: 8 register + 10 inherent buffer + 6 trait methods *)
Definition expected_ops : list opkey := read_ops ++ write_ops ++ modify_ops.

Definition mem_key (k : opkey) (l : list opkey) : bool := existsb (opkey_eqb k) l.

Definition needs_read (op : opkey) : bool := mem_key op read_ops || mem_key op modify_ops.
Definition needs_write (op : opkey) : bool := mem_key op write_ops || mem_key op modify_ops.

(* the property: the call compiles iff everything the operation needs is included in the access *)
Definition spec_allowed (a : access) (op : opkey) : bool :=
  implb (needs_read op) (includes_read a) && implb (needs_write op) (includes_write a).

(* "effective access (own setting, ref override, else global default, else read-write)":
   [own]   the access written on the object itself (for a ref: on its target),
   [refov] the access written in the ref's override block (None for a plain object),
   [gdef]  the global default of the object's kind, if the config gives one. *)
Definition default_or_rw (gdef : option access) : access :=
  match gdef with Some d => d | None => RW end.

Definition effective_access (own refov gdef : option access) : access :=
  match refov with
  | Some a => a
  | None => match own with Some a => a | None => default_or_rw gdef end
  end.

(* "a field has a getter iff it is readable and a setter iff it is writable" *)
Definition spec_getter (a : access) : bool := includes_read a.
Definition spec_setter (a : access) : bool := includes_write a.

(* ------------------------------------------------------------------------------------ *)
(** * Model (the code)                                                                    *)

(* block_transform.rs emits `::device_driver::#access`; mir::Access::to_tokens prints the
   Debug name of the variant, i.e. the marker type of the same name in lib.rs *)
Definition marker_of (a : access) : marker :=
  match a with RW => MRW | RO => MRO | WO => MWO end.

Definition mem_marker (m : marker) (l : list marker) : bool := existsb (marker_eqb m) l.
Definition marker_reads (m : marker) : bool := mem_marker m read_capable.     (* gen/Caps.v *)
Definition marker_writes (m : marker) : bool := mem_marker m write_capable.   (* gen/Caps.v *)

Definition oprow := (opkind * string * bool * bool)%type.
Definition row_key (r : oprow) : opkey := let '(k, n, _, _) := r in (k, n).
Definition row_needs_r (r : oprow) : bool := let '(_, _, nr, _) := r in nr.
Definition row_needs_w (r : oprow) : bool := let '(_, _, _, nw) := r in nw.

(* rustc's decision: the method of an impl block `where Access: B1 + B2` can be called on
   Operation<.., M> iff M implements every Bi *)
Definition bounds_satisfied (m : marker) (r : oprow) : bool :=
  implb (row_needs_r r) (marker_reads m) && implb (row_needs_w r) (marker_writes m).

(* an accessor with access [a] returns Operation<.., marker_of a> *)
Definition available (a : access) (r : oprow) : bool := bounds_satisfied (marker_of a) r.

Definition table_keys : list opkey := map row_key op_bounds.                  (* gen/OpBounds.v *)
Definition lookup_op (op : opkey) : option oprow :=
  find (fun r => opkey_eqb (row_key r) op) op_bounds.

(* calling operation [op] by name on an accessor with access [a]: it must exist and its bounds hold *)
Definition offered (a : access) (op : opkey) : bool :=
  match lookup_op op with Some r => available a r | None => false end.

(* Front ends.  dsl_hir/mir_transform.rs: `own.unwrap_or(global_config.default_x_access)`, the
   config default being mir::Access::default() = RW.  manifest/mod.rs: the object is built from
   `..Default::default()` (RW) and an "access" key overwrites it.  Whether the lowering reads the
   global default at all is translated from the source (gen/FrontDefaults.v). *)
Definition reads_default (fe : frontend) (d : defkind) : bool :=
  match find (fun r => frontend_eqb (fst (fst r)) fe && defkind_eqb (snd (fst r)) d) front_reads_default with
  | Some r => snd r
  | None => false
  end.

Definition front_lower_gen (reads : bool) (own gdef : option access) : access :=
  match own with
  | Some a => a
  | None => if reads then default_or_rw gdef else RW
  end.

Definition front_lower (fe : frontend) (d : defkind) (own gdef : option access) : access :=
  front_lower_gen (reads_default fe d) own gdef.

(* mir/lir_transform.rs get_method, Object::Ref: the target is cloned and
   `if let Some(access) = override_values.access { reffed_object.access = access }` *)
Definition lir_ref_override (target : access) (refov : option access) : access :=
  match refov with Some a => a | None => target end.

Definition model_access (fe : frontend) (d : defkind) (own refov gdef : option access) : access :=
  lir_ref_override (front_lower fe d own gdef) refov.

(* field_set_transform.rs:
     get_read_function : if !matches!(access, Access::RW | Access::RO) { return TokenStream::new(); }
     get_write_function: if !matches!(access, Access::RW | Access::WO) { return TokenStream::new(); } *)
Definition matches_any (a : access) (pats : list access) : bool := existsb (access_eqb a) pats.
Definition getter_emitted (a : access) : bool := if negb (matches_any a [RW; RO]) then false else true.
Definition setter_emitted (a : access) : bool := if negb (matches_any a [RW; WO]) then false else true.

Definition defkind_of (k : opkind) : defkind := match k with Reg => DReg | Buf => DBuf end.

(* ------------------------------------------------------------------------------------ *)
(** * Probe evaluation (used by tools/checks/c17.py through a generated cases.v)           *)

Inductive probe :=
| POp (fe : frontend) (k : opkind) (own refov gdef : option access) (name : string)
| PGet (fe : frontend) (own gdef : option access)
| PSet (fe : frontend) (own gdef : option access).

(* what the property demands: does the probe's call compile? *)
Definition probe_spec (p : probe) : bool :=
  match p with
  | POp _ k own refov gdef n => spec_allowed (effective_access own refov gdef) (k, n)
  | PGet _ own gdef => spec_getter (effective_access own None gdef)
  | PSet _ own gdef => spec_setter (effective_access own None gdef)
  end.

(* what the model of the code (translated tables) says *)
Definition probe_model (p : probe) : bool :=
  match p with
  | POp fe k own refov gdef n => offered (model_access fe (defkind_of k) own refov gdef) (k, n)
  | PGet fe own gdef => getter_emitted (front_lower fe DField own gdef)
  | PSet fe own gdef => setter_emitted (front_lower fe DField own gdef)
  end.

(* the property evaluated as if no global default had been given: the recorded wrong behaviour
   of defect D5 (a front end that ignores default_*_access) *)
Definition probe_spec_without_default (p : probe) : bool :=
  match p with
  | POp fe k own refov _ n => probe_spec (POp fe k own refov None n)
  | PGet fe own _ => probe_spec (PGet fe own None)
  | PSet fe own _ => probe_spec (PSet fe own None)
  end.

(* the access a probe's accessor / field should have according to the property *)
Definition probe_effective (p : probe) : access :=
  match p with
  | POp _ _ own refov gdef _ => effective_access own refov gdef
  | PGet _ own gdef | PSet _ own gdef => effective_access own None gdef
  end.
