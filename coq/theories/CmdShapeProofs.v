(* CmdShapeProofs.v — the generator clause of C09: `()` exactly for an empty field list, and the composition
   with the proven dispatch bodies (ProtoProofs): a generated command accessor transfers the declared size and
   ceil(size/8) bytes in a direction that has fields, and (0, empty) in a direction that has none. *)
From Coq Require Import ZArith List Bool String Lia.
From DD Require Import Common Mir Case Reset CmdShape.
From DD Require Proto ProtoProofs.
Import ListNotations.
Open Scope Z_scope.

Lemma is_nil_true {A} (l : list A) : is_nil l = true <-> l = [].
Proof. destruct l; cbn; split; intros H; try reflexivity; discriminate. Qed.

Lemma unit_in_iff_no_fields n c : sh_fs_in (shape_of n c) = None <-> cm_in_fields c = [].
Proof. unfold shape_of; cbn [sh_fs_in]. rewrite <- is_nil_true. destruct (is_nil (cm_in_fields c)); split; intros H; try reflexivity; discriminate. Qed.

Lemma unit_out_iff_no_fields n c : sh_fs_out (shape_of n c) = None <-> cm_out_fields c = [].
Proof. unfold shape_of; cbn [sh_fs_out]. rewrite <- is_nil_true. destruct (is_nil (cm_out_fields c)); split; intros H; try reflexivity; discriminate. Qed.

(* a ref hands out the TARGET's field sets (and only the method name is the ref's) *)
Lemma ref_shape_is_targets all cf n target addr aao rep c :
  search_object target all = Some (OCommand c) ->
  shape_of_object all (ORef cf n (OvCommand target addr aao rep)) = Some (shape_of n c) /\
  sh_fs_in (shape_of n c) = sh_fs_in (shape_of (cm_name c) c) /\
  sh_fs_out (shape_of n c) = sh_fs_out (shape_of (cm_name c) c) /\
  sh_tx_in (shape_of n c) = sh_tx_in (shape_of (cm_name c) c) /\
  sh_tx_out (shape_of n c) = sh_tx_out (shape_of (cm_name c) c).
Proof. intros H. cbn [shape_of_object]. rewrite H. repeat split. Qed.

(* exactly one interface call, with the transferred sizes of the shape *)
Theorem generated_dispatch_one_call orc h a c f n :
  let s := shape_of n c in
  let input := if is_nil (cm_in_fields c) then [] else Proto.call_cmd_closure f (Proto.zeros (Proto.nbytes (cm_size_in c))) in
  let call := Proto.CmdDispatch a (sh_tx_in s) input (sh_tx_out s) (Proto.zeros (Proto.nbytes (sh_tx_out s))) in
  List.length input = Proto.nbytes (sh_tx_in s) /\
  generated_dispatch_calls orc h a c f = [(call, orc h call)].
Proof.
  unfold generated_dispatch_calls, shape_of; cbn [sh_tx_in sh_tx_out].
  destruct (is_nil (cm_in_fields c)), (is_nil (cm_out_fields c)); cbn zeta.
  - split; [reflexivity|]. rewrite ProtoProofs.cmd_none_spec. reflexivity.
  - split; [reflexivity|]. destruct (ProtoProofs.cmd_out_spec orc h a (cm_size_out c)) as (_ & _ & Hr). rewrite Hr. reflexivity.
  - destruct (ProtoProofs.cmd_in_spec orc h a (cm_size_in c) f) as (Hl & Hr). split; [exact Hl|]. rewrite Hr. reflexivity.
  - destruct (ProtoProofs.cmd_inout_spec orc h a (cm_size_in c) (cm_size_out c) f) as (Hl & _ & _ & Hr). split; [exact Hl|]. rewrite Hr. reflexivity.
Qed.

(* the property's wording: size 0 and an empty slice when the command has no input (output) fields,
   the declared size and ceil(size/8) bytes otherwise *)
Theorem transferred_sizes n c :
  (cm_in_fields c = [] -> sh_tx_in (shape_of n c) = 0) /\
  (cm_in_fields c <> [] -> sh_tx_in (shape_of n c) = cm_size_in c) /\
  (cm_out_fields c = [] -> sh_tx_out (shape_of n c) = 0) /\
  (cm_out_fields c <> [] -> sh_tx_out (shape_of n c) = cm_size_out c).
Proof.
  unfold shape_of; cbn [sh_tx_in sh_tx_out]. repeat split; intros H.
  - apply is_nil_true in H. rewrite H. reflexivity.
  - destruct (cm_in_fields c); [contradiction|reflexivity].
  - apply is_nil_true in H. rewrite H. reflexivity.
  - destruct (cm_out_fields c); [contradiction|reflexivity].
Qed.
