(* Addr04.v — which accessor methods a device gets (lir_transform::get_method incl. register / command
   refs: clone the target, apply the overrides, keep the ref's name), every call path with every valid
   index tuple and the first invalid index per level, and the read_all_registers items.
   Block refs (since /repo's repair of D9 their output compiles): the ref's accessor has the ref's name, its own offset
   and repeat (else the target's) and leads to the TARGET's objects.  Definitions only. *)
From Coq Require Import ZArith List Bool String Ascii.
From DD Require Import Common Mir GenErr AddrPath.
From DD Require Case.
Import ListNotations.
Open Scope string_scope.
Open Scope Z_scope.

Inductive mkind := KReg (acc : access) | KCmd | KBuf (acc : access) | KBlock.

Record meth := { m_name : string; m_kind : mkind; m_addr : Z; m_rep : option repeat }.

(* the accessor of an object is named by the snake_case form of its (normalised) name: lir_transform's
   `name.to_case(convert_case::Case::Snake)`, default boundaries (Case.v).  `Ra` -> ra, `RcQ` -> rc_q, `Rcq` -> rcq: names
   that differ only in letter case stay different methods. *)
Definition meth_name (n : string) : string := Case.to_snake_default n.
Arguments meth_name : simpl never.

(* search_object on the pre-order list = DFS first match *)
Definition find_object (all : list object) (name : string) : option object :=
  find (fun o => String.eqb (object_name o) name) (preorder_objects all).

Definition method_of (all : list object) (o : object) : option meth :=
  match o with
  | OBlock _ n off rep _ => Some {| m_name := meth_name n; m_kind := KBlock; m_addr := off; m_rep := rep |}
  | ORegister r => Some {| m_name := meth_name (rg_name r); m_kind := KReg (rg_access r); m_addr := rg_address r; m_rep := rg_repeat r |}
  | OCommand c => Some {| m_name := meth_name (cm_name c); m_kind := KCmd; m_addr := cm_address c; m_rep := cm_repeat c |}
  | OBuffer b => Some {| m_name := meth_name (bf_name b); m_kind := KBuf (bf_access b); m_addr := bf_address b; m_rep := None |}
  | ORef _ n (OvRegister target acc addr _ _ rep) =>
    match find_object all target with
    | Some (ORegister r) =>
      Some {| m_name := meth_name n;
              m_kind := KReg (match acc with Some a => a | None => rg_access r end);
              m_addr := match addr with Some a => a | None => rg_address r end;
              m_rep := match rep with Some x => Some x | None => rg_repeat r end |}
    | _ => None
    end
  | ORef _ n (OvCommand target addr _ rep) =>
    match find_object all target with
    | Some (OCommand c) =>
      Some {| m_name := meth_name n; m_kind := KCmd;
              m_addr := match addr with Some a => a | None => cm_address c end;
              m_rep := match rep with Some x => Some x | None => cm_repeat c end |}
    | _ => None
    end
  | ORef _ n (OvBlock target off rep) =>
    match find_object all target with
    | Some (OBlock _ _ toff trep _) =>
      Some {| m_name := meth_name n; m_kind := KBlock;
              m_addr := match off with Some a => a | None => toff end;
              m_rep := match rep with Some x => Some x | None => trep end |}
    | _ => None
    end
  end.

(* the objects reached through a block accessor: the block's own, or the target's for a block ref *)
Definition block_children (all : list object) (o : object) : option (list object) :=
  match o with
  | OBlock _ _ _ _ inner => Some inner
  | ORef _ _ (OvBlock target _ _) =>
    match find_object all target with Some (OBlock _ _ _ _ inner) => Some inner | _ => None end
  | _ => None
  end.

Definition indices (rep : option repeat) : list (option Z) :=
  match rep with
  | None => [None]
  | Some r => map (fun i => Some (Z.of_nat i)) (seq 0 (Z.to_nat (r_count r) + 1))   (* 0..count, count = first invalid *)
  end.

Definition level_of (m : meth) (i : option Z) : level :=
  {| l_addr := m_addr m; l_rep := m_rep m; l_index := match i with Some z => z | None => 0 end |}.

Definition show_step (m : meth) (i : option Z) : string :=
  m_name m ++ match i with Some z => "[" ++ show_Z z ++ "]" | None => "" end.

Definition show_outcome_Z (o : outcome Z) : string :=
  match o with
  | Ok z => show_Z z
  | Fail AssertFail => "ASSERT"
  | Fail Overflow => "OVERFLOW"
  | Fail _ => "FAIL"
  end.

(* all call paths below a list of objects: (key, levels so far) *)
Fixpoint paths (fuel : nat) (all objs : list object) (prefix : string) (lv : list level) : list (string * list level) :=
  match fuel with
  | O => []
  | S f =>
    flat_map (fun o =>
      match method_of all o with
      | None => []
      | Some m =>
        flat_map (fun i =>
          let key := prefix ++ show_step m i in
          let lv' := (lv ++ [level_of m i])%list in
          match block_children all o with
          | Some inner =>
            (* the block accessor itself (it panics on the first invalid index) and everything below a valid one *)
            if index_valid (level_of m i) then paths f all inner (key ++ "/") lv' else [(key, lv')]
          | None => [(key, lv')]
          end) (indices (m_rep m))
      end) objs
  end.

(* one unit per block level; a block ref adds the depth of its target, and accepted definitions are acyclic (D11 repaired),
   so twice the tree size bounds every expansion *)
Definition size_fuel (d : device) : nat := S (2 * fold_right (fun o acc => object_size o + acc)%nat O (d_objects d)).

(* find_best_internal_address is modelled by the addr agent (C13); here IT and the address types are
   read off the real token stream and passed in. *)
Definition c04_expected (b : build) (it : ity) (reg_at cmd_at buf_at : ity) (d : device) : string :=
  String.concat ";"
    (map (fun kp : string * list level =>
            let '(key, lv) := kp in
            (* leaf kind decides the `as AT` cast; blocks (only listed for their invalid index) have none *)
            key ++ "=" ++ show_outcome_Z (gen_addr_from b it 0 lv))
         (paths (size_fuel d) (d_objects d) (d_objects d) "" [])).

(* read_all_registers of ONE block (given its objects): the RO/RW registers (refs with overridden
   access included) x every index 0..count-1, in declaration order; reported address = ADDR + i*STRIDE *)
Definition readable_acc (a : access) : bool := match a with RW | RO => true | WO => false end.

(* One read_all_registers item: display name and the address handed to the callback.
   Root block: the constant expression ADDR (+|-) IDX * |STRIDE|.  Non-root block (since /repo's repair of D2):
   (self.base_address + ADDR (+|-) IDX * |STRIDE|) as AT — the same arithmetic the accessor performs, so the
   reported address IS the bus address. [lv] = the levels leading to the block ([] for the root). *)
Definition read_all_items (it : ity) (lv : list level) (all objs : list object) : list (string * string) :=
  flat_map (fun o =>
    match method_of all o with
    | Some m =>
      match m_kind m with
      | KReg acc =>
        if readable_acc acc then
          let item (i : option Z) :=
            (show_step m i,
             match lv with
             | [] => show_Z (read_all_reported (m_addr m) (m_rep m) (match i with Some z => z | None => 0 end))
             | _ => show_outcome_Z (gen_addr_from Debug it 0 (lv ++ [level_of m i])%list)
             end) in
          match m_rep m with
          | None => [item None]
          | Some r => map (fun i => item (Some (Z.of_nat i))) (seq 0 (Z.to_nat (r_count r)))
          end
        else []
      | _ => []
      end
    | None => []
    end) objs.

Definition show_read_all (it : ity) (lv : list level) (all objs : list object) : string :=
  String.concat "," (map (fun x : string * string => let '(n, a) := x in n ++ "@" ++ a) (read_all_items it lv all objs)).

(* read_all for the root block and for every (block path with valid indices) *)
Fixpoint read_all_blocks (fuel : nat) (it : ity) (all objs : list object) (prefix : string) (lv : list level) : list (string * string) :=
  match fuel with
  | O => []
  | S f =>
    (prefix, show_read_all it lv all objs) ::
    flat_map (fun o =>
      match block_children all o, method_of all o with
      | Some inner, Some m =>
        flat_map (fun i => if index_valid (level_of m i)
                           then read_all_blocks f it all inner (prefix ++ show_step m i ++ "/") (lv ++ [level_of m i])%list else [])
                 (indices (m_rep m))
      | _, _ => []
      end) objs
  end.

Definition c04_read_all (it : ity) (d : device) : string :=
  String.concat ";" (map (fun kv : string * string => let '(k, v) := kv in "RA:" ++ k ++ "=" ++ v)
                         (read_all_blocks (size_fuel d) it (d_objects d) (d_objects d) "" [])).

Definition ity_of_name (s : string) : ity :=
  if String.eqb s "u8" then {| signed := false; bits := 8 |} else if String.eqb s "u16" then {| signed := false; bits := 16 |}
  else if String.eqb s "u32" then {| signed := false; bits := 32 |} else if String.eqb s "u64" then {| signed := false; bits := 64 |}
  else if String.eqb s "u128" then {| signed := false; bits := 128 |}
  else if String.eqb s "i8" then {| signed := true; bits := 8 |} else if String.eqb s "i16" then {| signed := true; bits := 16 |}
  else if String.eqb s "i32" then {| signed := true; bits := 32 |} else if String.eqb s "i64" then {| signed := true; bits := 64 |}
  else {| signed := true; bits := 128 |}.

Definition c04_result (it_name : string) (d : device) : string :=
  c04_expected Debug (ity_of_name it_name) (ity_of_name it_name) (ity_of_name it_name) (ity_of_name it_name) d
  ++ "|" ++ c04_read_all (ity_of_name it_name) d.
