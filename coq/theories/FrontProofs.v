(* FrontProofs.v — proofs about Front.v (C16): both front ends implement the meaning [spec_device] of an abstract
   definition, for every structural spelling; hence they agree with each other. *)
From Coq Require Import ZArith List Bool String Ascii Lia Permutation.
From DD Require Import Common Mir GenErr Front.
Import ListNotations.
Open Scope string_scope.
Open Scope Z_scope.

(* ------------------------------------------------------------------ monad / list plumbing *)

Lemma mapR_mapM : forall {A B} (f : A -> result B) l, mapR f l = mapM f l.
Proof. induction l as [|a t IH]; cbn; [reflexivity|]. rewrite IH. reflexivity. Qed.

Lemma mapR_map : forall {A B C} (f : B -> result C) (g : A -> B) l, mapR f (map g l) = mapR (fun x => f (g x)) l.
Proof. induction l as [|a t IH]; cbn; [reflexivity|]. rewrite IH. reflexivity. Qed.

Lemma mapR_ok : forall {A B} (f : A -> result B) (h : A -> B) l,
  Forall (fun x => f x = ROk (h x)) l -> mapR f l = ROk (map h l).
Proof.
  induction l as [|a t IH]; intros H; cbn; [reflexivity|].
  inversion H; subst. rewrite H2. cbn. rewrite (IH H3). reflexivity.
Qed.

Lemma class_of_ok : forall {A} (r : result A) a, class_of r = ROk a -> r = ROk a.
Proof. intros A [x|e] a H; cbn in H; congruence. Qed.

Lemma class_of_idem : forall e, err_class (err_class e) = err_class e.
Proof.
  intros [k args]. unfold err_class. cbn [e_kind e_args].
  destruct (k =s "dsl_missing") eqn:E1.
  { destruct args as [|a [|b [|c [|? ?]]]]; cbn; try rewrite E1; reflexivity. }
  destruct (k =s "manifest_missing") eqn:E2; [reflexivity|].
  destruct ((k =s "dsl_ref_buffer") || (k =s "manifest_ref_buffer")) eqn:E3; [reflexivity|].
  destruct ((k =s "dsl_ref_ref") || (k =s "manifest_ref_ref")) eqn:E4; [reflexivity|].
  destruct ((k =s "dsl_override_forbidden") || (k =s "manifest_override_unexpected_key")) eqn:E5; [reflexivity|].
  cbn [e_kind e_args]. rewrite E1, E2, E3, E4, E5. reflexivity.
Qed.

Lemma class_of_class_of : forall {A} (r : result A), class_of (class_of r) = class_of r.
Proof. intros A [a|e]; cbn; [reflexivity|]. rewrite class_of_idem. reflexivity. Qed.

(* congruence of the comparison under bind and mapR *)
Lemma class_rbind : forall {A B} (x y : result A) (f g : A -> result B),
  class_of x = class_of y -> (forall a, class_of (f a) = class_of (g a)) ->
  class_of (rbind x f) = class_of (rbind y g).
Proof.
  intros A B [a|e] [b|e'] f g H Hf; cbn in *; try discriminate.
  - inversion H; subst. apply Hf.
  - inversion H. reflexivity.
Qed.

Lemma class_mapR : forall {A B} (f s : A -> result B) l,
  Forall (fun x => class_of (f x) = class_of (s x)) l -> class_of (mapR f l) = class_of (mapR s l).
Proof.
  induction l as [|a t IH]; intros H; [reflexivity|].
  inversion H; subst. cbn [mapR].
  change (class_of (rbind (f a) (fun b => rbind (mapR f t) (fun bs => ROk (b :: bs)))) =
          class_of (rbind (s a) (fun b => rbind (mapR s t) (fun bs => ROk (b :: bs))))).
  apply class_rbind; [assumption|]. intros b.
  apply class_rbind; [apply IH; assumption|]. reflexivity.
Qed.

Lemma foldM_app : forall {A B} (f : A -> B -> result B) l1 l2 b,
  foldM f (l1 ++ l2) b = rbind (foldM f l1 b) (fun b' => foldM f l2 b').
Proof.
  induction l1 as [|a t IH]; intros l2 b; cbn; [reflexivity|].
  destruct (f a b); cbn; [apply IH | reflexivity].
Qed.

(* ------------------------------------------------------------------ find_map *)

Lemma find_map_app : forall {A B} (p : A -> option B) l1 l2,
  find_map p (l1 ++ l2) = match find_map p l1 with Some b => Some b | None => find_map p l2 end.
Proof. induction l1 as [|a t IH]; intros; cbn; [reflexivity|]. destruct (p a); [reflexivity|apply IH]. Qed.

Lemma find_map_none : forall {A B} (p : A -> option B) l,
  find_map p l = None <-> Forall (fun i => p i = None) l.
Proof.
  induction l as [|a t IH]; cbn; [split; auto|].
  destruct (p a) eqn:E; split; intros H.
  - discriminate.
  - inversion H; congruence.
  - constructor; [first [assumption|reflexivity]|apply IH; assumption].
  - inversion H; subst. apply IH; assumption.
Qed.

Lemma find_map_some_in : forall {A B} (p : A -> option B) l v,
  find_map p l = Some v -> exists i, In i l /\ p i = Some v.
Proof.
  induction l as [|a t IH]; cbn; intros v H; [discriminate|].
  destruct (p a) eqn:E.
  - inversion H; subst. exists a; auto.
  - destruct (IH v H) as [i [Hi Hp]]. exists i; auto.
Qed.

(* if every hit is the same element, find_map returns that element's value *)
Lemma find_map_unique : forall {A B} (p : A -> option B) l i,
  In i l -> (forall j, In j l -> p j <> None -> j = i) -> find_map p l = p i.
Proof.
  induction l as [|a t IH]; intros i Hin Hu; [destruct Hin|].
  cbn. destruct (p a) eqn:E.
  - assert (a = i) by (apply Hu; [left; reflexivity|congruence]). subst. symmetry; assumption.
  - destruct Hin as [->|Hin].
    + rewrite E. apply find_map_none. rewrite Forall_forall. intros x Hx.
      destruct (p x) eqn:Ex; [exfalso|reflexivity].
      assert (x = i) by (apply Hu; [right; assumption|congruence]). subst. congruence.
    + apply IH; [assumption|]. intros j Hj Hp. apply Hu; [right; assumption|assumption].
Qed.

(* permutation invariance when all hits have one kind and kinds do not repeat *)
Lemma NoDup_map_inj : forall {A} (kind : A -> nat) l i j,
  NoDup (map kind l) -> In i l -> In j l -> kind i = kind j -> i = j.
Proof.
  induction l as [|a t IH]; intros i j Hnd Hi Hj Hk; [destruct Hi|].
  cbn in Hnd. inversion Hnd; subst.
  destruct Hi as [->|Hi], Hj as [->|Hj]; auto.
  - exfalso. apply H1. rewrite Hk. apply in_map; assumption.
  - exfalso. apply H1. rewrite <- Hk. apply in_map; assumption.
Qed.

Lemma find_map_perm : forall {A B} (kind : A -> nat) (p : A -> option B) (k : nat) l l',
  NoDup (map kind l) -> (forall i, p i <> None -> kind i = k) -> Permutation l l' ->
  find_map p l' = find_map p l.
Proof.
  intros A B kind p k l l' Hnd Hk Hperm.
  destruct (find_map p l) eqn:E.
  - destruct (find_map_some_in _ _ _ E) as [i [Hi Hp]].
    rewrite <- Hp. apply find_map_unique.
    + eapply Permutation_in; eassumption.
    + intros j Hj Hpj. apply (NoDup_map_inj kind l); try assumption.
      * eapply Permutation_in; [apply Permutation_sym; eassumption|assumption].
      * rewrite (Hk j Hpj). symmetry. apply Hk. congruence.
  - apply find_map_none. apply find_map_none in E.
    rewrite Forall_forall in *. intros x Hx. apply E.
    eapply Permutation_in; [apply Permutation_sym; eassumption|assumption].
Qed.

Lemma find_map_perm_none : forall {A B} (p : A -> option B) l l',
  Permutation l l' -> find_map p l = None -> find_map p l' = None.
Proof.
  intros A B p l l' Hperm E. apply find_map_none. apply find_map_none in E.
  rewrite Forall_forall in *. intros x Hx. apply E.
  eapply Permutation_in; [apply Permutation_sym; eassumption|assumption].
Qed.

(* ------------------------------------------------------------------ reorder is a permutation *)

Lemma insert_by_perm : forall {A} k (a : A) l, Permutation ((k, a) :: l) (insert_by k a l).
Proof.
  induction l as [|[k' b] t IH]; cbn; [apply Permutation_refl|].
  destruct (Nat.leb k k'); [apply Permutation_refl|].
  eapply Permutation_trans; [apply perm_swap|]. apply perm_skip. exact IH.
Qed.

Lemma isort_perm : forall {A} (l : list (nat * A)), Permutation l (isort l).
Proof.
  induction l as [|[k a] t IH]; cbn; [apply Permutation_refl|].
  eapply Permutation_trans; [|apply insert_by_perm]. apply perm_skip. exact IH.
Qed.

Lemma zip_keys_snd : forall {A} keys (l : list A), map snd (zip_keys keys l) = l.
Proof.
  intros A keys l; revert keys. induction l as [|a t IH]; intros keys; cbn; [reflexivity|].
  destruct keys; cbn; rewrite IH; reflexivity.
Qed.

Lemma reorder_perm : forall {A} keys (l : list A), Permutation l (reorder keys l).
Proof.
  intros. unfold reorder. rewrite <- (zip_keys_snd keys l) at 1.
  apply Permutation_map. apply isort_perm.
Qed.

(* boolean no-duplicates on nat lists *)
Fixpoint nodupb (l : list nat) : bool :=
  match l with [] => true | a :: t => negb (existsb (Nat.eqb a) t) && nodupb t end.

Lemma nodupb_sound : forall l, nodupb l = true -> NoDup l.
Proof.
  induction l as [|a t IH]; cbn; intros H; [constructor|].
  apply andb_prop in H. destruct H as [H1 H2]. constructor; [|apply IH; assumption].
  intros Hin. apply negb_true_iff in H1.
  assert (existsb (Nat.eqb a) t = true) by (apply existsb_exists; exists a; split; [assumption|apply Nat.eqb_refl]).
  congruence.
Qed.

Lemma find_map_reorder : forall {A B} (kind : A -> nat) (p : A -> option B) (k : nat) keys l,
  nodupb (map kind l) = true -> (forall i, p i <> None -> kind i = k) ->
  find_map p (reorder keys l) = find_map p l.
Proof.
  intros. eapply find_map_perm; [apply nodupb_sound; eassumption|eassumption|apply reorder_perm].
Qed.

(* ================================================================== the DSL half *)

Lemma parse_lit_ok : forall ok z, ok z = true -> parse_lit ok z = ROk z.
Proof. intros ok z H. unfold parse_lit. rewrite H. reflexivity. Qed.

Lemma get_cfg_opt : forall c, get_cfg_attr (opt_item ACfg c) = ROk c.
Proof. intros [c|]; reflexivity. Qed.

Lemma get_cfg_head : forall h, get_cfg_attr (attrs_of h) = ROk (h_cfg h).
Proof. intros [[c|] [|] n]; reflexivity. Qed.

Lemma dsl_repeat_ok : forall r, repeat_ok r = true -> dsl_repeat r = ROk r.
Proof.
  intros [c s] H. unfold repeat_ok in H. cbn in H. apply andb_prop in H. destruct H as [H1 H2].
  unfold dsl_repeat. cbn [r_count r_stride]. rewrite (parse_lit_ok _ _ H1), (parse_lit_ok _ _ H2). reflexivity.
Qed.

Lemma dsl_opt_repeat_ok : forall r, opt_ok repeat_ok r = true -> transpose (option_map dsl_repeat r) = ROk r.
Proof. intros [r|] H; cbn in *; [rewrite (dsl_repeat_ok _ H)|]; reflexivity. Qed.

Lemma dsl_opt_i64_ok : forall z, opt_ok in_i64 z = true -> transpose (option_map (parse_lit in_i64) z) = ROk z.
Proof. intros [z|] H; cbn in *; [rewrite (parse_lit_ok _ _ H)|]; reflexivity. Qed.

Lemma in_i64_i128 : forall z, in_i64 z = true -> in_i128 z = true.
Proof.
  intros z H. unfold in_i64, in_i128 in *. apply andb_prop in H. destruct H as [H1 H2].
  apply Z.leb_le in H1. apply Z.ltb_lt in H2. apply andb_true_intro. split; [apply Z.leb_le|apply Z.ltb_lt]; lia.
Qed.

Lemma dsl_variant_ok : forall v, variant_ok v = true -> dsl_variant (variant_to_dsl v) = ROk (spec_variant v).
Proof.
  intros [c n val mf ov] H. unfold variant_ok in H. cbn in H.
  apply andb_prop in H. destruct H as [_ H].
  unfold dsl_variant, variant_to_dsl, spec_variant. cbn [hv_attrs hv_name hv_value av_cfg av_name av_value].
  rewrite get_cfg_opt. cbn [rbind].
  destruct val as [|z| |]; cbn; try reflexivity.
  rewrite (parse_lit_ok _ _ (in_i64_i128 _ H)). reflexivity.
Qed.

Lemma dsl_conv_ok : forall c, conv_ok c = true -> dsl_conv (conv_to_dsl c) = ROk (spec_conv c).
Proof.
  intros [[n|n vs] t] H; unfold conv_to_dsl, spec_conv; cbn [fst snd dsl_conv]; [reflexivity|].
  unfold conv_ok in H. cbn in H.
  rewrite <- mapR_mapM, mapR_map, (mapR_ok _ spec_variant).
  - reflexivity.
  - rewrite Forall_forall. intros v Hv. apply dsl_variant_ok.
    rewrite forallb_forall in H. apply H; assumption.
Qed.

Lemma dsl_field_ok : forall g f,
  field_ok f = true -> field_single_nonbool f = false -> dsl_field g (field_to_dsl f) = ROk (spec_field g f).
Proof.
  intros g [c n acc base conv s e incl] H Hs.
  unfold field_ok in H. cbn in H. apply andb_prop in H. destruct H as [H Hc].
  apply andb_prop in H. destruct H as [Hst He].
  unfold field_single_nonbool in Hs. cbn in Hs.
  unfold dsl_field, field_to_dsl, spec_field.
  cbn [hf_attrs hf_name hf_access hf_base hf_conv hf_addr af_cfg af_name af_access af_base af_conv af_start af_end af_incl].
  rewrite get_cfg_opt. cbn [rbind].
  assert (Hconv : transpose (option_map dsl_conv (option_map conv_to_dsl conv)) = ROk (option_map spec_conv conv)).
  { destruct conv as [cv|]; cbn in *; [rewrite (dsl_conv_ok _ Hc)|]; reflexivity. }
  rewrite Hconv. cbn [rbind].
  destruct e as [e|]; cbn [or_default].
  - cbn in He.
    destruct (incl && (1 <=? e)) eqn:Ei; cbn [dsl_field_address].
    + apply andb_prop in Ei. destruct Ei as [_ Ei]. apply Z.leb_le in Ei.
      assert (He1 : in_u32 (e - 1) = true).
      { unfold in_u32 in *. apply andb_prop in He. destruct He as [A B]. apply Z.leb_le in A. apply Z.ltb_lt in B.
        apply andb_true_intro. split; [apply Z.leb_le|apply Z.ltb_lt]; lia. }
      rewrite (parse_lit_ok _ _ Hst), (parse_lit_ok _ _ He1). cbn [rbind].
      assert (Hne : (e - 1 =? 2 ^ 32 - 1) = false).
      { apply Z.eqb_neq. unfold in_u32 in He. apply andb_prop in He. destruct He as [_ B]. apply Z.ltb_lt in B. lia. }
      rewrite Hne. cbn [fst snd]. replace (e - 1 + 1) with e by lia. reflexivity.
    + rewrite (parse_lit_ok _ _ Hst), (parse_lit_ok _ _ He). reflexivity.
  - cbn [dsl_field_address]. cbn in Hs.
    destruct (is_bool_base base); [|discriminate].
    rewrite (parse_lit_ok _ _ Hst). reflexivity.
Qed.

Lemma dsl_fields_ok : forall g fs,
  fields_ok fs = true -> mapM (dsl_field g) (map field_to_dsl fs) = ROk (map (spec_field g) fs).
Proof.
  intros g fs H. rewrite <- mapR_mapM, mapR_map. apply mapR_ok.
  rewrite Forall_forall. intros f Hf. unfold fields_ok in H. rewrite forallb_forall in H.
  specialize (H f Hf). apply andb_prop in H. destruct H as [H1 H2]. apply negb_true_iff in H2.
  apply dsl_field_ok; assumption.
Qed.

(* ---- item kinds: the parser's `discriminant` (the two reset forms share one slot) ---- *)

Definition rkind (i : register_item) : nat :=
  match i with
  | RIAccess _ => 0 | RIByteOrder _ => 1 | RIBitOrder _ => 2 | RIAddress _ => 3 | RISizeBits _ => 4
  | RIResetInt _ => 5 | RIResetArr _ => 5 | RIRepeat _ => 6 | RIAllowBitOverlap _ => 7
  | RIAllowAddressOverlap _ => 8
  end%nat.

Definition ckind (i : command_item) : nat :=
  match i with
  | CIByteOrder _ => 0 | CIBitOrder _ => 1 | CIAddress _ => 2 | CISizeBitsIn _ => 3 | CISizeBitsOut _ => 4
  | CIRepeat _ => 5 | CIAllowBitOverlap _ => 6 | CIAllowAddressOverlap _ => 7
  end%nat.

Definition bkind (i : block_item) : nat := match i with BIAddressOffset _ => 0 | BIRepeat _ => 1 end%nat.

Lemma register_items_nodup : forall r, nodupb (map rkind (register_items r)) = true.
Proof.
  intros [a b c d e f g h i fs ord]. unfold register_items.
  cbn [ar_access ar_byte_order ar_bit_order ar_address ar_size_bits ar_reset ar_repeat ar_allow_bit_overlap
       ar_allow_address_overlap].
  destruct a, b, c, d, e, f as [[?|?]|], g, h, i; reflexivity.
Qed.

Lemma command_items_nodup : forall c, nodupb (map ckind (command_items c)) = true.
Proof.
  intros [a b c d e f g h fi fo ord ba br]. unfold command_items.
  cbn [ak_byte_order ak_bit_order ak_address ak_size_in ak_size_out ak_repeat ak_allow_bit_overlap
       ak_allow_address_overlap].
  destruct a, b, c, d, e, f, g, h; reflexivity.
Qed.

Lemma block_items_nodup : forall off rep, nodupb (map bkind (block_items off rep)) = true.
Proof. intros [?|] [?|]; reflexivity. Qed.

(* what the pickers find in the canonical item list *)
Definition reset_pick (r : reset_value) : result reset_value :=
  match r with RInt z => dsl_reset_int z | RArr l => ROk (RArr l) end.

Lemma register_picks : forall r,
  let l := register_items r in
  find_map pick_r_access l = ar_access r /\ find_map pick_r_byte_order l = ar_byte_order r /\
  find_map pick_r_bit_order l = ar_bit_order r /\ find_map pick_r_address l = ar_address r /\
  find_map pick_r_size l = ar_size_bits r /\ find_map pick_r_reset l = option_map reset_pick (ar_reset r) /\
  find_map pick_r_repeat l = ar_repeat r /\ find_map pick_r_allow_bit l = ar_allow_bit_overlap r /\
  find_map pick_r_allow_addr l = ar_allow_address_overlap r.
Proof.
  intros [a b c d e f g h i fs ord]. unfold register_items.
  cbn [ar_access ar_byte_order ar_bit_order ar_address ar_size_bits ar_reset ar_repeat ar_allow_bit_overlap
       ar_allow_address_overlap].
  destruct a, b, c, d, e, f as [[?|?]|], g, h, i; cbn; repeat split; reflexivity.
Qed.

Lemma command_picks : forall c,
  let l := command_items c in
  find_map pick_c_byte_order l = ak_byte_order c /\ find_map pick_c_bit_order l = ak_bit_order c /\
  find_map pick_c_address l = ak_address c /\ find_map pick_c_size_in l = ak_size_in c /\
  find_map pick_c_size_out l = ak_size_out c /\ find_map pick_c_repeat l = ak_repeat c /\
  find_map pick_c_allow_bit l = ak_allow_bit_overlap c /\
  find_map pick_c_allow_addr l = ak_allow_address_overlap c.
Proof.
  intros [a b c d e f g h fi fo ord ba br]. unfold command_items.
  cbn [ak_byte_order ak_bit_order ak_address ak_size_in ak_size_out ak_repeat ak_allow_bit_overlap
       ak_allow_address_overlap].
  destruct a, b, c, d, e, f, g, h; cbn; repeat split; reflexivity.
Qed.

Ltac kind_side := let i := fresh in let H := fresh in
  intros i H; destruct i; try reflexivity; exfalso; apply H; reflexivity.

Ltac reorder_r r :=
  rewrite ?(find_map_reorder rkind pick_r_access 0%nat _ _ (register_items_nodup r)) by kind_side;
  rewrite ?(find_map_reorder rkind pick_r_byte_order 1%nat _ _ (register_items_nodup r)) by kind_side;
  rewrite ?(find_map_reorder rkind pick_r_bit_order 2%nat _ _ (register_items_nodup r)) by kind_side;
  rewrite ?(find_map_reorder rkind pick_r_address 3%nat _ _ (register_items_nodup r)) by kind_side;
  rewrite ?(find_map_reorder rkind pick_r_size 4%nat _ _ (register_items_nodup r)) by kind_side;
  rewrite ?(find_map_reorder rkind pick_r_reset 5%nat _ _ (register_items_nodup r)) by kind_side;
  rewrite ?(find_map_reorder rkind pick_r_repeat 6%nat _ _ (register_items_nodup r)) by kind_side;
  rewrite ?(find_map_reorder rkind pick_r_allow_bit 7%nat _ _ (register_items_nodup r)) by kind_side;
  rewrite ?(find_map_reorder rkind pick_r_allow_addr 8%nat _ _ (register_items_nodup r)) by kind_side.

Ltac reorder_c c :=
  rewrite ?(find_map_reorder ckind pick_c_byte_order 0%nat _ _ (command_items_nodup c)) by kind_side;
  rewrite ?(find_map_reorder ckind pick_c_bit_order 1%nat _ _ (command_items_nodup c)) by kind_side;
  rewrite ?(find_map_reorder ckind pick_c_address 2%nat _ _ (command_items_nodup c)) by kind_side;
  rewrite ?(find_map_reorder ckind pick_c_size_in 3%nat _ _ (command_items_nodup c)) by kind_side;
  rewrite ?(find_map_reorder ckind pick_c_size_out 4%nat _ _ (command_items_nodup c)) by kind_side;
  rewrite ?(find_map_reorder ckind pick_c_repeat 5%nat _ _ (command_items_nodup c)) by kind_side;
  rewrite ?(find_map_reorder ckind pick_c_allow_bit 6%nat _ _ (command_items_nodup c)) by kind_side;
  rewrite ?(find_map_reorder ckind pick_c_allow_addr 7%nat _ _ (command_items_nodup c)) by kind_side.

Lemma in_u64_i128 : forall z, in_u64 z = true -> in_i128 z = true.
Proof.
  intros z H. unfold in_u64, in_i128 in *. apply andb_prop in H. destruct H as [H1 H2].
  apply Z.leb_le in H1. apply Z.ltb_lt in H2. apply andb_true_intro. split; [apply Z.leb_le|apply Z.ltb_lt]; lia.
Qed.

Lemma reset_pick_ok : forall r, opt_ok reset_ok r = true -> transpose (option_map reset_pick r) = ROk r.
Proof.
  intros [[z|l]|] H; cbn in *; try reflexivity.
  unfold dsl_reset_int. rewrite (in_u64_i128 _ H). cbn.
  unfold in_u64 in H. apply andb_prop in H. destruct H as [H1 H2]. apply Z.leb_le in H1. apply Z.ltb_lt in H2.
  rewrite Z.mod_small; [reflexivity|]. split; [assumption|]. eapply Z.lt_trans; [eassumption|reflexivity].
Qed.

(* ---- register ---- *)

Lemma dsl_register_spec : forall g h r,
  register_ok r = true ->
  class_of (dsl_register g (attrs_of h) (h_name h) (reorder (ar_order r) (register_items r))
                         (map field_to_dsl (ar_fields r)))
  = class_of (spec_register g h r).
Proof.
  intros g h r Hok.
  unfold register_ok in Hok. repeat (apply andb_prop in Hok; destruct Hok as [Hok ?]).
  unfold dsl_register. rewrite get_cfg_head. cbn [rbind].
  reorder_r r.
  destruct (register_picks r) as (P1 & P2 & P3 & P4 & P5 & P6 & P7 & P8 & P9).
  rewrite P1, P2, P3, P4, P5, P6, P7, P8, P9.
  unfold spec_register.
  destruct (ar_address r) as [a|]; [|reflexivity].
  cbn in Hok. rewrite (parse_lit_ok _ _ Hok). cbn [rbind].
  destruct (ar_size_bits r) as [s|]; [|reflexivity].
  match goal with H : opt_ok in_u32 (Some s) = true |- _ => cbn in H; rewrite (parse_lit_ok _ _ H) end. cbn [rbind].
  rewrite reset_pick_ok by assumption. cbn [rbind].
  rewrite dsl_opt_repeat_ok by assumption. cbn [rbind].
  rewrite dsl_fields_ok by assumption. reflexivity.
Qed.

(* ---- command ---- *)

Lemma dsl_command_ext_spec : forall g h c,
  command_ok c = true ->
  class_of (dsl_command g (attrs_of h) (h_name h)
              (Some (CVExtended (reorder (ak_order c) (command_items c))
                                (option_map (map field_to_dsl) (ak_fields_in c))
                                (option_map (map field_to_dsl) (ak_fields_out c)))))
  = class_of (spec_command g h c).
Proof.
  intros g h c Hok.
  unfold command_ok in Hok. repeat (apply andb_prop in Hok; destruct Hok as [Hok ?]).
  unfold dsl_command. rewrite get_cfg_head. cbn [rbind cv_items].
  reorder_c c.
  destruct (command_picks c) as (P1 & P2 & P3 & P4 & P5 & P6 & P7 & P8).
  rewrite P1, P2, P3, P4, P5, P6, P7, P8.
  unfold spec_command.
  destruct (ak_address c) as [a|]; [|reflexivity].
  cbn in Hok. rewrite (parse_lit_ok _ _ Hok). cbn [rbind].
  assert (Hin : match ak_size_in c with Some z => parse_lit in_u32 z | None => ROk 0 end = ROk (or_default (ak_size_in c) 0)).
  { destruct (ak_size_in c) as [z|]; [|reflexivity].
    match goal with H : opt_ok in_u32 (Some z) = true |- _ => cbn in H; rewrite (parse_lit_ok _ _ H) end. reflexivity. }
  assert (Hout : match ak_size_out c with Some z => parse_lit in_u32 z | None => ROk 0 end = ROk (or_default (ak_size_out c) 0)).
  { destruct (ak_size_out c) as [z|]; [|reflexivity].
    match goal with H : opt_ok in_u32 (Some z) = true |- _ => cbn in H; rewrite (parse_lit_ok _ _ H) end. reflexivity. }
  rewrite Hin, Hout. cbn [rbind].
  rewrite dsl_opt_repeat_ok by assumption. cbn [rbind].
  destruct (ak_fields_in c) as [fi|]; cbn [option_map or_default].
  - match goal with H : opt_ok fields_ok (Some fi) = true |- _ => cbn in H; rewrite (dsl_fields_ok g fi H) end.
    cbn [rbind].
    destruct (ak_fields_out c) as [fo|]; cbn [option_map or_default].
    + match goal with H : opt_ok fields_ok (Some fo) = true |- _ => cbn in H; rewrite (dsl_fields_ok g fo H) end.
      reflexivity.
    + reflexivity.
  - cbn [rbind].
    destruct (ak_fields_out c) as [fo|]; cbn [option_map or_default].
    + match goal with H : opt_ok fields_ok (Some fo) = true |- _ => cbn in H; rewrite (dsl_fields_ok g fo H) end.
      reflexivity.
    + reflexivity.
Qed.

Lemma dsl_command_spec : forall g h c,
  command_ok c = true ->
  class_of (dsl_command g (attrs_of h) (h_name h) (command_to_dsl false c)) = class_of (spec_command g h c).
Proof.
  intros g h c Hok. unfold command_to_dsl. cbn [orb].
  destruct (negb (command_plain c)) eqn:Ep; [apply dsl_command_ext_spec; assumption|].
  apply negb_false_iff in Ep.
  destruct (ak_address c) as [a|] eqn:Ea.
  - destruct (ak_basic c); [|apply dsl_command_ext_spec; assumption].
    (* `command X = a` *)
    unfold command_ok in Hok. repeat (apply andb_prop in Hok; destruct Hok as [Hok ?]).
    rewrite Ea in Hok. cbn in Hok.
    unfold dsl_command. rewrite get_cfg_head. cbn [rbind cv_items find_map].
    rewrite (parse_lit_ok _ _ Hok). cbn [rbind transpose option_map rmap].
    unfold spec_command. rewrite Ea.
    destruct c as [a1 a2 a3 a4 a5 a6 a7 a8 fi fo ord ba br]. unfold command_plain in Ep. cbn in *.
    destruct a1, a2, a4, a5, a6, a7, a8, fi, fo; try discriminate. reflexivity.
  - destruct (ak_bare c); [|apply dsl_command_ext_spec; assumption].
    (* `command X` *)
    unfold dsl_command, spec_command. rewrite Ea. reflexivity.
Qed.

(* ---- buffer ---- *)

Lemma dsl_buffer_spec : forall g h b,
  opt_ok in_i64 (ab_address b) = true ->
  class_of (dsl_buffer g (attrs_of h) (h_name h) (ab_access b) (ab_address b)) = class_of (spec_buffer g h b).
Proof.
  intros g h [acc [a|]] H; unfold dsl_buffer, spec_buffer; rewrite get_cfg_head; cbn [rbind ab_address ab_access].
  - cbn in H. rewrite (parse_lit_ok _ _ H). reflexivity.
  - reflexivity.
Qed.

(* ---- ref overrides ---- *)

Definition dsl_ov (name : string) (obj : hobject) : result override :=
  match obj with
  | HBlock a n items objs => dsl_block_override a n items objs
  | HRegister a n items fields => dsl_register_override a n items fields
  | HCommand a n v => dsl_command_override a n v
  | HBuffer _ _ _ _ => RErr (mk_err "dsl_ref_buffer" [name])
  | HRef _ _ _ => RErr (mk_err "dsl_ref_ref" [name])
  end.

Lemma dsl_object_ref : forall g attrs name obj,
  dsl_object g (HRef attrs name obj) =
  rbind (get_cfg_attr attrs) (fun c => rbind (dsl_ov name obj) (fun ov => ROk (ORef c name ov))).
Proof. intros. destruct obj; reflexivity. Qed.

Lemma no_attrs_head : forall h, no_attrs (attrs_of h) = head_plain h.
Proof. intros [[c|] [|] n]; reflexivity. Qed.

Lemma r_forbidden_class : forall l e, find_map r_item_forbidden l = Some e -> err_class e = ov_forbidden.
Proof.
  induction l as [|i t IH]; cbn; intros e H; [discriminate|].
  destruct i; cbn in H; try (inversion H; subst; reflexivity); apply IH; assumption.
Qed.

Lemma c_forbidden_class : forall l e, find_map c_item_forbidden l = Some e -> err_class e = ov_forbidden.
Proof.
  induction l as [|i t IH]; cbn; intros e H; [discriminate|].
  destruct i; cbn in H; try (inversion H; subst; reflexivity); apply IH; assumption.
Qed.

Lemma r_forbidden_canon : forall r,
  is_none (find_map r_item_forbidden (register_items r)) =
  is_none (ar_byte_order r) && is_none (ar_bit_order r) && is_none (ar_size_bits r) && is_none (ar_allow_bit_overlap r).
Proof.
  intros [a b c d e f g h i fs ord]. unfold register_items.
  cbn [ar_access ar_byte_order ar_bit_order ar_address ar_size_bits ar_reset ar_repeat ar_allow_bit_overlap
       ar_allow_address_overlap].
  destruct a, b, c, d, e, f as [[?|?]|], g, h, i; reflexivity.
Qed.

Lemma c_forbidden_canon : forall c,
  is_none (find_map c_item_forbidden (command_items c)) =
  is_none (ak_byte_order c) && is_none (ak_bit_order c) && is_none (ak_allow_bit_overlap c) && is_none (ak_size_in c)
  && is_none (ak_size_out c).
Proof.
  intros [a b c d e f g h fi fo ord ba br]. unfold command_items.
  cbn [ak_byte_order ak_bit_order ak_address ak_size_in ak_size_out ak_repeat ak_allow_bit_overlap
       ak_allow_address_overlap].
  destruct a, b, c, d, e, f, g, h; reflexivity.
Qed.

Lemma is_none_find_map_reorder : forall {A B} (p : A -> option B) keys l,
  is_none (find_map p (reorder keys l)) = is_none (find_map p l).
Proof.
  intros. destruct (find_map p l) eqn:E.
  - destruct (find_map p (reorder keys l)) eqn:E'; [reflexivity|].
    apply (find_map_perm_none p _ l (Permutation_sym (reorder_perm keys l))) in E'. congruence.
  - rewrite (find_map_perm_none p l _ (reorder_perm keys l) E). reflexivity.
Qed.

Lemma map_nil_iff : forall {A B} (f : A -> B) l,
  match map f l with [] => true | _ => false end = match l with [] => true | _ => false end.
Proof. intros A B f [|a t]; reflexivity. Qed.

Lemma dsl_ov_spec : forall name ov,
  object_ok ov = true -> class_of (dsl_ov name (obj_to_dsl true ov)) = class_of (spec_override ov).
Proof.
  intros name [h off rep order objs|h r|h c|h b|h ov'] Hok; cbn [obj_to_dsl dsl_ov spec_override]; try reflexivity.
  - (* block *)
    cbn [object_ok] in Hok. apply andb_prop in Hok. destruct Hok as [Hok _]. apply andb_prop in Hok. destruct Hok as [Ho Hr].
    unfold dsl_block_override. rewrite no_attrs_head.
    destruct (head_plain h); cbn [negb andb]; [|reflexivity].
    destruct objs as [|o t]; cbn [map]; [|reflexivity].
    rewrite (find_map_reorder bkind pick_b_offset 0%nat _ _ (block_items_nodup off rep)) by kind_side.
    rewrite (find_map_reorder bkind pick_b_repeat 1%nat _ _ (block_items_nodup off rep)) by kind_side.
    assert (P1 : find_map pick_b_offset (block_items off rep) = off) by (destruct off, rep; reflexivity).
    assert (P2 : find_map pick_b_repeat (block_items off rep) = rep) by (destruct off, rep; reflexivity).
    rewrite P1, P2, dsl_opt_i64_ok by assumption. cbn [rbind].
    rewrite dsl_opt_repeat_ok by assumption. reflexivity.
  - (* register *)
    cbn [object_ok] in Hok. unfold register_ok in Hok. repeat (apply andb_prop in Hok; destruct Hok as [Hok ?]).
    unfold dsl_register_override. rewrite no_attrs_head.
    destruct (head_plain h); cbn [negb andb]; [|reflexivity].
    pose proof (map_nil_iff field_to_dsl (ar_fields r)) as Hm.
    destruct (map field_to_dsl (ar_fields r)) as [|f0 ft]; destruct (ar_fields r) as [|g0 gt]; try discriminate;
      [rewrite andb_true_r|rewrite andb_false_r; reflexivity].
    pose proof (is_none_find_map_reorder r_item_forbidden (ar_order r) (register_items r)) as Hf.
    rewrite r_forbidden_canon in Hf.
    destruct (find_map r_item_forbidden (reorder (ar_order r) (register_items r))) as [e|] eqn:Ee.
    + cbn [is_none] in Hf. rewrite <- Hf. cbn [class_of]. rewrite (r_forbidden_class _ _ Ee). reflexivity.
    + cbn [is_none] in Hf. rewrite <- Hf.
      reorder_r r.
      destruct (register_picks r) as (P1 & P2 & P3 & P4 & P5 & P6 & P7 & P8 & P9).
      rewrite P1, P4, P6, P7, P9.
      rewrite dsl_opt_i64_ok by assumption. cbn [rbind].
      rewrite reset_pick_ok by assumption. cbn [rbind].
      rewrite dsl_opt_repeat_ok by assumption. reflexivity.
  - (* command *)
    cbn [object_ok] in Hok. unfold command_ok in Hok. repeat (apply andb_prop in Hok; destruct Hok as [Hok ?]).
    unfold dsl_command_override, command_to_dsl. cbn [orb]. rewrite no_attrs_head.
    destruct (head_plain h); cbn [negb andb]; [|reflexivity].
    destruct (ak_fields_in c) as [fi|]; cbn [option_map is_none];
      [rewrite andb_false_r; reflexivity|rewrite andb_true_r].
    destruct (ak_fields_out c) as [fo|]; cbn [option_map is_none];
      [rewrite andb_false_r; reflexivity|rewrite andb_true_r].
    pose proof (is_none_find_map_reorder c_item_forbidden (ak_order c) (command_items c)) as Hf.
    rewrite c_forbidden_canon in Hf.
    destruct (find_map c_item_forbidden (reorder (ak_order c) (command_items c))) as [e|] eqn:Ee.
    + cbn [is_none] in Hf. rewrite <- Hf. cbn [class_of]. rewrite (c_forbidden_class _ _ Ee). reflexivity.
    + cbn [is_none] in Hf. rewrite <- Hf.
      reorder_c c.
      destruct (command_picks c) as (P1 & P2 & P3 & P4 & P5 & P6 & P7 & P8).
      rewrite P3, P6, P8.
      rewrite dsl_opt_i64_ok by assumption. cbn [rbind].
      rewrite dsl_opt_repeat_ok by assumption. reflexivity.
Qed.

(* ---- induction over the nested object tree ---- *)

Section AobjectInd.
  Variable P : aobject -> Prop.
  Hypothesis Hblock : forall h off rep order objs, Forall P objs -> P (ABlock h off rep order objs).
  Hypothesis Hreg : forall h r, P (ARegister h r).
  Hypothesis Hcmd : forall h c, P (ACommand h c).
  Hypothesis Hbuf : forall h b, P (ABuffer h b).
  Hypothesis Href : forall h ov, P ov -> P (ARef h ov).

  Fixpoint aobject_ind' (o : aobject) : P o :=
    match o with
    | ABlock h off rep order objs =>
        Hblock h off rep order objs
          ((fix go (l : list aobject) : Forall P l :=
              match l with
              | [] => Forall_nil P
              | x :: t => Forall_cons x (aobject_ind' x) (go t)
              end) objs)
    | ARegister h r => Hreg h r
    | ACommand h c => Hcmd h c
    | ABuffer h b => Hbuf h b
    | ARef h ov => Href h ov (aobject_ind' ov)
    end.
End AobjectInd.

Lemma class_rmap : forall {A B} (f : A -> B) (x y : result A),
  class_of x = class_of y -> class_of (rmap f x) = class_of (rmap f y).
Proof. intros A B f [a|e] [b|e'] H; cbn in *; try discriminate; inversion H; reflexivity. Qed.

Lemma dsl_object_spec : forall g o,
  object_ok o = true -> class_of (dsl_object g (obj_to_dsl false o)) = class_of (spec_object g o).
Proof.
  intros g. induction o as [h off rep order objs IH|h r|h c|h b|h ov _] using aobject_ind'; intros Hok.
  - cbn [object_ok] in Hok. apply andb_prop in Hok. destruct Hok as [Hok Hobjs].
    apply andb_prop in Hok. destruct Hok as [Ho Hr].
    cbn [obj_to_dsl dsl_object spec_object].
    rewrite get_cfg_head. cbn [rbind].
    rewrite (find_map_reorder bkind pick_b_offset 0%nat _ _ (block_items_nodup off rep)) by kind_side.
    rewrite (find_map_reorder bkind pick_b_repeat 1%nat _ _ (block_items_nodup off rep)) by kind_side.
    assert (P1 : find_map pick_b_offset (block_items off rep) = off) by (destruct off, rep; reflexivity).
    assert (P2 : find_map pick_b_repeat (block_items off rep) = rep) by (destruct off, rep; reflexivity).
    rewrite P1, P2.
    assert (Hoff : match off with Some z => parse_lit in_i64 z | None => ROk 0 end = ROk (or_default off 0)).
    { destruct off as [z|]; [cbn in Ho; rewrite (parse_lit_ok _ _ Ho)|]; reflexivity. }
    rewrite Hoff. cbn [rbind]. rewrite dsl_opt_repeat_ok by assumption. cbn [rbind].
    apply class_rbind; [|reflexivity].
    rewrite mapR_map. apply class_mapR.
    rewrite Forall_forall in *. intros x Hx. apply IH; [assumption|].
    rewrite forallb_forall in Hobjs. apply Hobjs; assumption.
  - cbn [obj_to_dsl dsl_object spec_object]. apply class_rmap. apply dsl_register_spec. exact Hok.
  - cbn [obj_to_dsl dsl_object spec_object]. apply class_rmap. apply dsl_command_spec. exact Hok.
  - cbn [obj_to_dsl dsl_object spec_object]. apply class_rmap. apply dsl_buffer_spec. exact Hok.
  - cbn [obj_to_dsl spec_object]. rewrite dsl_object_ref, get_cfg_head. cbn [rbind].
    apply class_rbind; [|reflexivity]. apply dsl_ov_spec. exact Hok.
Qed.

(* ---- global config (DSL) ---- *)

Lemma config_counts : forall lf c k, Nat.ltb 1 (count_kind k (config_to_dsl lf c)) = false.
Proof.
  intros lf [a1 a2 a3 a4 a5 a6 a7 a8 a9 a10] k. unfold config_to_dsl.
  cbn [ac_default_register_access ac_default_field_access ac_default_buffer_access ac_default_byte_order
       ac_default_bit_order ac_register_address_type ac_command_address_type ac_buffer_address_type
       ac_name_word_boundaries ac_defmt_feature].
  destruct a1, a2, a3, a4, a5, a6, a7, a8, a9, a10;
    do 11 (destruct k as [|k]; [reflexivity|]); reflexivity.
Qed.

Lemma seg_cfg : forall {A} all (ctor : A -> hconfig_item) (set : A -> config -> config) x g,
  (forall v g', dsl_config_step all (ctor v) g' = ROk (set v g')) ->
  foldM (dsl_config_step all) (opt_item ctor x) g = ROk (match x with Some v => set v g | None => g end).
Proof. intros A all ctor set [v|] g H; cbn; [rewrite H|]; reflexivity. Qed.

Lemma integer_of_show : forall i, integer_of_name (show_integer i) = Some i.
Proof. destruct i; reflexivity. Qed.

Lemma dsl_config_gen : forall lf c all,
  (forall k, Nat.ltb 1 (count_kind k all) = false) ->
  foldM (dsl_config_step all) (config_to_dsl lf c) default_config = ROk (spec_config lf c).
Proof.
  intros lf c all H. unfold config_to_dsl.
  assert (St : forall (i : hconfig_item) g r,
             match i with
             | GCDefaultRegisterAccess a => ROk (set_g_dra a g)
             | GCDefaultFieldAccess a => ROk (set_g_dfa a g)
             | GCDefaultBufferAccess a => ROk (set_g_dba a g)
             | GCDefaultByteOrder b => ROk (set_g_byo (Some b) g)
             | GCDefaultBitOrder b => ROk (set_g_bio b g)
             | GCRegisterAddressType s => i <-- dsl_integer s ;; ROk (set_g_rat (Some i) g)
             | GCCommandAddressType s => i <-- dsl_integer s ;; ROk (set_g_cat (Some i) g)
             | GCBufferAddressType s => i <-- dsl_integer s ;; ROk (set_g_bat (Some i) g)
             | GCNameWordBoundaries l => ROk (set_g_nwb l g)
             | GCDefmtFeature s => ROk (set_g_defmt (Some s) g)
             end = r -> dsl_config_step all i g = r).
  { intros i g r Hr. unfold dsl_config_step. rewrite H. exact Hr. }
  rewrite foldM_app, (seg_cfg all GCDefaultRegisterAccess set_g_dra) by (intros; apply St; reflexivity). cbn [rbind].
  rewrite foldM_app, (seg_cfg all GCDefaultFieldAccess set_g_dfa) by (intros; apply St; reflexivity). cbn [rbind].
  rewrite foldM_app, (seg_cfg all GCDefaultBufferAccess set_g_dba) by (intros; apply St; reflexivity). cbn [rbind].
  rewrite foldM_app, (seg_cfg all GCDefaultByteOrder (fun b => set_g_byo (Some b))) by (intros; apply St; reflexivity).
  cbn [rbind].
  rewrite foldM_app, (seg_cfg all GCDefaultBitOrder set_g_bio) by (intros; apply St; reflexivity). cbn [rbind].
  rewrite foldM_app, (seg_cfg all (fun i => GCRegisterAddressType (show_integer i)) (fun i => set_g_rat (Some i)))
    by (intros; apply St; unfold dsl_integer; rewrite integer_of_show; reflexivity). cbn [rbind].
  rewrite foldM_app, (seg_cfg all (fun i => GCCommandAddressType (show_integer i)) (fun i => set_g_cat (Some i)))
    by (intros; apply St; unfold dsl_integer; rewrite integer_of_show; reflexivity). cbn [rbind].
  rewrite foldM_app, (seg_cfg all (fun i => GCBufferAddressType (show_integer i)) (fun i => set_g_bat (Some i)))
    by (intros; apply St; unfold dsl_integer; rewrite integer_of_show; reflexivity). cbn [rbind].
  rewrite foldM_app,
    (seg_cfg all (fun n => GCNameWordBoundaries (match n with NwbArray l => l | NwbString s => lf s end))
             (fun n => set_g_nwb (match n with NwbArray l => l | NwbString s => lf s end)))
    by (intros; apply St; reflexivity). cbn [rbind].
  rewrite (seg_cfg all GCDefmtFeature (fun s => set_g_defmt (Some s))) by (intros; apply St; reflexivity).
  f_equal. unfold spec_config.
  destruct c as [a1 a2 a3 a4 a5 a6 a7 a8 a9 a10].
  cbn [ac_default_register_access ac_default_field_access ac_default_buffer_access ac_default_byte_order
       ac_default_bit_order ac_register_address_type ac_command_address_type ac_buffer_address_type
       ac_name_word_boundaries ac_defmt_feature].
  destruct a1, a2, a3, a4, a5, a6, a7, a8, a9 as [[?|?]|], a10; reflexivity.
Qed.

Lemma dsl_config_spec : forall lf c, dsl_config (config_to_dsl lf c) = ROk (spec_config lf c).
Proof. intros lf c. unfold dsl_config. apply dsl_config_gen. apply config_counts. Qed.

Theorem dsl_half : forall lf d,
  forallb object_ok (a_objects d) = true ->
  class_of (lower_dsl (to_dsl lf d)) = class_of (spec_device lf d).
Proof.
  intros lf d Hok. unfold lower_dsl, to_dsl, spec_device. cbn [hd_configs hd_objects].
  rewrite dsl_config_spec. cbn [rbind].
  apply class_rbind; [|reflexivity].
  rewrite <- mapR_mapM, mapR_map. apply class_mapR.
  rewrite Forall_forall. intros o Ho. apply dsl_object_spec.
  rewrite forallb_forall in Hok. apply Hok; assumption.
Qed.

