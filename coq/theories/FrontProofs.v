(* FrontProofs.v — proofs about Front.v (C16). *)
From Coq Require Import ZArith List Bool String Lia Permutation.
From DD Require Import Common Mir GenErr Front.
Import ListNotations.
Open Scope string_scope.
Open Scope Z_scope.
