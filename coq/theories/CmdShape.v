(* CmdShape.v — which field-set types the generator hands to CommandOperation, and hence which of the four
   dispatch bodies of command.rs a generated command accessor runs (property C09, generator clause).

   Transcribed from
     generation/src/mir/lir_transform.rs        get_method, arms Object::Command and Object::Ref/Command
     generation/src/lir/token_transform/block_transform.rs   generate_method (None => `()`)
     device-driver/src/command.rs               the four impl blocks selected by `()` / a FieldSet type
   Definitions only; proofs are in CmdShapeProofs.v. *)
From Coq Require Import ZArith List Bool String.
From DD Require Import Common Mir Case Reset.
From DD Require Proto.
Import ListNotations.
Open Scope string_scope.
Open Scope Z_scope.

Definition is_nil {A : Type} (l : list A) : bool := match l with [] => true | _ :: _ => false end.

Record cmd_shape := {
  sh_method : string;             (* accessor name *)
  sh_fs_in : option string;       (* None = `()` *)
  sh_fs_out : option string;
  sh_tx_in : Z;                   (* <InFieldSet as FieldSet>::SIZE_BITS, 0 for `()` *)
  sh_tx_out : Z }.

(* in_fields.is_empty().not().then(|| format_ident!("{name}FieldsIn")); the field set `{name}FieldsIn`
   is generated with size_bits = size_bits_in (lir_transform.rs transform_field_sets) *)
Definition shape_of (method_name : string) (c : command) : cmd_shape :=
  {| sh_method := to_snake_default method_name;
     sh_fs_in := if is_nil (cm_in_fields c) then None else Some (cm_name c ++ "FieldsIn");
     sh_fs_out := if is_nil (cm_out_fields c) then None else Some (cm_name c ++ "FieldsOut");
     sh_tx_in := if is_nil (cm_in_fields c) then 0 else cm_size_in c;
     sh_tx_out := if is_nil (cm_out_fields c) then 0 else cm_size_out c |}.

(* a command; or a ref to a command: the TARGET's field sets under the ref's method name *)
Definition shape_of_object (all : list object) (o : object) : option cmd_shape :=
  match o with
  | OCommand c => Some (shape_of (cm_name c) c)
  | ORef _ n (OvCommand target _ _ _) =>
    match search_object target all with
    | Some (OCommand c) => Some (shape_of n c)
    | _ => None
    end
  | _ => None
  end.

Definition command_shapes (d : device) : list cmd_shape :=
  flat_map (fun o => match shape_of_object (d_objects d) o with Some s => [s] | None => [] end)
           (preorder_objects (d_objects d)).

Definition show_opt (o : option string) : string := match o with Some s => s | None => "()" end.

Definition show_shape (s : cmd_shape) : string :=
  sh_method s ++ ":" ++ show_opt (sh_fs_in s) ++ ":" ++ show_opt (sh_fs_out s) ++ ":" ++ show_Z (sh_tx_in s) ++ ":" ++ show_Z (sh_tx_out s).

Definition command_shapes_result (d : device) : string := String.concat ";" (map show_shape (command_shapes d)).

(* The interface calls made by `accessor.dispatch(..)` of a generated command accessor: the impl block of
   command.rs is selected by the two type parameters. *)
Definition generated_dispatch_calls (orc : Proto.oracle) (h : list Proto.event) (a : Z) (c : command) (f : Proto.cmd_closure)
  : list Proto.event :=
  match is_nil (cm_in_fields c), is_nil (cm_out_fields c) with
  | true, true => fst (Proto.run orc (Proto.cmd_dispatch_none a) h)
  | false, true => fst (Proto.run orc (Proto.cmd_dispatch_in a (cm_size_in c) f) h)
  | true, false => fst (Proto.run orc (Proto.cmd_dispatch_out a (cm_size_out c)) h)
  | false, false => fst (Proto.run orc (Proto.cmd_dispatch_inout a (cm_size_in c) (cm_size_out c) f) h)
  end.
