(* Mir.v — the generator's MIR (generation/src/mir/mod.rs) as Coq data, plus generic
   traversals and the string printers used by the correspondence check.
   The check obtains a value of [device] by parsing the Debug output of the REAL front end
   (`_private_transform_*_mir`), so pass models run on exactly what the code's passes see. *)
From Coq Require Import ZArith List Bool String Ascii DecimalString.
From DD Require Import Common.
Import ListNotations.
Open Scope Z_scope.

Inductive access := RW | RO | WO.
Inductive base_type := BBool | BUint | BInt.
Inductive integer := IU8 | IU16 | IU32 | II8 | II16 | II32 | II64.
Inductive byte_ord := BoLE | BoBE.
Inductive bit_ord := BiLSB0 | BiMSB0.

Definition cfg := option string.

Inductive enum_value := EVUnspec | EVSpec (z : Z) | EVDefault | EVCatchAll.

Record variant := { v_cfg : cfg; v_name : string; v_value : enum_value }.

Inductive gen_style := GFallible | GInfallible (bit_size : Z).

Record enum_def := { e_cfg : cfg; e_name : string; e_variants : list variant; e_style : option gen_style }.

Inductive conversion :=
| ConvDirect (type_name : string) (use_try : bool)
| ConvEnum (e : enum_def) (use_try : bool).

Record field := {
  f_cfg : cfg; f_name : string; f_access : access; f_base : base_type;
  f_conv : option conversion; f_start : Z; f_end : Z }.

Record repeat := { r_count : Z; r_stride : Z }.

Inductive reset_value := RInt (z : Z) | RArr (l : list Z).

Record register := {
  rg_cfg : cfg; rg_name : string; rg_access : access; rg_byte_order : option byte_ord;
  rg_bit_order : bit_ord; rg_allow_bit_overlap : bool; rg_allow_address_overlap : bool;
  rg_address : Z; rg_size_bits : Z; rg_reset : option reset_value; rg_repeat : option repeat;
  rg_fields : list field }.

Record command := {
  cm_cfg : cfg; cm_name : string; cm_address : Z; cm_byte_order : option byte_ord;
  cm_bit_order : bit_ord; cm_allow_bit_overlap : bool; cm_allow_address_overlap : bool;
  cm_size_in : Z; cm_size_out : Z; cm_repeat : option repeat;
  cm_in_fields : list field; cm_out_fields : list field }.

Record buffer := { bf_cfg : cfg; bf_name : string; bf_access : access; bf_address : Z }.

Inductive override :=
| OvBlock (target : string) (address_offset : option Z) (rep : option repeat)
| OvRegister (target : string) (acc : option access) (address : option Z) (allow_address_overlap : bool)
             (reset : option reset_value) (rep : option repeat)
| OvCommand (target : string) (address : option Z) (allow_address_overlap : bool) (rep : option repeat).

Inductive object :=
| OBlock (c : cfg) (name : string) (address_offset : Z) (rep : option repeat) (objs : list object)
| ORegister (r : register)
| OCommand (c : command)
| OBuffer (b : buffer)
| ORef (c : cfg) (name : string) (ov : override).

Record config := {
  g_default_register_access : access; g_default_field_access : access; g_default_buffer_access : access;
  g_default_byte_order : option byte_ord; g_default_bit_order : bit_ord;
  g_register_address_type : option integer; g_command_address_type : option integer;
  g_buffer_address_type : option integer;
  g_boundaries : list string;   (* Debug names of convert_case::Boundary *)
  g_defmt_feature : option string }.

Record device := { d_config : config; d_objects : list object }.

(* ---- accessors mirroring mir::Object's helper methods ---- *)

Definition override_target (ov : override) : string :=
  match ov with OvBlock t _ _ => t | OvRegister t _ _ _ _ _ => t | OvCommand t _ _ _ => t end.

Definition object_name (o : object) : string :=
  match o with
  | OBlock _ n _ _ _ => n | ORegister r => rg_name r | OCommand c => cm_name c
  | OBuffer b => bf_name b | ORef _ n _ => n
  end.

Definition object_cfg (o : object) : cfg :=
  match o with
  | OBlock c _ _ _ _ => c | ORegister r => rg_cfg r | OCommand c => cm_cfg c
  | OBuffer b => bf_cfg b | ORef c _ _ => c
  end.

(* Object::address() *)
Definition object_address (o : object) : option Z :=
  match o with
  | OBlock _ _ off _ _ => Some off
  | ORegister r => Some (rg_address r)
  | OCommand c => Some (cm_address c)
  | OBuffer b => Some (bf_address b)
  | ORef _ _ (OvBlock _ a _) => a
  | ORef _ _ (OvRegister _ _ a _ _ _) => a
  | ORef _ _ (OvCommand _ a _ _) => a
  end.

(* Object::repeat() *)
Definition object_repeat (o : object) : option repeat :=
  match o with
  | OBlock _ _ _ r _ => r
  | ORegister r => rg_repeat r
  | OCommand c => cm_repeat c
  | OBuffer _ => None
  | ORef _ _ (OvBlock _ _ r) => r
  | ORef _ _ (OvRegister _ _ _ _ _ r) => r
  | ORef _ _ (OvCommand _ _ _ r) => r
  end.

(* Object::field_sets() *)
Definition object_field_sets (o : object) : list (list field) :=
  match o with
  | ORegister r => [rg_fields r]
  | OCommand c => [cm_in_fields c; cm_out_fields c]
  | _ => []
  end.

(* recurse_objects_with_depth: pre-order list of (object, depth) *)
Fixpoint flatten_depth (d : nat) (o : object) : list (object * nat) :=
  (o, d) :: match o with
            | OBlock _ _ _ _ objs => flat_map (flatten_depth (S d)) objs
            | _ => []
            end.

Definition preorder (objs : list object) : list (object * nat) := flat_map (flatten_depth 0) objs.
Definition preorder_objects (objs : list object) : list object := map fst (preorder objs).

(* tree size, used as fuel *)
Fixpoint object_size (o : object) : nat :=
  S match o with
    | OBlock _ _ _ _ objs => fold_right (fun o acc => object_size o + acc)%nat O objs
    | _ => O
    end.

(* ---- integer types ---- *)

Definition integer_ity (i : integer) : ity :=
  match i with
  | IU8 => {| signed := false; bits := 8 |} | IU16 => {| signed := false; bits := 16 |}
  | IU32 => {| signed := false; bits := 32 |}
  | II8 => {| signed := true; bits := 8 |} | II16 => {| signed := true; bits := 16 |}
  | II32 => {| signed := true; bits := 32 |} | II64 => {| signed := true; bits := 64 |}
  end.

Definition integer_min (i : integer) : Z := ity_min (integer_ity i).
Definition integer_max (i : integer) : Z := ity_max (integer_ity i).

(* ---- printers (canonical result strings for the correspondence check) ---- *)

Open Scope string_scope.

Definition show_Z (z : Z) : string := NilZero.string_of_int (Z.to_int z).
Definition show_bool (b : bool) : string := if b then "true" else "false".
Definition show_access (a : access) : string := match a with RW => "RW" | RO => "RO" | WO => "WO" end.
Definition show_integer (i : integer) : string :=
  match i with IU8 => "u8" | IU16 => "u16" | IU32 => "u32" | II8 => "i8" | II16 => "i16" | II32 => "i32" | II64 => "i64" end.
Definition show_list {A} (f : A -> string) (l : list A) : string := String.concat "," (map f l).
Definition show_option {A} (f : A -> string) (o : option A) : string :=
  match o with Some a => f a | None => "-" end.
