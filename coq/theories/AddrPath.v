(* AddrPath.v — the address arithmetic the generated accessors perform (block_transform.rs
   generate_method) and the mathematical address of property C04.  Definitions only.

   Emitted per method:   let address = self.base_address + ADDR;                       (not repeated)
                         let address = { assert!(index < COUNT);
                                         self.base_address + ADDR (+|-) index as IT * |STRIDE| };
   a block method passes `address` on as the child's base_address; a leaf passes `address as AT`. *)
From Coq Require Import ZArith List Bool String.
From DD Require Import Common Mir GenErr.
Import ListNotations.
Open Scope Z_scope.

(* one accessor call on the way down: the method's literals and the index the caller passes *)
Record level := { l_addr : Z; l_rep : option repeat; l_index : Z }.

(* arithmetic in the internal type IT: a debug build panics on overflow, a release build wraps *)
Inductive build := Debug | Release.

Definition arith (b : build) (it : ity) (z : Z) : outcome Z :=
  if in_range it z then Ok z
  else match b with Debug => Fail Overflow | Release => Ok (wrap it z) end.

Definition level_address (b : build) (it : ity) (base : Z) (l : level) : outcome Z :=
  match l_rep l with
  | None => arith b it (base + l_addr l)
  | Some r =>
    if negb ((0 <=? l_index l) && (l_index l <? r_count r)) then Fail AssertFail      (* assert!(index < COUNT) *)
    else
      do s <- arith b it (base + l_addr l);                                            (* self.base_address + ADDR *)
      let idx := wrap it (l_index l) in                                                (* index as IT : silent wrap *)
      do p <- arith b it (idx * Z.abs (r_stride r));                                   (* .. * |STRIDE| *)
      if r_stride r <? 0 then arith b it (s - p) else arith b it (s + p)
  end.

(* chain of block methods ending in a leaf method; the root block's base_address is 0 *)
Fixpoint gen_addr_from (b : build) (it : ity) (base : Z) (path : list level) : outcome Z :=
  match path with
  | [] => Ok base
  | l :: t => do a <- level_address b it base l; gen_addr_from b it a t
  end.

(* what reaches the interface: `address as AT` *)
Definition gen_addr (b : build) (it at_ : ity) (path : list level) : outcome Z :=
  do a <- gen_addr_from b it 0 path; Ok (wrap at_ a).

(* the property's formula, in the integers *)
Definition level_sem (l : level) : Z :=
  l_addr l + match l_rep l with Some r => l_index l * r_stride r | None => 0 end.
Definition addr_sem (path : list level) : Z := fold_right (fun l acc => level_sem l + acc) 0 path.

Definition index_valid (l : level) : bool :=
  match l_rep l with None => true | Some r => (0 <=? l_index l) && (l_index l <? r_count r) end.

(* read_all_registers item: callback(ADDR + IDX * STRIDE, ..) — evaluated in the register address type,
   WITHOUT self.base_address *)
Definition read_all_reported (addr : Z) (rep : option repeat) (i : Z) : Z :=
  addr + i * match rep with Some r => r_stride r | None => 0 end.
