(* BitsAlgebra.v — algebraic laws of the field operations that follow from the layout theorems
   (C02): a field set is determined by its set-bits; writing back what was read changes nothing;
   the last store into a field wins; stores into disjoint fields commute; a stored value survives
   any sequence of setter calls on disjoint fields. *)
From Coq Require Import ZArith List Bool Lia ZifyBool.
From DD Require Import Common Carrier Bits BitsSpec BitsProofs BitsRoundtrip.
Import ListNotations.
Open Scope Z_scope.
Ltac Zify.zify_post_hook ::= Z.div_mod_to_equations.

(* ---------- extensionality: the bytes are determined by the set-bits ---------- *)

Lemma data_ext bo bito d1 d2 :
  bytes_ok d1 -> bytes_ok d2 -> length d2 = length d1 ->
  (forall k, 0 <= k < 8 * Z.of_nat (length d1) -> setbit bo bito d2 k = setbit bo bito d1 k) ->
  d2 = d1.
Proof.
  intros H1 H2 Hlen Hbits.
  apply (nth_ext d2 d1 0 0); [assumption|].
  intros idx Hidx. rewrite Hlen in Hidx.
  apply byte_eq_of_bits; [apply nth_bytes_ok; assumption|apply nth_bytes_ok; assumption|].
  intros b Hb.
  set (L := Z.of_nat (length d1)) in *.
  destruct (unphys_ok bo bito L (Z.of_nat idx) b ltac:(lia) Hb) as (Hk & Hpb & Hbit).
  set (k := unphys bo bito L (Z.of_nat idx) b) in *.
  specialize (Hbits k Hk). unfold setbit in Hbits.
  rewrite Hlen in Hbits. fold L in Hbits. rewrite Hpb, Hbit, Nat2Z.id in Hbits. exact Hbits.
Qed.

(* ---------- writing back what was read is the identity ---------- *)

Theorem store_loaded_identity ptrw bo bito c data s e x :
  guard ptrw c data s e ->
  load ptrw bo bito c data s e = Some (Ok x) ->
  store ptrw bo bito c x s e data = Some (Ok data).
Proof.
  intros G Hl. pose proof G as (Hp & Hc & Hd & Hs & Hse & He & Hw).
  rewrite load_layout in Hl by assumption. injection Hl as Hx.
  destruct (store_layout ptrw bo bito c x data s e) as (data' & Hst & Hlen & Hok & Hbits); try assumption.
  rewrite Hst. do 2 f_equal.
  apply (data_ext bo bito); try assumption.
  intros k Hk. rewrite Hbits by assumption.
  destruct (Z.leb_spec s k); cbn [andb]; [|reflexivity].
  destruct (Z.ltb_spec k e); [|reflexivity].
  pose proof (mirror_range bito s e k Hs ltac:(lia)) as [Hm _].
  subst x. rewrite wrap_low_bits by lia. rewrite spec_load_bits by lia.
  destruct (Z.ltb_spec (mirror bito s e k - s) (e - s)); [|lia]. cbn [andb].
  unfold field_pos. replace (s + (mirror bito s e k - s)) with (mirror bito s e k) by lia.
  rewrite mirror_invol by (try assumption; lia). reflexivity.
Qed.

(* ---------- the last store into a field wins ---------- *)

Theorem store_store ptrw bo bito c v1 v2 data s e :
  guard ptrw c data s e ->
  exists d1 d2, store ptrw bo bito c v1 s e data = Some (Ok d1) /\
    store ptrw bo bito c v2 s e d1 = Some (Ok d2) /\
    store ptrw bo bito c v2 s e data = Some (Ok d2).
Proof.
  intros (Hp & Hc & Hd & Hs & Hse & He & Hw).
  destruct (store_layout ptrw bo bito c v1 data s e) as (d1 & Hst1 & Hlen1 & Hok1 & Hb1); try assumption.
  destruct (store_layout ptrw bo bito c v2 d1 s e) as (d2 & Hst2 & Hlen2 & Hok2 & Hb2);
    try assumption; try (rewrite Hlen1; assumption).
  destruct (store_layout ptrw bo bito c v2 data s e) as (d3 & Hst3 & Hlen3 & Hok3 & Hb3); try assumption.
  exists d1, d2. repeat split; try assumption.
  rewrite Hst3. do 2 f_equal.
  apply (data_ext bo bito); try assumption; [congruence|].
  rewrite Hlen2, Hlen1. intros k Hk.
  rewrite Hb3 by assumption. rewrite Hb2 by (rewrite Hlen1; assumption).
  destruct ((s <=? k) && (k <? e)) eqn:E; [reflexivity|].
  rewrite Hb1 by assumption. rewrite E. reflexivity.
Qed.

(* ---------- stores into disjoint fields commute ---------- *)

Theorem store_commute ptrw bo bito ca cb va vb data sa ea sb eb :
  guard ptrw ca data sa ea -> guard ptrw cb data sb eb -> ea <= sb \/ eb <= sa ->
  exists dab,
    (exists da, store ptrw bo bito ca va sa ea data = Some (Ok da) /\
                store ptrw bo bito cb vb sb eb da = Some (Ok dab)) /\
    (exists db, store ptrw bo bito cb vb sb eb data = Some (Ok db) /\
                store ptrw bo bito ca va sa ea db = Some (Ok dab)).
Proof.
  intros (Hp & Hca & Hd & Hsa & Hsea & Hea & Hwa) (_ & Hcb & _ & Hsb & Hseb & Heb & Hwb) Hdis.
  destruct (store_layout ptrw bo bito ca va data sa ea) as (da & Hsta & Hlena & Hoka & Hba); try assumption.
  destruct (store_layout ptrw bo bito cb vb da sb eb) as (dab & Hstab & Hlenab & Hokab & Hbab);
    try assumption; try (rewrite Hlena; assumption).
  destruct (store_layout ptrw bo bito cb vb data sb eb) as (db & Hstb & Hlenb & Hokb & Hbb); try assumption.
  destruct (store_layout ptrw bo bito ca va db sa ea) as (dba & Hstba & Hlenba & Hokba & Hbba);
    try assumption; try (rewrite Hlenb; assumption).
  exists dab. split.
  - exists da. split; assumption.
  - exists db. split; [assumption|]. rewrite Hstba. do 2 f_equal.
    apply (data_ext bo bito); try assumption; [congruence|].
    rewrite Hlenab, Hlena. intros k Hk.
    rewrite Hbba by (rewrite Hlenb; assumption). rewrite Hbab by (rewrite Hlena; assumption).
    rewrite Hbb by assumption. rewrite Hba by assumption.
    destruct (Z.leb_spec sa k); destruct (Z.ltb_spec k ea); destruct (Z.leb_spec sb k); destruct (Z.ltb_spec k eb);
      cbn [andb]; try reflexivity; lia.
Qed.

(* ---------- a stored value survives any sequence of setters on disjoint fields ---------- *)

Theorem write_others_read ptrw bo bito c v s e sts data :
  guard ptrw c data s e -> e - s < bits (cty_ity ptrw c) \/ signed (cty_ity ptrw c) = false ->
  Forall (setter_ok ptrw (length data)) sts -> Forall (disjoint_from s e) sts ->
  exists d1 d2, store ptrw bo bito c v s e data = Some (Ok d1) /\
    fold_left (apply_setter ptrw bo bito) sts (Some d1) = Some d2 /\
    load ptrw bo bito c d2 s e = Some (Ok (v mod 2 ^ (e - s))).
Proof.
  intros G Hn Hok Hdis. pose proof G as (Hp & Hc & Hd & Hs & Hse & He & Hw).
  assert (Hrt : exists d1, store ptrw bo bito c v s e data = Some (Ok d1) /\
                 load ptrw bo bito c d1 s e = Some (Ok (v mod 2 ^ (e - s)))).
  { destruct Hn as [Hn|Hn]; [apply roundtrip_signed_narrow|apply roundtrip_unsigned]; assumption. }
  destruct Hrt as (d1 & Hst & Hld).
  destruct (store_isolation ptrw bo bito c v data s e G) as (d1' & Hst' & Hlen1 & Hok1 & _).
  rewrite Hst in Hst'. injection Hst' as <-.
  assert (G1 : guard ptrw c d1 s e) by (repeat split; try assumption; rewrite Hlen1; assumption).
  destruct (setter_sequence_preserves ptrw bo bito c s e sts d1 G1) as (d2 & Hf & _ & _ & Hload);
    [rewrite Hlen1; assumption|assumption|].
  exists d1, d2. repeat split; try assumption. rewrite Hload. exact Hld.
Qed.
