From Coq Require Import ZArith List Bool String Lia ZifyBool.
From DD Require Import Common Mir GenErr AddrPath.
Import ListNotations.
Open Scope Z_scope.

Lemma arith_debug_ok it z v : arith Debug it z = Ok v -> v = z /\ in_range it z = true.
Proof. unfold arith. destruct (in_range it z); [intros H; inversion H; auto|discriminate]. Qed.

Lemma wrap_in_range t z : 0 < bits t -> in_range t z = true -> wrap t z = z.
Proof.
  intros Hb Hr. unfold in_range, ity_min, ity_max, wrap in *.
  assert (H2b : 2 ^ bits t = 2 * 2 ^ (bits t - 1)).
  { replace (bits t) with (Z.succ (bits t - 1)) at 1 by lia. rewrite Z.pow_succ_r by lia. reflexivity. }
  assert (0 < 2 ^ (bits t - 1)) by (apply Z.pow_pos_nonneg; lia).
  destruct (signed t); cbn [andb].
  - destruct (Z_lt_ge_dec z 0).
    + assert (z mod 2 ^ bits t = z + 2 ^ bits t) as -> by (symmetry; apply Z.mod_unique with (q := -1); lia).
      destruct (2 ^ (bits t - 1) <=? z + 2 ^ bits t) eqn:E; lia.
    + rewrite Z.mod_small by lia. destruct (2 ^ (bits t - 1) <=? z) eqn:E; lia.
  - apply Z.mod_small. lia.
Qed.

(* one level, debug build: if it does not panic, it computes base + the level's mathematical
   contribution — provided the index itself is representable in IT (the `as IT` cast is silent) *)
Lemma level_address_exact it base l v :
  0 < bits it -> in_range it (l_index l) = true \/ l_rep l = None ->
  level_address Debug it base l = Ok v -> v = base + level_sem l /\ index_valid l = true.
Proof.
  intros Hb Hidx. unfold level_address, level_sem, index_valid. destruct (l_rep l) as [r|].
  - destruct Hidx as [Hidx|]; [|discriminate].
    destruct ((0 <=? l_index l) && (l_index l <? r_count r)) eqn:Ev; cbn [negb]; [|discriminate].
    destruct (arith Debug it (base + l_addr l)) as [s|] eqn:E1; cbn [bind]; [|discriminate].
    apply arith_debug_ok in E1 as [-> _].
    rewrite (wrap_in_range it (l_index l)) by assumption.
    destruct (arith Debug it (l_index l * Z.abs (r_stride r))) as [p|] eqn:E2; cbn [bind]; [|discriminate].
    apply arith_debug_ok in E2 as [-> _].
    destruct (r_stride r <? 0) eqn:Es; intros H; apply arith_debug_ok in H as [-> _]; split; try reflexivity.
    + rewrite Z.abs_neq by lia. rewrite Z.mul_opp_r. lia.
    + rewrite Z.abs_eq by lia. lia.
  - intros H. apply arith_debug_ok in H as [-> _]. split; [lia|reflexivity].
Qed.

Theorem gen_addr_from_exact it : forall path base v,
  0 < bits it -> Forall (fun l => in_range it (l_index l) = true \/ l_rep l = None) path ->
  gen_addr_from Debug it base path = Ok v ->
  v = base + addr_sem path /\ forallb index_valid path = true.
Proof.
  induction path as [|l t IH]; intros base v Hb Hidx H; unfold addr_sem in *; cbn [gen_addr_from fold_right forallb] in *.
  - inversion H; subst. split; [lia|reflexivity].
  - inversion Hidx as [|? ? Hl Ht]; subst.
    destruct (level_address Debug it base l) as [a|] eqn:E; cbn [bind] in H; [|discriminate].
    destruct (level_address_exact it base l a Hb Hl E) as [-> Hv].
    destruct (IH _ _ Hb Ht H) as [-> Hvs]. rewrite Hv, Hvs. split; [lia|reflexivity].
Qed.

Theorem address_exact it at_ path v :
  0 < bits it -> 0 < bits at_ ->
  Forall (fun l => in_range it (l_index l) = true \/ l_rep l = None) path ->
  gen_addr Debug it at_ path = Ok v -> in_range at_ (addr_sem path) = true ->
  v = addr_sem path.
Proof.
  intros Hb Ha Hidx H Hfit. unfold gen_addr in H.
  destruct (gen_addr_from Debug it 0 path) as [a|] eqn:E; cbn [bind] in H; [|discriminate].
  destruct (gen_addr_from_exact it path 0 a Hb Hidx E) as [-> _]. inversion H; subst.
  cbn. apply wrap_in_range; assumption.
Qed.

(* release build: whatever wraps on the way, the result is the mathematical address modulo 2^bits(IT),
   hence exact whenever the final address fits both types and IT is at least as wide as AT *)
Lemma wrap_mod_eq t z : 0 <= bits t -> wrap t z mod 2 ^ bits t = z mod 2 ^ bits t.
Proof.
  intros Hb. unfold wrap. assert (0 < 2 ^ bits t) by (apply Z.pow_pos_nonneg; lia).
  destruct (signed t && (2 ^ (bits t - 1) <=? z mod 2 ^ bits t)).
  - replace (z mod 2 ^ bits t - 2 ^ bits t) with (z mod 2 ^ bits t + (-1) * 2 ^ bits t) by lia.
    rewrite Z_mod_plus_full. apply Z.mod_mod. lia.
  - apply Z.mod_mod. lia.
Qed.

Lemma arith_release_mod it z v : 0 <= bits it -> arith Release it z = Ok v -> v mod 2 ^ bits it = z mod 2 ^ bits it.
Proof.
  intros Hb. unfold arith. destruct (in_range it z); intros H; inversion H; subst; [reflexivity|].
  apply wrap_mod_eq. assumption.
Qed.

(* an invalid index panics at that level: nothing below it runs, so no operation object (and no
   interface call) is ever created *)
Theorem index_guard b it : forall path base,
  existsb (fun l => negb (index_valid l)) path = true ->
  (forall l, In l path -> forall base', level_address b it base' l <> Fail Overflow \/ True) ->
  exists k, gen_addr_from b it base path = Fail k.
Proof.
  induction path as [|l t IH]; intros base Hex _; cbn [gen_addr_from existsb] in *; [discriminate|].
  destruct (level_address b it base l) as [a|k] eqn:E; cbn [bind]; [|eauto].
  apply orb_true_iff in Hex as [Hl|Ht].
  - exfalso. unfold level_address, index_valid in *. destruct (l_rep l) as [r|]; [|discriminate].
    destruct ((0 <=? l_index l) && (l_index l <? r_count r)); cbn in *; discriminate.
  - apply IH; auto.
Qed.

Theorem first_invalid_index_asserts b it base l :
  index_valid l = false -> level_address b it base l = Fail AssertFail.
Proof.
  unfold index_valid, level_address. destruct (l_rep l) as [r|]; [|discriminate].
  intros ->. reflexivity.
Qed.
