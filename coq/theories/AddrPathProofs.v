From Coq Require Import ZArith List Bool String Lia ZifyBool.
From DD Require Import Common Mir GenErr AddrPath.
Import ListNotations.
Open Scope Z_scope.

Lemma arith_debug_ok it z v : arith Debug it z = Ok v -> v = z /\ in_range it z = true.
Proof. unfold arith. destruct (in_range it z); [intros H; inversion H; auto|discriminate]. Qed.

Lemma wrap_in_range t z : 0 < bits t -> in_range t z = true -> wrap t z = z.
Proof.
  intros Hb Hr. unfold in_range, ity_min, ity_max, wrap in *.
  assert (H2b : 2 ^ bits t = 2 * 2 ^ (bits t - 1)).
  { replace (bits t) with (Z.succ (bits t - 1)) at 1 by lia. rewrite Z.pow_succ_r by lia. reflexivity. }
  assert (0 < 2 ^ (bits t - 1)) by (apply Z.pow_pos_nonneg; lia).
  destruct (signed t); cbn [andb].
  - destruct (Z_lt_ge_dec z 0).
    + assert (z mod 2 ^ bits t = z + 2 ^ bits t) as -> by (symmetry; apply Z.mod_unique with (q := -1); lia).
      destruct (2 ^ (bits t - 1) <=? z + 2 ^ bits t) eqn:E; lia.
    + rewrite Z.mod_small by lia. destruct (2 ^ (bits t - 1) <=? z) eqn:E; lia.
  - apply Z.mod_small. lia.
Qed.

(* one level, debug build: if it does not panic, it computes base + the level's mathematical
   contribution — provided the index itself is representable in IT (the `as IT` cast is silent) *)
Lemma level_address_exact it base l v :
  0 < bits it -> in_range it (l_index l) = true \/ l_rep l = None ->
  level_address Debug it base l = Ok v -> v = base + level_sem l /\ index_valid l = true.
Proof.
  intros Hb Hidx. unfold level_address, level_sem, index_valid. destruct (l_rep l) as [r|].
  - destruct Hidx as [Hidx|]; [|discriminate].
    destruct ((0 <=? l_index l) && (l_index l <? r_count r)) eqn:Ev; cbn [negb]; [|discriminate].
    destruct (arith Debug it (base + l_addr l)) as [s|] eqn:E1; cbn [bind]; [|discriminate].
    apply arith_debug_ok in E1 as [-> _].
    rewrite (wrap_in_range it (l_index l)) by assumption.
    destruct (arith Debug it (l_index l * Z.abs (r_stride r))) as [p|] eqn:E2; cbn [bind]; [|discriminate].
    apply arith_debug_ok in E2 as [-> _].
    destruct (r_stride r <? 0) eqn:Es; intros H; apply arith_debug_ok in H as [-> _]; split; try reflexivity.
    + rewrite Z.abs_neq by lia. rewrite Z.mul_opp_r. lia.
    + rewrite Z.abs_eq by lia. lia.
  - intros H. apply arith_debug_ok in H as [-> _]. split; [lia|reflexivity].
Qed.

Theorem gen_addr_from_exact it : forall path base v,
  0 < bits it -> Forall (fun l => in_range it (l_index l) = true \/ l_rep l = None) path ->
  gen_addr_from Debug it base path = Ok v ->
  v = base + addr_sem path /\ forallb index_valid path = true.
Proof.
  induction path as [|l t IH]; intros base v Hb Hidx H; unfold addr_sem in *; cbn [gen_addr_from fold_right forallb] in *.
  - inversion H; subst. split; [lia|reflexivity].
  - inversion Hidx as [|? ? Hl Ht]; subst.
    destruct (level_address Debug it base l) as [a|] eqn:E; cbn [bind] in H; [|discriminate].
    destruct (level_address_exact it base l a Hb Hl E) as [-> Hv].
    destruct (IH _ _ Hb Ht H) as [-> Hvs]. rewrite Hv, Hvs. split; [lia|reflexivity].
Qed.

Theorem address_exact it at_ path v :
  0 < bits it -> 0 < bits at_ ->
  Forall (fun l => in_range it (l_index l) = true \/ l_rep l = None) path ->
  gen_addr Debug it at_ path = Ok v -> in_range at_ (addr_sem path) = true ->
  v = addr_sem path.
Proof.
  intros Hb Ha Hidx H Hfit. unfold gen_addr in H.
  destruct (gen_addr_from Debug it 0 path) as [a|] eqn:E; cbn [bind] in H; [|discriminate].
  destruct (gen_addr_from_exact it path 0 a Hb Hidx E) as [-> _]. inversion H; subst.
  cbn. apply wrap_in_range; assumption.
Qed.

(* release build: whatever wraps on the way, the result is the mathematical address modulo 2^bits(IT),
   hence exact whenever the final address fits both types and IT is at least as wide as AT *)
Lemma wrap_mod_eq t z : 0 <= bits t -> wrap t z mod 2 ^ bits t = z mod 2 ^ bits t.
Proof.
  intros Hb. unfold wrap. assert (0 < 2 ^ bits t) by (apply Z.pow_pos_nonneg; lia).
  destruct (signed t && (2 ^ (bits t - 1) <=? z mod 2 ^ bits t)).
  - replace (z mod 2 ^ bits t - 2 ^ bits t) with (z mod 2 ^ bits t + (-1) * 2 ^ bits t) by lia.
    rewrite Z_mod_plus_full. apply Z.mod_mod. lia.
  - apply Z.mod_mod. lia.
Qed.

Lemma arith_release_mod it z v : 0 <= bits it -> arith Release it z = Ok v -> v mod 2 ^ bits it = z mod 2 ^ bits it.
Proof.
  intros Hb. unfold arith. destruct (in_range it z); intros H; inversion H; subst; [reflexivity|].
  apply wrap_mod_eq. assumption.
Qed.

(* an invalid index panics at that level: nothing below it runs, so no operation object (and no
   interface call) is ever created *)
Theorem index_guard b it : forall path base,
  existsb (fun l => negb (index_valid l)) path = true ->
  (forall l, In l path -> forall base', level_address b it base' l <> Fail Overflow \/ True) ->
  exists k, gen_addr_from b it base path = Fail k.
Proof.
  induction path as [|l t IH]; intros base Hex _; cbn [gen_addr_from existsb] in *; [discriminate|].
  destruct (level_address b it base l) as [a|k] eqn:E; cbn [bind]; [|eauto].
  apply orb_true_iff in Hex as [Hl|Ht].
  - exfalso. unfold level_address, index_valid in *. destruct (l_rep l) as [r|]; [|discriminate].
    destruct ((0 <=? l_index l) && (l_index l <? r_count r)); cbn in *; discriminate.
  - apply IH; auto.
Qed.

Theorem first_invalid_index_asserts b it base l :
  index_valid l = false -> level_address b it base l = Fail AssertFail.
Proof.
  unfold index_valid, level_address. destruct (l_rep l) as [r|]; [|discriminate].
  intros ->. reflexivity.
Qed.

(* ---------- release build: modular exactness ---------- *)

Lemma mod_add_cong m a b a' b' : m <> 0 -> a mod m = a' mod m -> b mod m = b' mod m -> (a + b) mod m = (a' + b') mod m.
Proof. intros Hm Ha Hb. rewrite (Z.add_mod a b), (Z.add_mod a' b') by assumption. rewrite Ha, Hb. reflexivity. Qed.

Lemma mod_sub_cong m a b a' b' : m <> 0 -> a mod m = a' mod m -> b mod m = b' mod m -> (a - b) mod m = (a' - b') mod m.
Proof.
  intros Hm Ha Hb. rewrite <- !Z.add_opp_r. apply mod_add_cong; [assumption|assumption|].
  assert (forall x, (- x) mod m = (- (x mod m)) mod m) as Hopp.
  { intros x. rewrite <- (Z.sub_0_l x), <- (Z.sub_0_l (x mod m)).
    rewrite (Zminus_mod 0 x), (Zminus_mod 0 (x mod m)). rewrite Z.mod_mod by assumption. reflexivity. }
  rewrite (Hopp b), (Hopp b'), Hb. reflexivity.
Qed.

Lemma mod_mul_cong m a b a' : m <> 0 -> a mod m = a' mod m -> (a * b) mod m = (a' * b) mod m.
Proof. intros Hm Ha. rewrite (Z.mul_mod a b), (Z.mul_mod a' b) by assumption. rewrite Ha. reflexivity. Qed.

(* In a release build no arithmetic step fails; whatever wraps on the way, every level's result is the
   mathematical contribution modulo 2^bits(IT). *)
Lemma level_address_release it base base' l v :
  0 < bits it -> base mod 2 ^ bits it = base' mod 2 ^ bits it ->
  level_address Release it base l = Ok v ->
  v mod 2 ^ bits it = (base' + level_sem l) mod 2 ^ bits it /\ index_valid l = true.
Proof.
  intros Hb Hbase. set (M := 2 ^ bits it). assert (HM : M <> 0) by (subst M; apply Z.pow_nonzero; lia).
  unfold level_address, level_sem, index_valid. destruct (l_rep l) as [r|].
  - destruct ((0 <=? l_index l) && (l_index l <? r_count r)) eqn:Ev; cbn [negb]; [|discriminate].
    destruct (arith Release it (base + l_addr l)) as [s|] eqn:E1; cbn [bind]; [|discriminate].
    apply arith_release_mod in E1; [|lia]. fold M in E1.
    destruct (arith Release it (wrap it (l_index l) * Z.abs (r_stride r))) as [p|] eqn:E2; cbn [bind]; [|discriminate].
    apply arith_release_mod in E2; [|lia]. fold M in E2.
    assert (Hidx : wrap it (l_index l) mod M = l_index l mod M) by (apply wrap_mod_eq; lia).
    assert (Hp : p mod M = (l_index l * Z.abs (r_stride r)) mod M).
    { rewrite E2. apply mod_mul_cong; assumption. }
    assert (Hs : s mod M = (base' + l_addr l) mod M).
    { rewrite E1. apply mod_add_cong; [assumption|assumption|reflexivity]. }
    destruct (r_stride r <? 0) eqn:Es; intros H; apply arith_release_mod in H; try lia; fold M in H; rewrite H; split; try reflexivity.
    + replace (base' + (l_addr l + l_index l * r_stride r)) with ((base' + l_addr l) - l_index l * Z.abs (r_stride r)).
      * apply mod_sub_cong; assumption.
      * rewrite Z.abs_neq by lia. ring.
    + replace (base' + (l_addr l + l_index l * r_stride r)) with ((base' + l_addr l) + l_index l * Z.abs (r_stride r)).
      * apply mod_add_cong; assumption.
      * rewrite Z.abs_eq by lia. ring.
  - intros H. apply arith_release_mod in H; [|lia]. fold M in H. rewrite H. split; [|reflexivity].
    rewrite Z.add_0_r. apply mod_add_cong; [assumption|assumption|reflexivity].
Qed.

Theorem gen_addr_from_release it : forall path base base' v,
  0 < bits it -> base mod 2 ^ bits it = base' mod 2 ^ bits it ->
  gen_addr_from Release it base path = Ok v ->
  v mod 2 ^ bits it = (base' + addr_sem path) mod 2 ^ bits it /\ forallb index_valid path = true.
Proof.
  induction path as [|l t IH]; intros base base' v Hb Hbase H; unfold addr_sem in *; cbn [gen_addr_from fold_right forallb] in *.
  - inversion H; subst. rewrite Z.add_0_r. split; [assumption|reflexivity].
  - destruct (level_address Release it base l) as [a|] eqn:E; cbn [bind] in H; [|discriminate].
    destruct (level_address_release it base base' l a Hb Hbase E) as [Ha Hv].
    destruct (IH a (base' + level_sem l) v Hb Ha H) as [Hr Hvs]. rewrite Hv, Hvs. split; [|reflexivity].
    rewrite Hr. f_equal. ring.
Qed.

(* Release build: the bus address is exact whenever the mathematical address fits the address type and
   the internal type is at least as wide — even if intermediates wrapped (cf. D3b). *)
Theorem address_exact_release it at_ path v :
  0 < bits at_ -> bits at_ <= bits it ->
  gen_addr Release it at_ path = Ok v -> in_range at_ (addr_sem path) = true ->
  v = addr_sem path /\ forallb index_valid path = true.
Proof.
  intros Ha Hle H Hfit. unfold gen_addr in H.
  destruct (gen_addr_from Release it 0 path) as [a|] eqn:E; cbn [bind] in H; [|discriminate].
  destruct (gen_addr_from_release it path 0 0 a ltac:(lia) eq_refl E) as [Hm Hv]. inversion H; subst. split; [|assumption].
  rewrite <- (wrap_in_range at_ (addr_sem path)) by assumption.
  apply (f_equal (fun x => x)). unfold wrap.
  assert (a mod 2 ^ bits at_ = addr_sem path mod 2 ^ bits at_) as ->; [|reflexivity].
  rewrite Z.add_0_l in Hm.
  assert (Hd : forall x, x mod 2 ^ bits at_ = (x mod 2 ^ bits it) mod 2 ^ bits at_).
  { intros x. assert (0 < 2 ^ bits at_) by (apply Z.pow_pos_nonneg; lia).
    assert (0 < 2 ^ bits it) by (apply Z.pow_pos_nonneg; lia).
    rewrite (Z.mod_eq x (2 ^ bits it)) by lia.
    replace (2 ^ bits it) with (2 ^ (bits it - bits at_) * 2 ^ bits at_) by (rewrite <- Z.pow_add_r by lia; f_equal; lia).
    replace (x - 2 ^ (bits it - bits at_) * 2 ^ bits at_ * (x / (2 ^ (bits it - bits at_) * 2 ^ bits at_)))
      with (x + (- (2 ^ (bits it - bits at_) * (x / (2 ^ (bits it - bits at_) * 2 ^ bits at_)))) * 2 ^ bits at_) by ring.
    symmetry. apply Z_mod_plus_full. }
  rewrite (Hd a), (Hd (addr_sem path)), Hm. reflexivity.
Qed.
