(* GenIntegers.v — a table translated from /repo's source on every build (coq/gen/IntegerRows.v; tools/translate_tables.py), what it must
   say for the hand-written models to be the code's, and the proof that it does.  A change of the source that alters
   the table breaks the proof below, and only the properties whose cone contains this file report the broken tie. *)
From Coq Require Import ZArith List Bool String.
From DD Require Import Common Mir.
From DDGen Require Import IntegerRows.
Import ListNotations.
Open Scope string_scope.
Open Scope Z_scope.

(* ---- the seven address types (C13: "lies within the declared ... address type") ---- *)
Definition integer_variant (i : integer) : string :=
  match i with IU8 => "U8" | IU16 => "U16" | IU32 => "U32" | II8 => "I8" | II16 => "I16" | II32 => "I32" | II64 => "I64" end.
Definition all_integers : list integer := [IU8; IU16; IU32; II8; II16; II32; II64].

Definition integer_row_ok (i : integer) : bool :=
  match filter (fun r => String.eqb (fst (fst r)) (integer_variant i)) integer_rows with
  | [(_, (smin, bmin), (smax, bmax))] =>
      Bool.eqb smin (signed (integer_ity i)) && (bmin =? bits (integer_ity i)) &&
      Bool.eqb smax (signed (integer_ity i)) && (bmax =? bits (integer_ity i))
  | _ => false
  end.

Theorem integer_rows_adequate :
  forallb integer_row_ok all_integers = true /\ List.length integer_rows = List.length all_integers.
Proof. vm_compute. split; reflexivity. Qed.

(* min_value / max_value of the code = MIN / MAX of the Rust type of the row = ity_min / ity_max of the model's type *)
Theorem integer_bounds_from_source : forall i,
  exists smin bmin smax bmax,
    In (integer_variant i, (smin, bmin), (smax, bmax)) integer_rows /\
    integer_min i = ity_min {| signed := smin; bits := bmin |} /\
    integer_max i = ity_max {| signed := smax; bits := bmax |}.
Proof.
  intros i. destruct i;
    [exists false, 8, false, 8|exists false, 16, false, 16|exists false, 32, false, 32|
     exists true, 8, true, 8|exists true, 16, true, 16|exists true, 32, true, 32|exists true, 64, true, 64];
    (split; [vm_compute; tauto|split; reflexivity]).
Qed.

