(* Names.v — model of the generator's name and reference validation (property C14):
     mir/passes/names_normalized.rs, names_unique.rs, refs_validated.rs, mod.rs (search_object),
     the `expect`s of reset_values_converted.rs on ref targets (they run BEFORE refs_validated),
     lir_transform.rs (device-name test, get_method's ref lowering — with fuel),
     and the front-end rejections of ref-of-buffer / ref-of-ref / layout overrides
     (dsl_hir/mir_transform.rs transform_ref + transform_*_override; manifest/mod.rs
     transform_object_override + transform_*_override).
   Plus the specification written from the property text.  Definitions only. *)
From Coq Require Import ZArith List Bool String Ascii.
From DD Require Import Common Mir GenErr Case.
Import ListNotations.
Open Scope string_scope.

(* ====================== names_normalized ====================== *)

Definition dev_boundaries (d : device) : list boundary := boundaries_of_names (g_boundaries (d_config d)).

Definition norm_variant (bs : list boundary) (v : variant) : variant :=
  {| v_cfg := v_cfg v; v_name := to_pascal bs (v_name v); v_value := v_value v |}.

Definition norm_enum (bs : list boundary) (e : enum_def) : enum_def :=
  {| e_cfg := e_cfg e; e_name := to_pascal bs (e_name e);
     e_variants := map (norm_variant bs) (e_variants e); e_style := e_style e |}.

Definition norm_conv (bs : list boundary) (c : conversion) : conversion :=
  match c with
  | ConvEnum e t => ConvEnum (norm_enum bs e) t
  | ConvDirect n t => ConvDirect n t
  end.

Definition norm_field (bs : list boundary) (f : field) : field :=
  {| f_cfg := f_cfg f; f_name := to_snake bs (f_name f); f_access := f_access f; f_base := f_base f;
     f_conv := option_map (norm_conv bs) (f_conv f); f_start := f_start f; f_end := f_end f |}.

Definition norm_override (bs : list boundary) (ov : override) : override :=
  match ov with
  | OvBlock t a r => OvBlock (to_pascal bs t) a r
  | OvRegister t acc a al rs r => OvRegister (to_pascal bs t) acc a al rs r
  | OvCommand t a al r => OvCommand (to_pascal bs t) a al r
  end.

Definition norm_register (bs : list boundary) (r : register) : register :=
  {| rg_cfg := rg_cfg r; rg_name := to_pascal bs (rg_name r); rg_access := rg_access r;
     rg_byte_order := rg_byte_order r; rg_bit_order := rg_bit_order r;
     rg_allow_bit_overlap := rg_allow_bit_overlap r; rg_allow_address_overlap := rg_allow_address_overlap r;
     rg_address := rg_address r; rg_size_bits := rg_size_bits r; rg_reset := rg_reset r;
     rg_repeat := rg_repeat r; rg_fields := map (norm_field bs) (rg_fields r) |}.

Definition norm_command (bs : list boundary) (c : command) : command :=
  {| cm_cfg := cm_cfg c; cm_name := to_pascal bs (cm_name c); cm_address := cm_address c;
     cm_byte_order := cm_byte_order c; cm_bit_order := cm_bit_order c;
     cm_allow_bit_overlap := cm_allow_bit_overlap c; cm_allow_address_overlap := cm_allow_address_overlap c;
     cm_size_in := cm_size_in c; cm_size_out := cm_size_out c; cm_repeat := cm_repeat c;
     cm_in_fields := map (norm_field bs) (cm_in_fields c);
     cm_out_fields := map (norm_field bs) (cm_out_fields c) |}.

Definition norm_buffer (bs : list boundary) (b : buffer) : buffer :=
  {| bf_cfg := bf_cfg b; bf_name := to_pascal bs (bf_name b); bf_access := bf_access b;
     bf_address := bf_address b |}.

Fixpoint norm_object (bs : list boundary) (o : object) : object :=
  match o with
  | OBlock c n off rep objs => OBlock c (to_pascal bs n) off rep (map (norm_object bs) objs)
  | ORegister r => ORegister (norm_register bs r)
  | OCommand c => OCommand (norm_command bs c)
  | OBuffer b => OBuffer (norm_buffer bs b)
  | ORef c n ov => ORef c (to_pascal bs n) (norm_override bs ov)
  end.

Definition names_normalized (d : device) : device :=
  {| d_config := d_config d; d_objects := map (norm_object (dev_boundaries d)) (d_objects d) |}.

(* ====================== names_unique ====================== *)

(* mir::UniqueId = (name, cfg) *)
Definition uid := (string * cfg)%type.

Definition cfg_eqb (a b : cfg) : bool :=
  match a, b with
  | None, None => true
  | Some x, Some y => String.eqb x y
  | _, _ => false
  end.

Definition uid_eqb (a b : uid) : bool := String.eqb (fst a) (fst b) && cfg_eqb (snd a) (snd b).

Definition mem_uid (x : uid) (l : list uid) : bool := existsb (uid_eqb x) l.
Definition mem_str (x : string) (l : list string) : bool := existsb (String.eqb x) l.

Definition object_uid (o : object) : uid := (object_name o, object_cfg o).

(* variants of one enum: HashSet of (name, cfg) *)
Fixpoint check_variants (seen : list uid) (vs : list variant) (en obj fld : string) : option gen_error :=
  match vs with
  | [] => None
  | v :: t =>
    let id := (v_name v, v_cfg v) in
    if mem_uid id seen then Some (mk_err "dup_variant" [v_name v; en; obj; fld])
    else check_variants (id :: seen) t en obj fld
  end.

(* one field set: [seen] = field names seen in THIS set; [gen] = generated type ids seen in the device *)
Fixpoint check_fields (seen : list string) (gen : list uid) (fs : list field) (obj : string)
  : result (list uid) :=
  match fs with
  | [] => ROk gen
  | f :: t =>
    if mem_str (f_name f) seen then RErr (mk_err "dup_field" [obj; f_name f])
    else
      match f_conv f with
      | Some (ConvEnum e _) =>
        let id := (e_name e, e_cfg e) in
        if mem_uid id gen then RErr (mk_err "dup_enum" [e_name e; obj; f_name f])
        else match check_variants [] (e_variants e) (e_name e) obj (f_name f) with
             | Some err => RErr err
             | None => check_fields (f_name f :: seen) (id :: gen) t obj
             end
      | _ => check_fields (f_name f :: seen) gen t obj
      end
  end.

Fixpoint check_sets (gen : list uid) (sets : list (list field)) (obj : string) : result (list uid) :=
  match sets with
  | [] => ROk gen
  | fs :: t => rbind (check_fields [] gen fs obj) (fun gen' => check_sets gen' t obj)
  end.

(* the closure of recurse_objects_mut, applied along the pre-order list *)
Fixpoint unique_walk (seen : list uid) (gen : list uid) (os : list object) : option gen_error :=
  match os with
  | [] => None
  | o :: t =>
    if mem_uid (object_uid o) seen then Some (mk_err "dup_object" [object_name o])
    else match check_sets gen (object_field_sets o) (object_name o) with
         | RErr e => Some e
         | ROk gen' => unique_walk (object_uid o :: seen) gen' t
         end
  end.

Definition names_unique (d : device) : option gen_error :=
  unique_walk [] [] (preorder_objects (d_objects d)).

(* ====================== search_object (mir/passes/mod.rs) ====================== *)

Definition find_some {A B} (f : A -> option B) : list A -> option B :=
  fix go (l : list A) : option B :=
    match l with
    | [] => None
    | x :: t => match f x with Some r => Some r | None => go t end
    end.

(* the body of the `for` loop for one object *)
Fixpoint search_in (name : string) (o : object) : option object :=
  if String.eqb (object_name o) name then Some o
  else match o with
       | OBlock _ _ _ _ objs => find_some (search_in name) objs
       | _ => None
       end.

Definition search_object (name : string) (objs : list object) : option object :=
  find_some (search_in name) objs.

(* ====================== refs_validated ====================== *)

Inductive okind := KBlock | KRegister | KCommand | KBuffer | KRef.

Definition okind_eqb (a b : okind) : bool :=
  match a, b with
  | KBlock, KBlock | KRegister, KRegister | KCommand, KCommand | KBuffer, KBuffer | KRef, KRef => true
  | _, _ => false
  end.

Definition object_kind (o : object) : okind :=
  match o with
  | OBlock _ _ _ _ _ => KBlock | ORegister _ => KRegister | OCommand _ => KCommand
  | OBuffer _ => KBuffer | ORef _ _ _ => KRef
  end.

Definition override_kind (ov : override) : okind :=
  match ov with OvBlock _ _ _ => KBlock | OvRegister _ _ _ _ _ _ => KRegister | OvCommand _ _ _ _ => KCommand end.

Definition kind_word (k : okind) : string :=
  match k with KBlock => "Block" | KRegister => "Register" | KCommand => "Command"
             | KBuffer => "Buffer" | KRef => "Ref" end.

(* HashMap::insert: one entry per key, the later value wins *)
Fixpoint map_insert (k v : string) (m : list (string * string)) : list (string * string) :=
  match m with
  | [] => [(k, v)]
  | (k', v') :: t => if String.eqb k k' then (k, v) :: t else (k', v') :: map_insert k v t
  end.

(* reffed_<kind>: target name -> name of the LAST ref (pre-order) of that kind with that target *)
Fixpoint reffed (k : okind) (os : list object) (m : list (string * string)) : list (string * string) :=
  match os with
  | [] => m
  | ORef _ n ov :: t =>
    if okind_eqb (override_kind ov) k then reffed k t (map_insert (override_target ov) n m)
    else reffed k t m
  | _ :: t => reffed k t m
  end.

(* real_<kind>: names of the real objects of that kind *)
Definition real_names (k : okind) (os : list object) : list string :=
  map object_name (filter (fun o => okind_eqb (object_kind o) k) os).

(* every error the `for (target, reffer) in reffed_<kind>` loop can stop at, depending on the
   HashMap's iteration order (not deterministic, D13) *)
Definition dangling (k : okind) (os : list object) : list gen_error :=
  map (fun tr => mk_err "ref_unknown" [kind_word k; snd tr; fst tr])
      (filter (fun tr => negb (mem_str (fst tr) (real_names k os))) (reffed k os [])).

(* the three loops run in the order blocks, registers, commands: the reported error is one of the
   dangling entries of the FIRST kind that has any *)
Definition refs_candidates (d : device) : list gen_error :=
  let os := preorder_objects (d_objects d) in
  match dangling KBlock os with
  | (_ :: _) as l => l
  | [] => match dangling KRegister os with
          | (_ :: _) as l => l
          | [] => dangling KCommand os
          end
  end.

Definition refs_validated_ok (d : device) : bool :=
  match refs_candidates d with [] => true | _ => false end.

(* ---------- ensure_no_recursive_block_refs (repair of D11, /repo df1ac90) ----------
   Called at the very end of refs_validated::run_pass, after the three "refers to unknown" loops.

   instantiated_blocks : BTreeMap<block name, Vec<name>>.  recurse_objects visits the blocks in pre-order;
   each block pushes, for its DIRECT children in source order, the name of a sub block / the target of a
   block ref.  `entry(name).or_default()` appends to the entry of an equally named block (possible under
   different cfgs).  Kept here as the list of edges (block name, instantiated name) in push order; looking a
   name up (inst_of) returns its pushes in that order, which is exactly the Vec of the map entry. *)
Definition child_inst (o : object) : list string :=
  match o with
  | OBlock _ n _ _ _ => [n]
  | ORef _ _ (OvBlock t _ _) => [t]
  | _ => []
  end.

Definition inst_edges (os : list object) : list (string * string) :=
  flat_map (fun o => match o with
                     | OBlock _ n _ _ objs => map (pair n) (flat_map child_inst objs)
                     | _ => []
                     end) os.

(* instantiated_blocks.get(b).into_iter().flatten() *)
Definition inst_of (E : list (string * string)) (b : string) : list string :=
  map snd (filter (fun e => String.eqb (fst e) b) E).

(* block_refs : Vec<(ref name, enclosing block name, target name)>: for every block in pre-order, its direct
   block-ref children in source order (NOT the pre-order of the refs: the refs of a block come before the refs
   of its sub blocks).  Block refs at the root level have no enclosing block and are never pushed. *)
Definition child_block_ref (p : string) (o : object) : list (string * string * string) :=
  match o with
  | ORef _ r (OvBlock t _ _) => [(r, p, t)]
  | _ => []
  end.

Definition block_ref_sites (os : list object) : list (string * string * string) :=
  flat_map (fun o => match o with
                     | OBlock _ n _ _ objs => flat_map (child_block_ref n) objs
                     | _ => []
                     end) os.

(* the `while let Some(block_name) = todo.pop()` loop.  The head of [todo] is the top of the stack
   (Vec::pop takes the last element, Vec::extend appends in order: the last pushed name is visited first,
   hence the [rev]).  One unit of fuel per iteration; [true] = the `ensure!` fired. *)
Fixpoint rec_walk (fuel : nat) (succ : string -> list string) (enclosing : string)
                  (seen todo : list string) : outcome bool :=
  match fuel with
  | O => Fail OutOfFuel
  | S f =>
    match todo with
    | [] => Ok false
    | b :: rest =>
      if String.eqb b enclosing then Ok true
      else if mem_str b seen then rec_walk f succ enclosing seen rest
      else rec_walk f succ enclosing (b :: seen) (rev (succ b) ++ rest)
    end
  end.

(* `for (reffer_name, enclosing_block_name, ref_target_name) in block_refs`: the first site whose walk gets
   back to the enclosing block is reported *)
Fixpoint first_recursive (fuel : nat) (E : list (string * string)) (sites : list (string * string * string))
  : outcome (option gen_error) :=
  match sites with
  | [] => Ok None
  | (r, p, t) :: rest =>
    do hit <- rec_walk fuel (inst_of E) p [] [t];
    if hit then Ok (Some (mk_err "ref_recursive" [r; t])) else first_recursive fuel E rest
  end.

(* Every iteration pops one name; a name is pushed once at the start and once per edge whose source is
   inserted into [seen] (each source at most once): at most |E| + 1 pops, + 1 iteration that finds the stack
   empty.  NamesProofs.recursive_check_total: this fuel never runs out. *)
Definition recursive_fuel (E : list (string * string)) : nat := S (S (List.length E)).

Definition recursive_block_refs (d : device) : outcome (option gen_error) :=
  let os := preorder_objects (d_objects d) in
  first_recursive (recursive_fuel (inst_edges os)) (inst_edges os) (block_ref_sites os).

Definition no_recursive_block_refs (d : device) : bool :=
  match recursive_block_refs d with Ok None => true | _ => false end.

(* ====================== reset_values_converted: the two `expect`s ======================
   This pass runs BEFORE refs_validated.  For a register ref that overrides the reset value it
   looks the target up with search_object (any kind) and unwraps: a missing target or a target that
   is not a register PANICS the generator instead of producing refs_validated's error (D14). *)

Definition reset_lookup_panic (objs : list object) (o : object) : option string :=
  match o with
  | ORef _ _ (OvRegister t _ _ _ (Some _) _) =>
    match search_object t objs with
    | None => Some "existance"
    | Some (ORegister _) => None
    | Some _ => Some "types"
    end
  | _ => None
  end.

Definition reset_pass_panic (d : device) : option string :=
  find_some (reset_lookup_panic (d_objects d)) (preorder_objects (d_objects d)).

(* ====================== lir_transform: device name ====================== *)

Definition device_name_check (name : string) : option gen_error :=
  if String.eqb name (lenient_pascal name) then None
  else Some (mk_err "device_name" [lenient_pascal name]).

(* ====================== lir_transform: get_method / collect_into_blocks ======================
   Only what the recursion needs: which lir blocks are emitted (struct name, method names).
   get_method on a ref clones the target found by search_object (overrides touch cfg, description,
   address, repeat, access, reset value — never the children) and recurses on the clone; for a block
   target that re-enters collect_into_blocks on the target's children.  The real code has no bound on
   this recursion; here every call consumes one unit of fuel. *)

Definition method := (string * string)%type.           (* method name, name of the type it resolves to *)
Definition lir_block := (string * list method)%type.   (* struct name, methods *)

Fixpoint mapO {A B} (f : A -> outcome B) (l : list A) : outcome (list B) :=
  match l with
  | [] => Ok []
  | a :: t => do b <- f a; do bs <- mapO f t; Ok (b :: bs)
  end.

(* what the accessor's type mentions: the register's field set, the command's FieldsIn set (when it
   has in-fields), the block's struct *)
Definition leaf_type (o : object) : string :=
  match o with
  | OBlock _ n _ _ _ => n
  | ORegister r => rg_name r
  | OCommand c => match cm_in_fields c with [] => "-" | _ => cm_name c ++ "FieldsIn" end
  | _ => "-"
  end.

Fixpoint get_method (fuel : nat) (dev : list object) (o : object) : outcome (method * list lir_block) :=
  match fuel with
  | O => Fail OutOfFuel
  | S f =>
    match o with
    | OBlock _ n _ _ objs =>
      do ms <- mapO (get_method f dev) objs;
      Ok ((to_snake_default n, n), (n, map fst ms) :: flat_map snd ms)
    | ORef _ n ov =>
      match search_object (override_target ov) dev with
      | None => Fail AssertFail                  (* expect("All refs are validated in a mir pass") *)
      | Some tgt =>
        if okind_eqb (object_kind tgt) (override_kind ov) then
          do m <- get_method f dev tgt;
          Ok ((to_snake_default n, snd (fst m)), snd m)
        else Fail AssertFail                     (* as_<kind>_mut().expect(..) *)
      end
    | _ => Ok ((to_snake_default (object_name o), leaf_type o), [])
    end
  end.

(* collect_into_blocks for the root block *)
Definition lower (fuel : nat) (root : string) (dev : list object) : outcome (list lir_block) :=
  do ms <- mapO (get_method fuel dev) dev;
  Ok ((root, map fst ms) :: flat_map snd ms).

(* --- after the repair of D9 (/repo 7e1bb11) ---
   get_method no longer re-enters collect_into_blocks for a block ref: the ref only gets an accessor whose
   type is the target's struct; register / command refs still go through the clone, which is a leaf.  The
   recursion is structural on the tree (no fuel): THIS lowering always terminates.  [get_method]/[lower]
   above remain the model of the EXPANSION of block refs (what the unrepaired lowering did, and what the LIR
   pass addresses_non_overlapping still does by name); the termination theorems are about it. *)
Fixpoint get_method_accessor (dev : list object) (o : object) : outcome (method * list lir_block) :=
  match o with
  | OBlock _ n _ _ objs =>
    do ms <- (fix go (l : list object) : outcome (list (method * list lir_block)) :=
                match l with
                | [] => Ok []
                | a :: t => do b <- get_method_accessor dev a; do bs <- go t; Ok (b :: bs)
                end) objs;
    Ok ((to_snake_default n, n), (n, map fst ms) :: flat_map snd ms)
  | ORef _ n ov =>
    match search_object (override_target ov) dev with
    | None => Fail AssertFail                    (* expect("All refs are validated in a mir pass") *)
    | Some tgt =>
      if okind_eqb (object_kind tgt) (override_kind ov) then Ok ((to_snake_default n, leaf_type tgt), [])
      else Fail AssertFail                       (* as_<kind>_mut().expect(..) *)
    end
  | _ => Ok ((to_snake_default (object_name o), leaf_type o), [])
  end.

Definition lower_accessor (root : string) (dev : list object) : outcome (list lir_block) :=
  do ms <- mapO (get_method_accessor dev) dev;
  Ok ((root, map fst ms) :: flat_map snd ms).

Definition lowering_terminates (dev : list object) : Prop :=
  exists fuel, lower fuel "Root" dev <> Fail OutOfFuel.

(* --- acyclicity of block refs ---
   [block_ref_in t objs]: a block ref with target t occurs among objs, at any depth of real blocks. *)
Definition is_block_ref_to (t : string) (o : object) : Prop :=
  exists c n a r, o = ORef c n (OvBlock t a r).

Definition block_ref_in (t : string) (objs : list object) : Prop :=
  exists o, In o (preorder_objects objs) /\ is_block_ref_to t o.

(* [nested a t]: the block found under name a contains a block ref to t *)
Definition nested (dev : list object) (a t : string) : Prop :=
  exists c off rep objs, search_object a dev = Some (OBlock c a off rep objs) /\ block_ref_in t objs.

(* a ref is "nested inside its own target, directly or through other block refs" iff the relation
   [nested] has a cycle.  For a finite tree, absence of cycles = existence of a rank that strictly
   decreases along [nested]. *)
Definition acyclic (dev : list object) : Prop :=
  exists rank : string -> nat, forall a t, nested dev a t -> (rank t < rank a)%nat.

Inductive nested_plus (dev : list object) : string -> string -> Prop :=
| np_one a t : nested dev a t -> nested_plus dev a t
| np_step a m t : nested dev a m -> nested_plus dev m t -> nested_plus dev a t.

Definition cyclic (dev : list object) : Prop := exists a, nested_plus dev a a.

(* --- what ensure_no_recursive_block_refs must reject, written from the description of the repair
   (independent of the worklist of rec_walk) ---
   [instantiates os p q]: some block named p (os = pre-order list) has, as a DIRECT child, a sub block
   named q or a block ref whose target is q. *)
Inductive reaches (R : string -> string -> Prop) : string -> string -> Prop :=
| reaches_refl a : reaches R a a
| reaches_step a b c : R a b -> reaches R b c -> reaches R a c.

Definition instantiates (os : list object) (p q : string) : Prop :=
  exists c off rep objs ch, In (OBlock c p off rep objs) os /\ In ch objs /\
    ((exists c' off' rep' objs', ch = OBlock c' q off' rep' objs') \/
     (exists c' r a rp, ch = ORef c' r (OvBlock q a rp))).

(* a block ref r, direct child of a block p, whose target t instantiates — in zero or more steps — p *)
Definition recursive_site (os : list object) (r p t : string) : Prop :=
  (exists c off rep objs cr a rp,
     In (OBlock c p off rep objs) os /\ In (ORef cr r (OvBlock t a rp)) objs) /\
  reaches (instantiates os) t p.

Definition recursive_in (os : list object) : Prop := exists r p t, recursive_site os r p t.

Definition recursive_block_ref (dev : list object) : Prop := recursive_in (preorder_objects dev).

(* executable cycle test used by the pipeline model: lower with fuel (tree size + 1)^2 *)
Definition tree_size (objs : list object) : nat :=
  fold_right (fun o acc => object_size o + acc)%nat O objs.

Definition enough_fuel (objs : list object) : nat := S (tree_size objs) * S (tree_size objs).

(* ====================== front-end rejections (before the MIR exists) ======================
   Abstract description of the thing written after `ref X =` (DSL) / under "override" (manifest). *)

Record ov_shape := {
  os_kind : okind;                 (* block / register / command / buffer / ref *)
  os_attrs : bool;                 (* DSL: #[cfg]/#[doc] attribute on the override *)
  os_items : list string;          (* DSL: item names in source order (ByteOrder, Address, ...);
                                      manifest: keys in source order *)
  os_fields : bool;                (* DSL register: non-empty field list *)
  os_in : bool; os_out : bool;     (* DSL command: `in {..}` / `out {..}` present *)
  os_objects : bool;               (* DSL block: objects present *)
  os_basic : bool;                 (* DSL command: `= <address>` form *)
  os_novalue : bool                (* DSL command: neither `= addr` nor `{ }` *)
}.

Definition dsl_reg_forbidden : list string := ["ByteOrder"; "BitOrder"; "SizeBits"; "AllowBitOverlap"].
Definition dsl_cmd_forbidden : list string :=
  ["ByteOrder"; "BitOrder"; "SizeBitsIn"; "SizeBitsOut"; "AllowBitOverlap"].

Definition first_forbidden (forbidden items : list string) : option string :=
  find (fun i => mem_str i forbidden) items.

(* dsl_hir/mir_transform.rs: transform_ref + transform_{block,register,command}_override *)
Definition front_dsl (ref_name : string) (s : ov_shape) : option gen_error :=
  match os_kind s with
  | KBuffer => Some (mk_err "dsl_ref_buffer" [ref_name])
  | KRef => Some (mk_err "dsl_ref_ref" [ref_name])
  | KBlock =>
    if os_attrs s then Some (mk_err "dsl_override_forbidden" ["block"])
    else if os_objects s then Some (mk_err "dsl_override_forbidden" ["block"])
    else None
  | KRegister =>
    if os_attrs s then Some (mk_err "dsl_override_forbidden" ["register"])
    else if os_fields s then Some (mk_err "dsl_override_forbidden" ["register"])
    else match first_forbidden dsl_reg_forbidden (os_items s) with
         | Some i => Some (mk_err "dsl_override_forbidden" [i; "register"])
         | None => None
         end
  | KCommand =>
    if os_attrs s then Some (mk_err "dsl_override_forbidden" ["command"])
    else if os_novalue s then Some (mk_err "dsl_override_value_required" [])
    else if os_basic s then Some (mk_err "dsl_override_forbidden" ["command"])
    else if os_in s then Some (mk_err "dsl_override_forbidden" ["command"])
    else if os_out s then Some (mk_err "dsl_override_forbidden" ["command"])
    else match first_forbidden dsl_cmd_forbidden (os_items s) with
         | Some i => Some (mk_err "dsl_override_forbidden" [i; "command"])
         | None => None
         end
  end.

Definition man_block_keys : list string := ["type"; "address_offset"; "repeat"].
Definition man_reg_keys : list string :=
  ["type"; "access"; "address"; "reset_value"; "repeat"; "allow_address_overlap"].
Definition man_cmd_keys : list string := ["type"; "address"; "repeat"; "allow_address_overlap"].

Definition first_unexpected (allowed keys : list string) : option gen_error :=
  match find (fun k => negb (mem_str k allowed)) keys with
  | Some k => Some (mk_err "manifest_unexpected_key" [k])
  | None => None
  end.

(* manifest/mod.rs: transform_object_override + transform_{block,register,command}_override *)
Definition front_manifest (s : ov_shape) : option gen_error :=
  match os_kind s with
  | KBuffer => Some (mk_err "manifest_ref_buffer" [])
  | KRef => Some (mk_err "manifest_ref_ref" [])
  | KBlock => first_unexpected man_block_keys (os_items s)
  | KRegister => first_unexpected man_reg_keys (os_items s)
  | KCommand => first_unexpected man_cmd_keys (os_items s)
  end.

(* spec side: the override names a buffer or a ref, or carries anything that is not one of the
   overridable (non-layout) properties *)
Definition dsl_reg_allowed : list string :=
  ["Access"; "Address"; "ResetValue"; "Repeat"; "AllowAddressOverlap"].
Definition dsl_cmd_allowed : list string := ["Address"; "Repeat"; "AllowAddressOverlap"].
Definition dsl_block_allowed : list string := ["AddressOffset"; "Repeat"].

Definition shape_ok_dsl (s : ov_shape) : Prop :=
  match os_kind s with
  | KBuffer | KRef => False
  | KBlock => os_attrs s = false /\ os_objects s = false
  | KRegister => os_attrs s = false /\ os_fields s = false /\
                 Forall (fun i => mem_str i dsl_reg_forbidden = false) (os_items s)
  | KCommand => os_attrs s = false /\ os_novalue s = false /\ os_basic s = false /\
                os_in s = false /\ os_out s = false /\
                Forall (fun i => mem_str i dsl_cmd_forbidden = false) (os_items s)
  end.

Definition shape_ok_manifest (s : ov_shape) : Prop :=
  match os_kind s with
  | KBuffer | KRef => False
  | KBlock => Forall (fun k => mem_str k man_block_keys = true) (os_items s)
  | KRegister => Forall (fun k => mem_str k man_reg_keys = true) (os_items s)
  | KCommand => Forall (fun k => mem_str k man_cmd_keys = true) (os_items s)
  end.

(* ====================== the name/reference part of the pipeline ====================== *)

(* names_normalized; names_unique; ...; refs_validated — as one decision.
   HISTORICAL: refs_validated before the repair of D11 (/repo df1ac90), i.e. without
   ensure_no_recursive_block_refs.  Kept for C14_self_ref_refuted. *)
Definition name_ref_check_before_d11_repair (d : device) : bool :=
  let d' := names_normalized d in
  match names_unique d' with
  | Some _ => false
  | None => refs_validated_ok d'
  end.

(* CURRENT: refs_validated = the three "refers to unknown" loops, then ensure_no_recursive_block_refs *)
Definition name_ref_check (d : device) : bool :=
  let d' := names_normalized d in
  match names_unique d' with
  | Some _ => false
  | None => refs_validated_ok d' && no_recursive_block_refs d'
  end.

(* ====================== SPEC (from the property text) ======================
   Stated on the tree the user wrote, through the normalisation functions only. *)

Definition cfg_free_variant (v : variant) : Prop := v_cfg v = None.
Definition cfg_free_field (f : field) : Prop :=
  f_cfg f = None /\
  match f_conv f with
  | Some (ConvEnum e _) => e_cfg e = None /\ Forall cfg_free_variant (e_variants e)
  | _ => True
  end.
Definition cfg_free_object (o : object) : Prop :=
  object_cfg o = None /\ Forall (Forall cfg_free_field) (object_field_sets o).
Definition cfg_free (d : device) : Prop := Forall cfg_free_object (preorder_objects (d_objects d)).

(* l = l1 ++ x :: l2 ++ y :: l3 with f x = f y : two (positionally distinct) elements share a key *)
Definition two_share {A} (key : A -> string) (l : list A) : Prop :=
  exists l1 x l2 y l3, l = (l1 ++ x :: l2 ++ y :: l3)%list /\ key x = key y.

Definition field_enums (fs : list field) : list enum_def :=
  flat_map (fun f => match f_conv f with Some (ConvEnum e _) => [e] | _ => [] end) fs.

Definition object_enums (o : object) : list enum_def := flat_map field_enums (object_field_sets o).

Definition device_enums (os : list object) : list enum_def := flat_map object_enums os.

Section Spec.
  (* the normalisation functions of the definition at hand *)
  Context (bs : list boundary).
  Let P := to_pascal bs.
  Let S := to_snake bs.

  (* two objects anywhere in the tree normalise to the same name *)
  Definition spec_dup_object (os : list object) : Prop := two_share (fun o => P (object_name o)) os.
  (* two fields of one field set share a (normalised) name *)
  Definition spec_dup_field (os : list object) : Prop :=
    exists o fs, In o os /\ In fs (object_field_sets o) /\ two_share (fun f => S (f_name f)) fs.
  (* two variants of one enum share a (normalised) name *)
  Definition spec_dup_variant (os : list object) : Prop :=
    exists e, In e (device_enums os) /\ two_share (fun v => P (v_name v)) (e_variants e).
  (* two generated enums share a (normalised) name *)
  Definition spec_dup_enum (os : list object) : Prop := two_share (fun e => P (e_name e)) (device_enums os).
  (* some ref's target does not exist among the objects of the override's kind *)
  Definition spec_bad_ref (os : list object) : Prop :=
    exists c n ov, In (ORef c n ov) os /\
      ~ exists o, In o os /\ object_kind o = override_kind ov /\
                  P (object_name o) = P (override_target ov).

  Definition spec_reject (os : list object) : Prop :=
    spec_dup_object os \/ spec_dup_field os \/ spec_dup_variant os \/ spec_dup_enum os \/ spec_bad_ref os.

  (* STRUCTURAL reason (not a naming one; the property text lists naming reasons only): a block ref that lies
     inside the block it refers to, directly or through sub blocks / other block refs — an infinitely deep
     device.  Same shape as [instantiates]/[recursive_site], on the tree the user wrote: names are compared
     after normalisation. *)
  Definition spec_instantiates (os : list object) (p q : string) : Prop :=
    exists c n off rep objs ch, In (OBlock c n off rep objs) os /\ P n = p /\ In ch objs /\
      ((exists c' n' off' rep' objs', ch = OBlock c' n' off' rep' objs' /\ P n' = q) \/
       (exists c' r t a rp, ch = ORef c' r (OvBlock t a rp) /\ P t = q)).

  Definition spec_recursive_ref (os : list object) : Prop :=
    exists c n off rep objs cr r t a rp,
      In (OBlock c n off rep objs) os /\ In (ORef cr r (OvBlock t a rp)) objs /\
      reaches (spec_instantiates os) (P t) (P n).
End Spec.

(* the naming reasons of the property text (the whole reject class before the repair of D11) *)
Definition C14_spec_reject_names (d : device) : Prop :=
  spec_reject (dev_boundaries d) (preorder_objects (d_objects d)).

Definition C14_spec_recursive_ref (d : device) : Prop :=
  spec_recursive_ref (dev_boundaries d) (preorder_objects (d_objects d)).

(* reject class of the current name / reference validation *)
Definition C14_spec_reject (d : device) : Prop :=
  C14_spec_reject_names d \/ C14_spec_recursive_ref d.

(* ====================== result strings for the correspondence check ====================== *)

Definition show_errors (l : list gen_error) : string := String.concat ";" (map show_error l).

Definition show_method (m : method) : string := fst m ++ ">" ++ snd m.
Definition show_lir_block (b : lir_block) : string :=
  fst b ++ "(" ++ String.concat "," (map show_method (snd b)) ++ ")".

(* outcome of the whole name/reference pipeline on the MIR the front end produced
     names_normalized, names_unique, [reset_values_converted's expects], refs_validated,
     device name, ref lowering.
   "oneof:" lists every error the HashMap iteration may surface first. *)
Definition c14_result (dev_name : string) (d : device) : string :=
  let d' := names_normalized d in
  match names_unique d' with
  | Some e => "error:" ++ show_error e
  | None =>
    match reset_pass_panic d' with
    | Some w => "panic:reset_ref_" ++ w
    | None =>
      match refs_candidates d' with
      | (_ :: _) as l => "oneof:" ++ show_errors l
      | [] =>
        match device_name_check dev_name with
        | Some e => "error:" ++ show_error e
        | None =>
          match lower (enough_fuel (d_objects d')) dev_name (d_objects d') with
          | Ok bl => "ok:" ++ String.concat " " (map show_lir_block bl)
          | Fail OutOfFuel => "abort:unbounded_ref_lowering"
          | Fail _ => "panic:lowering"
          end
        end
      end
    end
  end.

(* every normalised name of a device, in a fixed order (objects pre-order; per object: kind, name,
   method name; ref: target; per field: name; enum and variant names) *)
Definition show_enum_names (e : enum_def) : string :=
  e_name e ++ "[" ++ String.concat "," (map v_name (e_variants e)) ++ "]".

Definition show_field_names (f : field) : string :=
  f_name f ++ match f_conv f with Some (ConvEnum e _) => "=" ++ show_enum_names e | _ => "" end.

Definition show_object_names (o : object) : string :=
  kind_word (object_kind o) ++ ":" ++ object_name o ++ ":" ++ to_snake_default (object_name o) ++
  match o with ORef _ _ ov => ">" ++ override_target ov | _ => "" end ++
  String.concat "" (map (fun fs => "{" ++ String.concat "," (map show_field_names fs) ++ "}") (object_field_sets o)).

Definition c14_names (d : device) : string :=
  String.concat ";" (map show_object_names (preorder_objects (d_objects (names_normalized d)))).

(* the boundaries the front end derived (Boundary::list_from for the string form), re-derived *)
Definition c14_list_from (s : string) : string := show_boundaries (list_from (la s)).

(* names observable inside error messages: first variant | enum | object | field, and ref | target *)
Definition c14_probe (d : device) : string :=
  match preorder_objects (d_objects (names_normalized d)) with
  | o :: _ =>
    match object_field_sets o with
    | (f :: _) :: _ =>
      match f_conv f with
      | Some (ConvEnum e _) =>
        match e_variants e with
        | v :: _ => v_name v ++ "|" ++ e_name e ++ "|" ++ object_name o ++ "|" ++ f_name f
        | [] => "?"
        end
      | _ => "?"
      end
    | _ => "?"
    end
  | [] => "?"
  end.

Definition c14_probe_ref (d : device) : string :=
  match preorder_objects (d_objects (names_normalized d)) with
  | ORef _ n ov :: _ => n ++ "|" ++ override_target ov
  | _ => "?"
  end.

(* field sets (struct name, getter names, new_as_<ref> constructors) and generated enums of an accepted
   definition, in emission order *)
Definition show_set (n : string) (fs : list field) : string :=
  n ++ "(" ++ String.concat "," (map f_name fs) ++ ")".

Definition ref_resets (os : list object) (target : string) : list string :=
  flat_map (fun o => match o with
                     | ORef _ n (OvRegister t _ _ _ (Some _) _) =>
                       if String.eqb t target then ["new_as_" ++ to_snake_default n] else []
                     | _ => []
                     end) os.

Definition show_sets_object (os : list object) (o : object) : list string :=
  match o with
  | ORegister r => [show_set (rg_name r) (rg_fields r) ++ "[" ++ String.concat "," (ref_resets os (rg_name r)) ++ "]"]
  | OCommand c =>
    (if Z.eqb (cm_size_in c) 0 then [] else [show_set (cm_name c ++ "FieldsIn") (cm_in_fields c) ++ "[]"]) ++
    (if Z.eqb (cm_size_out c) 0 then [] else [show_set (cm_name c ++ "FieldsOut") (cm_out_fields c) ++ "[]"])
  | _ => []
  end.

Definition c14_facts (d : device) : string :=
  let os := preorder_objects (d_objects (names_normalized d)) in
  "sets:" ++ String.concat " " (flat_map (show_sets_object os) os) ++
  " enums:" ++ String.concat " " (map show_enum_names (device_enums os)).

Definition c14_full (dev_name : string) (d : device) : string :=
  c14_result dev_name d ++ " ## " ++ c14_facts d.

(* Pass order after the repair of D14 (/repo 0a1d247): refs_validated runs BEFORE reset_values_converted,
   so a dangling / wrong-kind target is always reported by refs_validated and the `expect`s of the reset
   pass are unreachable for it. *)
Definition c14_result_refs_first (dev_name : string) (d : device) : string :=
  let d' := names_normalized d in
  match names_unique d' with
  | Some e => "error:" ++ show_error e
  | None =>
    match refs_candidates d' with
    | (_ :: _) as l => "oneof:" ++ show_errors l
    | [] =>
      match reset_pass_panic d' with
      | Some w => "panic:reset_ref_" ++ w
      | None =>
        match device_name_check dev_name with
        | Some e => "error:" ++ show_error e
        | None =>
          match lower (enough_fuel (d_objects d')) dev_name (d_objects d') with
          | Ok bl => "ok:" ++ String.concat " " (map show_lir_block bl)
          | Fail OutOfFuel => "abort:unbounded_ref_lowering"
          | Fail _ => "panic:lowering"
          end
        end
      end
    end
  end.

Definition c14_full_refs_first (dev_name : string) (d : device) : string :=
  c14_result_refs_first dev_name d ++ " ## " ++ c14_facts d.

(* After the repairs of D14 (0a1d247: refs_validated first), D11 (df1ac90: refs_validated ends with
   ensure_no_recursive_block_refs) and D9 (7e1bb11: a block ref is lowered to an accessor only): the CURRENT
   name / reference pipeline.  "abort:recursion_check_fuel" cannot occur (NamesProofs.recursive_check_total);
   it is printed rather than hidden so that a wrong bound would show up as a disagreement. *)
Definition c14_result_repaired (dev_name : string) (d : device) : string :=
  let d' := names_normalized d in
  match names_unique d' with
  | Some e => "error:" ++ show_error e
  | None =>
    match refs_candidates d' with
    | (_ :: _) as l => "oneof:" ++ show_errors l
    | [] =>
      match recursive_block_refs d' with
      | Fail _ => "abort:recursion_check_fuel"
      | Ok (Some e) => "error:" ++ show_error e
      | Ok None =>
        match reset_pass_panic d' with
        | Some w => "panic:reset_ref_" ++ w
        | None =>
          match device_name_check dev_name with
          | Some e => "error:" ++ show_error e
          | None =>
            match lower_accessor dev_name (d_objects d') with
            | Ok bl => "ok:" ++ String.concat " " (map show_lir_block bl)
            | Fail _ => "panic:lowering"
            end
          end
        end
      end
    end
  end.

Definition c14_full_repaired (dev_name : string) (d : device) : string :=
  c14_result_repaired dev_name d ++ " ## " ++ c14_facts d.
