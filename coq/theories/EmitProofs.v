From Coq Require Import ZArith List Bool String Lia.
From DD Require Import Common Mir GenErr Layout FieldSetGen Emit.
Import ListNotations.
Open Scope Z_scope.

(* Without block refs the emitted block structs are exactly the declared blocks, once each. *)
Fixpoint declared_blocks (fuel : nat) (objs : list object) : list string :=
  match fuel with
  | O => []
  | S f => flat_map (fun o => match o with OBlock _ n _ _ inner => n :: declared_blocks f inner | _ => [] end) objs
  end.

Definition no_block_ref_in (o : object) : bool :=
  match o with ORef _ _ (OvBlock _ _ _) => false | _ => true end.

Fixpoint no_block_refs (fuel : nat) (objs : list object) : bool :=
  match fuel with
  | O => true
  | S f => forallb (fun o => no_block_ref_in o &&
                             match o with OBlock _ _ _ _ inner => no_block_refs f inner | _ => true end) objs
  end.

(* since the repair of D9 this holds for every tree, block refs included *)
Lemma block_structs_declared fuel all : forall objs,
  block_structs fuel all objs = declared_blocks fuel objs.
Proof.
  induction fuel as [|f IH]; intros objs; [reflexivity|].
  cbn [block_structs declared_blocks].
  induction objs as [|o t IHt]; [reflexivity|].
  cbn [flat_map]. rewrite IHt. f_equal.
  destruct o as [c n off rep inner | r | c | b | c n ov]; try reflexivity.
  rewrite IH. reflexivity.
Qed.

(* before the repair it held only without block refs *)
Lemma block_structs_before_repair_declared fuel all : forall objs,
  no_block_refs fuel objs = true -> block_structs_before_repair fuel all objs = declared_blocks fuel objs.
Proof.
  induction fuel as [|f IH]; intros objs H; [reflexivity|].
  cbn [block_structs_before_repair declared_blocks no_block_refs] in *.
  induction objs as [|o t IHt]; [reflexivity|].
  cbn [flat_map forallb] in *. apply andb_true_iff in H as [Ho Ht].
  rewrite IHt by assumption. f_equal.
  apply andb_true_iff in Ho as [Hn Hin].
  destruct o as [c n off rep inner | r | c | b | c n ov]; try reflexivity.
  - rewrite IH by assumption. reflexivity.
  - destruct ov; [discriminate|reflexivity|reflexivity].
Qed.

Theorem wf_output_partial driver d :
  nodup_str (driver :: declared_blocks (tree_fuel d) (d_objects d) ++ map (fun x => e_name (fst (fst x))) (enums_of d)) = true ->
  nodup_str (field_set_type_names d) = true ->
  forallb (fun f => readable (f_access f)) (all_fields d) = true ->
  forallb enum_literals_ok (enums_of d) = true ->
  namespaces_ok driver d = true ->
  keyword_free driver d = true ->
  address_literals_ok driver d = true ->
  wf_output driver d = true.
Proof.
  intros Hn1 Hn2 Hr He Hns Hk Ha. unfold wf_output, toplevel_type_names, debug_refs_resolve.
  rewrite block_structs_declared. rewrite Hn1, Hn2, Hr, He, Hns, Hk, Ha. reflexivity.
Qed.

(* forallb of a conjunction *)
Lemma forallb_and3 {A} (f g h : A -> bool) (l : list A) :
  forallb (fun x => f x && g x && h x) l = forallb f l && forallb g l && forallb h l.
Proof.
  induction l as [|a t IH]; [reflexivity|]. cbn [forallb]. rewrite IH.
  destruct (f a), (g a), (h a), (forallb f t), (forallb g t), (forallb h t); reflexivity.
Qed.

(* the tags the check compares with rustc are exactly the conjuncts of wf_output that are not implied by the name checks *)
Theorem no_failing_obligation_iff driver d :
  (failing_obligations driver d = [] <->
   debug_refs_resolve d = true /\ forallb enum_literals_ok (enums_of d) = true /\
   namespaces_ok driver d = true /\ keyword_free driver d = true /\ address_literals_ok driver d = true).
Proof.
  unfold failing_obligations, address_literals_ok.
  unfold enum_literals_ok. rewrite forallb_and3.
  destruct (debug_refs_resolve d), (forallb enum_dup_free (enums_of d)), (forallb enum_unsigned_ok (enums_of d)),
           (forallb enum_signed_ok (enums_of d)), (namespaces_ok driver d), (keyword_free driver d),
           (address_literals_sign_ok driver d), (address_literals_range_ok driver d);
    cbn; split; intros H; try discriminate; try reflexivity; try (repeat split; reflexivity);
    try (destruct H as (? & ? & ? & ? & ?); discriminate).
Qed.

(* wf_output true -> nothing is tagged *)
Theorem wf_output_no_tags driver d :
  wf_output driver d = true -> failing_obligations driver d = [].
Proof.
  intros H. apply no_failing_obligation_iff.
  unfold wf_output in H. repeat (apply andb_true_iff in H as [H ?]). repeat split; assumption.
Qed.
