(* BitsSpec.v — the documented physical layout (book/src/memory.md and the text of
   property C01), written independently of ops.rs. *)
From Coq Require Import ZArith List Bool Lia.
From DD Require Import Common Carrier Bits.
Import ListNotations.
Open Scope Z_scope.

(* "bytes are counted from the front of the transferred array under LE and from its
   back under BE" *)
Definition phys_byte (bo : byte_order) (len k : Z) : Z :=
  match bo with LE => k / 8 | BE => len - 1 - k / 8 end.

(* "bits are counted from the least-significant end under LSB0 and from the
   most-significant end under MSB0" *)
Definition phys_bit (bito : bit_order) (k : Z) : Z :=
  match bito with LSB0 => k mod 8 | MSB0 => 7 - k mod 8 end.

(* set-bit k of a field set *)
Definition setbit (bo : byte_order) (bito : bit_order) (data : list Z) (k : Z) : bool :=
  Z.testbit (nth (Z.to_nat (phys_byte bo (Z.of_nat (length data)) k)) data 0) (phys_bit bito k).

(* the part of [s,e) lying in the byte that holds k *)
Definition chunk_lo (s k : Z) : Z := Z.max s (8 * (k / 8)).
Definition chunk_hi (e k : Z) : Z := Z.min e (8 * (k / 8) + 8).

(* mirror of set-bit k inside its chunk: "the part of the field inside one byte keeps
   its natural significance" under MSB0 *)
Definition mirror (bito : bit_order) (s e k : Z) : Z :=
  match bito with
  | LSB0 => k
  | MSB0 => chunk_lo s k + chunk_hi e k - 1 - k
  end.

(* value bit j of a field over [s,e) is set-bit [field_pos j] *)
Definition field_pos (bito : bit_order) (s e j : Z) : Z := mirror bito s e (s + j).

(* executable spec of a load: sum over j of 2^j * setbit(field_pos j) *)
Fixpoint spec_load_n (n : nat) (bo : byte_order) (bito : bit_order) (data : list Z) (s e : Z) : Z :=
  match n with
  | O => 0
  | S m =>
    let acc := spec_load_n m bo bito data s e in
    if setbit bo bito data (field_pos bito s e (Z.of_nat m)) then Z.setbit acc (Z.of_nat m) else acc
  end.

Definition spec_load (bo : byte_order) (bito : bit_order) (data : list Z) (s e : Z) : Z :=
  spec_load_n (Z.to_nat (e - s)) bo bito data s e.

(* two's-complement reading of a w-bit pattern *)
Definition signed_of (w p : Z) : Z := if 2 ^ (w - 1) <=? p mod 2 ^ w then p mod 2 ^ w - 2 ^ w else p mod 2 ^ w.

(* what a store must achieve, bit by bit *)
Definition store_post (bo : byte_order) (bito : bit_order) (v s e : Z) (data data' : list Z) : Prop :=
  length data' = length data /\
  Forall (fun b => 0 <= b < 256) data' /\
  forall k, 0 <= k < 8 * Z.of_nat (length data) ->
    setbit bo bito data' k =
      if (s <=? k) && (k <? e) then Z.testbit v (mirror bito s e k - s) else setbit bo bito data k.

Definition bytes_ok (data : list Z) : Prop := Forall (fun b => 0 <= b < 256) data.
