(* Common.v — outcome monad, machine integer descriptions, list utilities.
   Shared by every model file.  No proofs of properties live here. *)
From Coq Require Import ZArith List Bool Lia.
Import ListNotations.
Open Scope Z_scope.

(* What the real code does instead of returning: kept distinct so that no theorem is
   made true by a totalised default. *)
Inductive failkind :=
| OOB          (* get_unchecked outside the slice: undefined behaviour *)
| ShiftOvf     (* shift amount >= width of the type: panic (debug) / masked (release) *)
| Underflow    (* usize subtraction below zero: panic (debug) / wrap (release) *)
| Overflow     (* integer overflow in address arithmetic *)
| AssertFail   (* assert!/panic! reached *)
| OutOfFuel.   (* model artefact: excluded by fuel lemmas, never by definition *)

Inductive outcome (A : Type) :=
| Ok (a : A)
| Fail (k : failkind).
Arguments Ok {A} a.
Arguments Fail {A} k.

Definition bind {A B} (x : outcome A) (f : A -> outcome B) : outcome B :=
  match x with Ok a => f a | Fail k => Fail k end.

Notation "'do' x <- a ; b" := (bind a (fun x => b))
  (at level 200, x name, a at level 100, b at level 200).

Definition is_ok {A} (x : outcome A) : bool :=
  match x with Ok _ => true | Fail _ => false end.

(* Machine integer types *)
Record ity := { signed : bool; bits : Z }.

Definition ity_min (t : ity) : Z := if signed t then - 2 ^ (bits t - 1) else 0.
Definition ity_max (t : ity) : Z := if signed t then 2 ^ (bits t - 1) - 1 else 2 ^ bits t - 1.
Definition in_range (t : ity) (z : Z) : bool := (ity_min t <=? z) && (z <=? ity_max t).

(* `as` cast into type t of an arbitrary mathematical integer *)
Definition wrap (t : ity) (z : Z) : Z :=
  let m := z mod 2 ^ bits t in
  if signed t && (2 ^ (bits t - 1) <=? m) then m - 2 ^ bits t else m.

(* list update *)
Fixpoint set_nth {A} (n : nat) (x : A) (l : list A) : list A :=
  match l with
  | [] => []
  | y :: t => match n with O => x :: t | S m => y :: set_nth m x t end
  end.
