(* BitsProofs.v — the model of ops.rs (Bits.v) satisfies the documented layout
   (BitsSpec.v) for every byte order, bit order, carrier, buffer length and in-bounds
   range.  Unbounded: induction on the loop fuel with bit-level invariants. *)
From Coq Require Import ZArith List Bool Lia ZifyBool.
From DD Require Import Common Carrier Bits BitsSpec.
From DDGen Require Import Dedup.
Import ListNotations.
Open Scope Z_scope.
Ltac Zify.zify_post_hook ::= Z.div_mod_to_equations.

(* ---------- small bit facts ---------- *)

Lemma testbit_1 k : 0 <= k -> Z.testbit 1 k = (k =? 0).
Proof.
  intros. destruct (Z.eqb_spec k 0) as [->|]; [reflexivity|].
  apply Z.bits_above_log2; simpl; lia.
Qed.

Lemma byte_high_bits b k : 0 <= b < 256 -> 8 <= k -> Z.testbit b k = false.
Proof.
  intros [H0 H1] Hk. destruct (Z.eq_dec b 0) as [->|Hn]; [apply Z.testbit_0_l|].
  apply Z.bits_above_log2; [lia|]. apply Z.log2_lt_pow2; [lia|].
  apply Z.lt_le_trans with (2^8); [lia|]. apply Z.pow_le_mono_r; lia.
Qed.

Lemma bits_lt_256 x : 0 <= x -> (forall c, 8 <= c -> Z.testbit x c = false) -> x < 256.
Proof.
  intros Hx Hb. destruct (Z_lt_ge_dec x 256) as [|Hge]; [assumption|exfalso].
  assert (Hpos : 0 < x) by lia.
  pose proof (Z.bit_log2 x Hpos) as Ht.
  assert (8 <= Z.log2 x).
  { change 8 with (Z.log2 256). apply Z.log2_le_mono. lia. }
  rewrite Hb in Ht by assumption. discriminate.
Qed.

Lemma clear_mask b : 0 <= b < 8 -> 255 - Z.shiftl 1 b = Z.clearbit 255 b.
Proof.
  intros H.
  assert (b = 0 \/ b = 1 \/ b = 2 \/ b = 3 \/ b = 4 \/ b = 5 \/ b = 6 \/ b = 7) as Hc by lia.
  destruct Hc as [->|[->|[->|[->|[->|[->|[->| ->]]]]]]]; reflexivity.
Qed.

Lemma testbit_255 c : 0 <= c -> Z.testbit 255 c = (c <? 8).
Proof. intros. change 255 with (Z.ones 8). apply Z.testbit_ones_nonneg; lia. Qed.

(* the byte written by the bit-by-bit path *)
Lemma newbyte_bits byte bit b c :
  0 <= byte < 256 -> 0 <= b < 8 -> (bit = 0 \/ bit = 1) -> 0 <= c ->
  Z.testbit (Z.lor (Z.land byte (255 - Z.shiftl 1 b)) (Z.shiftl bit b)) c =
  if c =? b then (bit =? 1) else Z.testbit byte c.
Proof.
  intros Hbyte Hb Hbit Hc.
  rewrite Z.lor_spec, Z.land_spec, clear_mask by assumption.
  rewrite Z.clearbit_eqb, testbit_255 by assumption.
  rewrite Z.shiftl_spec by assumption.
  destruct (Z.eqb_spec c b) as [->|Hne].
  - rewrite Z.eqb_refl. cbn [negb]. rewrite andb_false_r, andb_false_r. cbn [orb].
    replace (b - b) with 0 by lia.
    destruct Hbit as [->| ->]; reflexivity.
  - destruct (Z.eqb_spec b c); [lia|]. cbn [negb]. rewrite andb_true_r.
    assert (Z.testbit bit (c - b) = false) as ->.
    { destruct Hbit as [->| ->]; [apply Z.testbit_0_l|].
      destruct (Z_lt_ge_dec (c - b) 0); [apply Z.testbit_neg_r; lia|].
      rewrite testbit_1 by lia. destruct (Z.eqb_spec (c - b) 0); [lia|reflexivity]. }
    rewrite orb_false_r.
    destruct (Z.ltb_spec c 8); [apply andb_true_r|].
    rewrite andb_false_r. symmetry. apply byte_high_bits; lia.
Qed.

Lemma newbyte_range byte bit b :
  0 <= byte < 256 -> 0 <= b < 8 -> (bit = 0 \/ bit = 1) ->
  0 <= Z.lor (Z.land byte (255 - Z.shiftl 1 b)) (Z.shiftl bit b) < 256.
Proof.
  intros Hbyte Hb Hbit.
  assert (0 <= Z.lor (Z.land byte (255 - Z.shiftl 1 b)) (Z.shiftl bit b)) as Hnn.
  { apply Z.lor_nonneg. split.
    - apply Z.land_nonneg. left. lia.
    - apply Z.shiftl_nonneg. destruct Hbit; lia. }
  split; [assumption|].
  apply bits_lt_256; [assumption|].
  intros c Hc. rewrite newbyte_bits by (try assumption; lia).
  destruct (Z.eqb_spec c b); [lia|]. apply byte_high_bits; lia.
Qed.

(* ---------- pivot ---------- *)

Lemma pivot_spec s e i :
  0 <= s -> s <= i < e ->
  (i / 8 = s / 8 \/ (i / 8 = (e - 1) / 8 /\ e mod 8 <> 0)) ->
  pivot_msb0 s e i = Ok (mirror MSB0 s e i).
Proof.
  intros Hs Hi Hinv. unfold pivot_msb0, mirror, chunk_lo, chunk_hi, next_mult8, b2z.
  destruct (i / 8 =? s / 8) eqn:E1; cbn [bind].
  - destruct ((s + 1) mod 8 =? 0) eqn:E2;
    match goal with |- context [ (?x mod 2 =? 0) ] => destruct (x mod 2 =? 0) eqn:E3 end;
    match goal with |- context [ (?x <=? 0) ] => destruct (x <=? 0) eqn:E4 end;
    match goal with |- context [ (0 <? ?x) ] => destruct (0 <? x) eqn:E5 end;
    match goal with |- context [ (?x <? 0) ] => destruct (x <? 0) eqn:E6 end;
    try (f_equal; lia); exfalso; lia.
  - destruct (e - 8 <? 0) eqn:E0; [exfalso; lia|].
    destruct ((e - 8) mod 8 =? 0) eqn:E2;
    (match goal with |- context [ (?x <? 0) ] => destruct (x <? 0) eqn:E7 end; [exfalso; lia|]);
    cbn [bind];
    match goal with |- context [ (?x mod 2 =? 0) ] => destruct (x mod 2 =? 0) eqn:E3 end;
    match goal with |- context [ (?x <=? 0) ] => destruct (x <=? 0) eqn:E4 end;
    match goal with |- context [ (0 <? ?x) ] => destruct (0 <? x) eqn:E5 end;
    match goal with |- context [ (?x <? 0) ] => destruct (x <? 0) eqn:E6 end;
    try (f_equal; lia); exfalso; lia.
Qed.

(* ---------- mirror is an involution that stays inside the byte and the field ---------- *)

Lemma mirror_range bito s e k : 0 <= s -> s <= k < e ->
  s <= mirror bito s e k < e /\ mirror bito s e k / 8 = k / 8.
Proof. intros; destruct bito; unfold mirror, chunk_lo, chunk_hi; lia. Qed.

Lemma mirror_invol bito s e k : 0 <= s -> s <= k < e ->
  mirror bito s e (mirror bito s e k) = k.
Proof.
  intros; destruct bito; unfold mirror; [reflexivity|].
  assert ((chunk_lo s k + chunk_hi e k - 1 - k) / 8 = k / 8) as Hq
    by (unfold chunk_lo, chunk_hi; lia).
  unfold chunk_lo, chunk_hi in *. rewrite Hq. lia.
Qed.

(* ---------- physical byte access ---------- *)

Lemma get_byte_ok bo data k :
  0 <= k < 8 * Z.of_nat (length data) ->
  get_byte bo data k = Ok (nth (Z.to_nat (phys_byte bo (Z.of_nat (length data)) k)) data 0) /\
  0 <= phys_byte bo (Z.of_nat (length data)) k < Z.of_nat (length data).
Proof.
  intros Hk. set (L := Z.of_nat (length data)) in *.
  assert (Hr : 0 <= phys_byte bo L k < L) by (destruct bo; unfold phys_byte; lia).
  split; [|exact Hr].
  unfold get_byte, get_byte_index. fold L.
  assert (Hnth : forall idx, 0 <= idx < L ->
            nth_error data (Z.to_nat idx) = Some (nth (Z.to_nat idx) data 0)).
  { intros idx Hidx. apply nth_error_nth'. unfold L in Hidx. lia. }
  destruct bo; unfold phys_byte in *; cbn [bind].
  - rewrite Hnth by lia. reflexivity.
  - destruct (L - k / 8 - 1 <? 0) eqn:E; [lia|]. cbn [bind].
    replace (L - k / 8 - 1) with (L - 1 - k / 8) by lia.
    rewrite Hnth by lia. reflexivity.
Qed.

Lemma put_byte_ok bo data k b :
  0 <= k < 8 * Z.of_nat (length data) ->
  put_byte bo data k b = Ok (set_nth (Z.to_nat (phys_byte bo (Z.of_nat (length data)) k)) b data).
Proof.
  intros Hk. set (L := Z.of_nat (length data)) in *.
  unfold put_byte, get_byte_index. fold L.
  destruct bo; unfold phys_byte; cbn [bind].
  - destruct (k / 8 <? L) eqn:E; [reflexivity|lia].
  - destruct (L - k / 8 - 1 <? 0) eqn:E; [lia|]. cbn [bind].
    destruct (L - k / 8 - 1 <? L) eqn:E2; [|lia].
    replace (L - k / 8 - 1) with (L - 1 - k / 8) by lia. reflexivity.
Qed.

Lemma set_nth_length {A} n (x : A) l : length (set_nth n x l) = length l.
Proof. revert n; induction l as [|y t IH]; intros [|n]; cbn; auto. Qed.

Lemma nth_set_nth {A} n m (x d : A) l : (n < length l)%nat ->
  nth m (set_nth n x l) d = if Nat.eqb m n then x else nth m l d.
Proof.
  revert n m; induction l as [|y t IH]; intros [|n] [|m] H; cbn in *; try lia; auto.
  apply IH. lia.
Qed.

Lemma set_nth_Forall {A} (P : A -> Prop) n x l : P x -> Forall P l -> Forall P (set_nth n x l).
Proof.
  intros Hx Hl. revert n; induction Hl as [|y t Hy Ht IH]; intros [|n]; cbn; auto.
Qed.

Lemma phys_byte_eq bo L k k' : 0 <= k < 8 * L -> 0 <= k' < 8 * L ->
  (phys_byte bo L k = phys_byte bo L k' <-> k / 8 = k' / 8).
Proof. intros; destruct bo; unfold phys_byte; lia. Qed.

Lemma setbit_set_nth bo bito data i nb k :
  0 <= i < 8 * Z.of_nat (length data) -> 0 <= k < 8 * Z.of_nat (length data) ->
  setbit bo bito (set_nth (Z.to_nat (phys_byte bo (Z.of_nat (length data)) i)) nb data) k =
  if k / 8 =? i / 8 then Z.testbit nb (phys_bit bito k) else setbit bo bito data k.
Proof.
  intros Hi Hk. unfold setbit. rewrite set_nth_length.
  set (L := Z.of_nat (length data)) in *.
  assert (Hr : 0 <= phys_byte bo L i < L) by (destruct bo; unfold phys_byte; lia).
  assert (Hr' : 0 <= phys_byte bo L k < L) by (destruct bo; unfold phys_byte; lia).
  rewrite nth_set_nth by (subst L; lia).
  pose proof (phys_byte_eq bo L k i Hk Hi) as Heq.
  destruct (Z.eqb_spec (k / 8) (i / 8)) as [E|E].
  - apply Heq in E. rewrite E, Nat.eqb_refl. reflexivity.
  - destruct (Nat.eqb_spec (Z.to_nat (phys_byte bo L k)) (Z.to_nat (phys_byte bo L i))) as [E2|E2];
      [|reflexivity].
    exfalso. apply E. apply Heq. lia.
Qed.

Lemma nth_bytes_ok data n : bytes_ok data -> 0 <= nth n data 0 < 256.
Proof.
  intros H. unfold bytes_ok in H. rewrite Forall_forall in H.
  destruct (Nat.lt_ge_cases n (length data)) as [Hlt|Hge].
  - apply H. apply nth_In. assumption.
  - rewrite nth_overflow by assumption. lia.
Qed.

(* ---------- the loop invariant on the index ---------- *)

Definition loop_inv (s e i : Z) : Prop :=
  i / 8 = s / 8 \/ i mod 8 = 0 \/ (i / 8 = (e - 1) / 8 /\ e mod 8 <> 0).

Lemma target_pos_ok bito s e i :
  0 <= s -> s <= i < e -> loop_inv s e i -> ~ (i mod 8 = 0 /\ i + 8 <= e) ->
  target_pos bito s e i = Ok (mirror bito s e i).
Proof.
  intros Hs Hi Hinv Hslow. destruct bito; [reflexivity|].
  unfold target_pos. apply pivot_spec; try assumption.
  unfold loop_inv in Hinv. lia.
Qed.

Lemma loop_inv_fast s e i : i mod 8 = 0 -> loop_inv s e (i + 8).
Proof. intros. unfold loop_inv. right. left. lia. Qed.

Lemma loop_inv_slow s e i :
  s <= i < e -> loop_inv s e i -> ~ (i mod 8 = 0 /\ i + 8 <= e) -> loop_inv s e (i + 1).
Proof. unfold loop_inv. intros. lia. Qed.

Lemma shl_ok wd x n : 0 <= n < wd -> shl wd x n = Ok (Z.land (Z.shiftl x n) (Z.ones wd)).
Proof.
  intros. unfold shl. destruct (n <? 0) eqn:E1; [lia|]. destruct (wd <=? n) eqn:E2; [lia|]. reflexivity.
Qed.

Lemma shr_ok wd x n : 0 <= n < wd -> shr wd x n = Ok (Z.shiftr x n).
Proof.
  intros. unfold shr. destruct (n <? 0) eqn:E1; [lia|]. destruct (wd <=? n) eqn:E2; [lia|]. reflexivity.
Qed.

Lemma testbit_shl_masked wd x n j : 0 <= n -> 0 <= j -> 0 <= wd ->
  Z.testbit (Z.land (Z.shiftl x n) (Z.ones wd)) j = Z.testbit x (j - n) && (j <? wd).
Proof.
  intros. rewrite Z.land_spec, Z.shiftl_spec, Z.testbit_ones_nonneg by lia. reflexivity.
Qed.

Lemma testbit_land1 y c : 0 <= c -> Z.testbit (Z.land y 1) c = Z.testbit y c && (c =? 0).
Proof. intros. rewrite Z.land_spec, testbit_1 by assumption. reflexivity. Qed.

(* ---------- load ---------- *)

Lemma load_loop_inv fuel : forall bo bito wd data s e i out,
  bytes_ok data -> 0 <= s -> s <= i <= e -> e <= 8 * Z.of_nat (length data) -> e - s <= wd ->
  loop_inv s e i -> Z.of_nat fuel >= e - i ->
  (forall j, 0 <= j -> Z.testbit out j =
     (j <? e - s) && (mirror bito s e (s + j) <? i) && setbit bo bito data (mirror bito s e (s + j))) ->
  exists r, load_loop fuel bo bito wd data s e i out = Ok r /\
    forall j, 0 <= j -> Z.testbit r j = (j <? e - s) && setbit bo bito data (mirror bito s e (s + j)).
Proof.
  induction fuel as [|f IH]; intros bo bito wd data s e i out Hd Hs Hsi Hlen Hwd Hinv Hfuel Hout.
  - cbn [load_loop]. destruct (Z.ltb_spec i e); [lia|]. exists out; split; [reflexivity|].
    intros j Hj. rewrite Hout by lia.
    destruct (Z.ltb_spec j (e - s)) as [Hj2|]; [|reflexivity]. cbn [andb].
    pose proof (mirror_range bito s e (s + j) Hs ltac:(lia)) as [Hm _].
    destruct (Z.ltb_spec (mirror bito s e (s + j)) i); [reflexivity|lia].
  - cbn [load_loop]. destruct (Z.ltb_spec i e) as [Hlt|Hge].
    2:{ exists out; split; [reflexivity|]. intros j Hj. rewrite Hout by lia.
        destruct (Z.ltb_spec j (e - s)) as [Hj2|]; [|reflexivity]. cbn [andb].
        pose proof (mirror_range bito s e (s + j) Hs ltac:(lia)) as [Hm _].
        destruct (Z.ltb_spec (mirror bito s e (s + j)) i); [reflexivity|lia]. }
    destruct (get_byte_ok bo data i ltac:(lia)) as [Hgb Hpb]. rewrite Hgb. cbn [bind].
    set (byte := nth (Z.to_nat (phys_byte bo (Z.of_nat (length data)) i)) data 0) in *.
    assert (Hbyte : 0 <= byte < 256) by (apply nth_bytes_ok; assumption).
    destruct ((i mod 8 =? 0) && (i + 8 <=? e)) eqn:Hfast.
    + apply andb_true_iff in Hfast as [H8 He8]. apply Z.eqb_eq in H8. apply Z.leb_le in He8.
      rewrite shl_ok by lia. cbn [bind].
      apply IH; try assumption; try lia; [apply loop_inv_fast; assumption|].
      intros j Hj. rewrite Z.lor_spec, Hout, testbit_shl_masked by lia.
      destruct (Z.ltb_spec j (e - s)) as [Hj1|Hj1]; cbn [andb].
      2:{ rewrite byte_high_bits by lia. reflexivity. }
      pose proof (mirror_range bito s e (s + j) Hs ltac:(lia)) as [Hm Hmq].
      set (m := mirror bito s e (s + j)) in *.
      destruct (Z.ltb_spec j wd); [|lia]. rewrite andb_true_r.
      destruct (Z_lt_ge_dec (s + j) i) as [Hk|Hk].
      * (* already processed *)
        rewrite Z.testbit_neg_r with (n := j - (i - s)) by lia. rewrite orb_false_r.
        destruct (Z.ltb_spec m i); [|lia]. destruct (Z.ltb_spec m (i + 8)); [|lia]. reflexivity.
      * destruct (Z_lt_ge_dec (s + j) (i + 8)) as [Hk2|Hk2].
        -- (* the byte being processed *)
           destruct (Z.ltb_spec m i); [lia|]. destruct (Z.ltb_spec m (i + 8)); [|lia].
           cbn [andb orb]. unfold setbit.
           replace (phys_byte bo (Z.of_nat (length data)) m)
             with (phys_byte bo (Z.of_nat (length data)) i)
             by (apply phys_byte_eq; lia).
           fold byte. f_equal.
           subst m. destruct bito; unfold mirror, chunk_lo, chunk_hi, phys_bit in *; lia.
        -- (* later bytes *)
           destruct (Z.ltb_spec m i); [lia|]. destruct (Z.ltb_spec m (i + 8)); [lia|].
           cbn [andb orb]. apply byte_high_bits; lia.
    + assert (Hslow : ~ (i mod 8 = 0 /\ i + 8 <= e)).
      { intros [A B]. apply andb_false_iff in Hfast as [C|C]; [apply Z.eqb_neq in C|apply Z.leb_gt in C]; lia. }
      rewrite target_pos_ok by (try assumption; lia). cbn [bind].
      pose proof (mirror_range bito s e i Hs ltac:(lia)) as [Hmi Hmiq].
      rewrite shl_ok by lia. cbn [bind].
      apply IH; try assumption; try lia; [apply loop_inv_slow; try assumption; lia|].
      intros j Hj. rewrite Z.lor_spec, Hout, testbit_shl_masked by lia.
      destruct (Z_lt_ge_dec (j - (mirror bito s e i - s)) 0) as [Hneg|Hnn].
      * rewrite Z.testbit_neg_r with (n := j - (mirror bito s e i - s)) by lia.
        cbn [andb]. rewrite orb_false_r.
        destruct (Z.ltb_spec j (e - s)) as [Hj1|Hj1]; cbn [andb]; [|reflexivity].
        pose proof (mirror_range bito s e (s + j) Hs ltac:(lia)) as [Hm Hmq].
        assert (mirror bito s e (s + j) <> i).
        { intros Heq. pose proof (mirror_invol bito s e (s + j) Hs ltac:(lia)) as Hinvol.
          rewrite Heq in Hinvol. lia. }
        destruct (Z.ltb_spec (mirror bito s e (s + j)) i);
          destruct (Z.ltb_spec (mirror bito s e (s + j)) (i + 1)); try lia; reflexivity.
      * rewrite testbit_land1, Z.shiftr_spec by lia.
        destruct (Z.eqb_spec (j - (mirror bito s e i - s)) 0) as [Hz|Hnz].
        -- assert (Hjeq : s + j = mirror bito s e i) by lia.
           destruct (Z.ltb_spec j (e - s)); [|lia]. destruct (Z.ltb_spec j wd); [|lia].
           rewrite Hjeq, mirror_invol by (try assumption; lia).
           destruct (Z.ltb_spec i i); [lia|]. destruct (Z.ltb_spec i (i + 1)); [|lia].
           cbn [andb orb]. rewrite Hz. unfold setbit. fold byte.
           rewrite !andb_true_r. reflexivity.
        -- rewrite andb_false_r. cbn [andb]. rewrite orb_false_r.
           destruct (Z.ltb_spec j (e - s)) as [Hj1|Hj1]; cbn [andb]; [|reflexivity].
           pose proof (mirror_range bito s e (s + j) Hs ltac:(lia)) as [Hm Hmq].
           assert (mirror bito s e (s + j) <> i).
           { intros Heq. pose proof (mirror_invol bito s e (s + j) Hs ltac:(lia)) as Hinvol.
             rewrite Heq in Hinvol. lia. }
           destruct (Z.ltb_spec (mirror bito s e (s + j)) i);
             destruct (Z.ltb_spec (mirror bito s e (s + j)) (i + 1)); try lia; reflexivity.
Qed.

(* ---------- store ---------- *)

Lemma land1_b2z y : Z.land y 1 = Z.b2z (Z.testbit y 0).
Proof. change 1 with (Z.ones 1) at 1. rewrite Z.land_ones by lia. symmetry. apply Z.bit0_mod. Qed.

Lemma phys_bit_inj bito k k' : k / 8 = k' / 8 -> (phys_bit bito k = phys_bit bito k' <-> k = k').
Proof. intros; destruct bito; unfold phys_bit; lia. Qed.

Lemma phys_bit_range bito k : 0 <= phys_bit bito k < 8.
Proof. destruct bito; unfold phys_bit; lia. Qed.

Lemma store_loop_inv fuel : forall bo bito wd v s e i data0 data,
  bytes_ok data -> length data = length data0 ->
  0 <= s -> s <= i <= e -> e <= 8 * Z.of_nat (length data0) -> e - s <= wd ->
  loop_inv s e i -> Z.of_nat fuel >= e - i ->
  (forall k, 0 <= k < 8 * Z.of_nat (length data0) ->
     setbit bo bito data k =
       if (s <=? k) && (k <? i) then Z.testbit v (mirror bito s e k - s) else setbit bo bito data0 k) ->
  exists data', store_loop fuel bo bito wd v s e i data = Ok data' /\
    length data' = length data0 /\ bytes_ok data' /\
    forall k, 0 <= k < 8 * Z.of_nat (length data0) ->
     setbit bo bito data' k =
       if (s <=? k) && (k <? e) then Z.testbit v (mirror bito s e k - s) else setbit bo bito data0 k.
Proof.
  induction fuel as [|f IH]; intros bo bito wd v s e i data0 data Hd Hlen0 Hs Hsi Hlen Hwd Hinv Hfuel Hcur.
  - cbn [store_loop]. destruct (Z.ltb_spec i e); [lia|]. exists data. repeat split; try assumption.
    intros k Hk. rewrite Hcur by assumption. replace i with e by lia. reflexivity.
  - cbn [store_loop]. destruct (Z.ltb_spec i e) as [Hlt|Hge].
    2:{ exists data. repeat split; try assumption.
        intros k Hk. rewrite Hcur by assumption. replace i with e by lia. reflexivity. }
    assert (HL : Z.of_nat (length data) = Z.of_nat (length data0)) by (rewrite Hlen0; reflexivity).
    destruct (get_byte_ok bo data i ltac:(lia)) as [Hgb Hpb]. rewrite Hgb. cbn [bind].
    set (byte := nth (Z.to_nat (phys_byte bo (Z.of_nat (length data)) i)) data 0) in *.
    assert (Hbyte : 0 <= byte < 256) by (apply nth_bytes_ok; assumption).
    destruct ((i mod 8 =? 0) && (i + 8 <=? e)) eqn:Hfast.
    + apply andb_true_iff in Hfast as [H8 He8]. apply Z.eqb_eq in H8. apply Z.leb_le in He8.
      rewrite shr_ok by lia. cbn [bind]. rewrite put_byte_ok by lia. cbn [bind].
      apply IH; try assumption; try lia.
      * apply set_nth_Forall; [|assumption]. apply Z.mod_pos_bound. lia.
      * rewrite set_nth_length. assumption.
      * apply loop_inv_fast; assumption.
      * intros k Hk. rewrite setbit_set_nth by lia.
        destruct (Z.eqb_spec (k / 8) (i / 8)) as [Hq|Hq].
        -- destruct (Z.leb_spec s k); [|lia]. destruct (Z.ltb_spec k (i + 8)); [|lia]. cbn [andb].
           pose proof (phys_bit_range bito k) as Hpr.
           change 256 with (2 ^ 8). rewrite Z.mod_pow2_bits_low by lia.
           rewrite Z.shiftr_spec by lia. f_equal.
           destruct bito; unfold mirror, chunk_lo, chunk_hi, phys_bit in *; lia.
        -- rewrite Hcur by assumption.
           destruct (Z.leb_spec s k); cbn [andb]; [|reflexivity].
           destruct (Z.ltb_spec k i); destruct (Z.ltb_spec k (i + 8)); try lia; reflexivity.
    + assert (Hslow : ~ (i mod 8 = 0 /\ i + 8 <= e)).
      { intros [A B]. apply andb_false_iff in Hfast as [C|C]; [apply Z.eqb_neq in C|apply Z.leb_gt in C]; lia. }
      rewrite target_pos_ok by (try assumption; lia). cbn [bind].
      pose proof (mirror_range bito s e i Hs ltac:(lia)) as [Hmi Hmiq].
      rewrite shr_ok by lia. cbn [bind]. rewrite put_byte_ok by lia. cbn [bind].
      set (x := Z.shiftr v (mirror bito s e i - s)) in *.
      set (bit := Z.land (x mod 256) 1) in *.
      assert (Hbit : bit = 0 \/ bit = 1).
      { subst bit. rewrite land1_b2z. destruct (Z.testbit (x mod 256) 0); cbn; lia. }
      assert (Hbitv : (bit =? 1) = Z.testbit v (mirror bito s e i - s)).
      { subst bit. rewrite land1_b2z. change 256 with (2 ^ 8). rewrite Z.mod_pow2_bits_low by lia.
        subst x. rewrite Z.shiftr_spec by lia. cbn [Z.add].
        destruct (Z.testbit v (mirror bito s e i - s)); reflexivity. }
      pose proof (phys_bit_range bito i) as Hbi.
      apply IH; try assumption; try lia.
      * apply set_nth_Forall; [|assumption]. apply newbyte_range; assumption.
      * rewrite set_nth_length. assumption.
      * apply loop_inv_slow; try assumption; lia.
      * intros k Hk. rewrite setbit_set_nth by lia.
        destruct (Z.eqb_spec (k / 8) (i / 8)) as [Hq|Hq].
        -- pose proof (phys_bit_range bito k) as Hpr.
           unfold bit_in_byte. fold (phys_bit bito i).
           rewrite newbyte_bits by (try assumption; lia).
           pose proof (phys_bit_inj bito k i Hq) as Hinj.
           destruct (Z.eqb_spec (phys_bit bito k) (phys_bit bito i)) as [Hpe|Hpe].
           ++ apply Hinj in Hpe. subst k.
              destruct (Z.leb_spec s i); [|lia]. destruct (Z.ltb_spec i (i + 1)); [|lia]. cbn [andb].
              exact Hbitv.
           ++ assert (k <> i) by (intros ->; apply Hpe; reflexivity).
              transitivity (setbit bo bito data k).
              { unfold setbit. subst byte.
                replace (phys_byte bo (Z.of_nat (length data)) k)
                  with (phys_byte bo (Z.of_nat (length data)) i)
                  by (apply phys_byte_eq; lia). reflexivity. }
              rewrite Hcur by assumption.
              destruct (Z.leb_spec s k); cbn [andb]; [|reflexivity].
              destruct (Z.ltb_spec k i); destruct (Z.ltb_spec k (i + 1)); try lia; reflexivity.
        -- rewrite Hcur by assumption.
           destruct (Z.leb_spec s k); cbn [andb]; [|reflexivity].
           destruct (Z.ltb_spec k i); destruct (Z.ltb_spec k (i + 1)); try lia; reflexivity.
Qed.

(* ---------- casts ---------- *)

Lemma pow2_pos b : 0 <= b -> 0 < 2 ^ b.
Proof. intros. apply Z.pow_pos_nonneg; lia. Qed.

Lemma wrap_mod t z : 0 <= bits t -> wrap t z mod 2 ^ bits t = z mod 2 ^ bits t.
Proof.
  intros Hb. unfold wrap. pose proof (pow2_pos _ Hb).
  destruct (signed t && (2 ^ (bits t - 1) <=? z mod 2 ^ bits t)).
  - replace (z mod 2 ^ bits t - 2 ^ bits t) with (z mod 2 ^ bits t + (-1) * 2 ^ bits t) by lia.
    rewrite Z_mod_plus_full. apply Z.mod_mod. lia.
  - apply Z.mod_mod. lia.
Qed.

Lemma mod_mod_pow2 x a b : 0 <= a <= b -> (x mod 2 ^ b) mod 2 ^ a = x mod 2 ^ a.
Proof.
  intros Hab. pose proof (pow2_pos a ltac:(lia)). pose proof (pow2_pos b ltac:(lia)).
  rewrite (Z.mod_eq x (2 ^ b)) by lia.
  replace (2 ^ b) with (2 ^ (b - a) * 2 ^ a) by (rewrite <- Z.pow_add_r by lia; f_equal; lia).
  replace (x - 2 ^ (b - a) * 2 ^ a * (x / (2 ^ (b - a) * 2 ^ a)))
    with (x + (- (2 ^ (b - a) * (x / (2 ^ (b - a) * 2 ^ a)))) * 2 ^ a) by ring.
  apply Z_mod_plus_full.
Qed.

Lemma wrap_depends_on_mod t x y : x mod 2 ^ bits t = y mod 2 ^ bits t -> wrap t x = wrap t y.
Proof. intros H. unfold wrap. rewrite H. reflexivity. Qed.

Lemma wrap_wrap c d p : 0 <= bits c <= bits d -> wrap c (wrap d p) = wrap c p.
Proof.
  intros H. apply wrap_depends_on_mod.
  rewrite <- (mod_mod_pow2 (wrap d p) (bits c) (bits d)) by assumption.
  rewrite wrap_mod by lia. apply mod_mod_pow2. assumption.
Qed.

Lemma wrap_low_bits t z j : 0 <= bits t -> j < bits t -> Z.testbit (wrap t z) j = Z.testbit z j.
Proof.
  intros Hb Hj.
  rewrite <- (Z.mod_pow2_bits_low (wrap t z) (bits t) j) by assumption.
  rewrite wrap_mod by assumption. apply Z.mod_pow2_bits_low. assumption.
Qed.

(* ---------- the executable load spec, bit by bit ---------- *)

Lemma spec_load_n_bits n bo bito data s e j : 0 <= j ->
  Z.testbit (spec_load_n n bo bito data s e) j =
  (j <? Z.of_nat n) && setbit bo bito data (field_pos bito s e j).
Proof.
  intros Hj. induction n as [|m IH].
  - cbn. rewrite Z.testbit_0_l. destruct (Z.ltb_spec j 0); [lia|reflexivity].
  - cbn [spec_load_n].
    destruct (setbit bo bito data (field_pos bito s e (Z.of_nat m))) eqn:Hb.
    + rewrite Z.setbit_eqb by lia. rewrite IH.
      destruct (Z.eqb_spec (Z.of_nat m) j) as [<-|Hne].
      * destruct (Z.ltb_spec (Z.of_nat m) (Z.of_nat (S m))); [|lia]. rewrite Hb. reflexivity.
      * cbn [orb]. destruct (Z.ltb_spec j (Z.of_nat m)); destruct (Z.ltb_spec j (Z.of_nat (S m)));
          try lia; reflexivity.
    + rewrite IH.
      destruct (Z.ltb_spec j (Z.of_nat m)); destruct (Z.ltb_spec j (Z.of_nat (S m))); try lia; try reflexivity.
      cbn [andb]. assert (j = Z.of_nat m) as -> by lia. rewrite Hb. reflexivity.
Qed.

Lemma spec_load_bits bo bito data s e j : 0 <= j -> s <= e ->
  Z.testbit (spec_load bo bito data s e) j = (j <? e - s) && setbit bo bito data (field_pos bito s e j).
Proof. intros. unfold spec_load. rewrite spec_load_n_bits by assumption. rewrite Z2Nat.id by lia. reflexivity. Qed.

Lemma bits_lt_pow2 x n : 0 <= x -> 0 <= n -> (forall c, n <= c -> Z.testbit x c = false) -> x < 2 ^ n.
Proof.
  intros Hx Hn Hb. destruct (Z_lt_ge_dec x (2 ^ n)) as [|Hge]; [assumption|exfalso].
  assert (Hpos : 0 < x) by (pose proof (pow2_pos n Hn); lia).
  pose proof (Z.bit_log2 x Hpos) as Ht.
  assert (n <= Z.log2 x).
  { rewrite <- (Z.log2_pow2 n) by assumption. apply Z.log2_le_mono. lia. }
  rewrite Hb in Ht by assumption. discriminate.
Qed.

Lemma spec_load_n_nonneg n bo bito data s e : 0 <= spec_load_n n bo bito data s e.
Proof.
  induction n as [|m IH]; [cbn; lia|]. cbn [spec_load_n].
  destruct (setbit bo bito data (field_pos bito s e (Z.of_nat m))); [|assumption].
  rewrite Z.setbit_spec'. apply Z.lor_nonneg. split; [assumption|]. apply Z.pow_nonneg. lia.
Qed.

Lemma spec_load_range bo bito data s e : s <= e -> 0 <= spec_load bo bito data s e < 2 ^ (e - s).
Proof.
  intros Hse. split; [apply spec_load_n_nonneg|].
  apply bits_lt_pow2; [apply spec_load_n_nonneg|lia|].
  intros c Hc. rewrite spec_load_bits by lia.
  destruct (Z.ltb_spec c (e - s)); [lia|reflexivity].
Qed.

(* ---------- the DedupCast table (translated from the source) is adequate ---------- *)

Definition dedup_adequate (ptrw : Z) (c : cty) : bool :=
  match dedup_of ptrw c with
  | Some d =>
    let ct := cty_ity ptrw c in let dt := cty_ity ptrw d in
    (bits ct <=? bits dt) && Bool.eqb (signed ct) (signed dt) && (8 <=? bits ct)
  | None => false
  end.

Lemma dedup_table_adequate :
  forallb (fun ptrw => forallb (dedup_adequate ptrw) carriers) ptr_widths = true.
Proof. vm_compute. reflexivity. Qed.

Lemma dedup_ok ptrw c : In ptrw ptr_widths -> In c carriers ->
  exists d, dedup_of ptrw c = Some d /\
    0 <= bits (cty_ity ptrw c) <= bits (cty_ity ptrw d) /\
    signed (cty_ity ptrw c) = signed (cty_ity ptrw d).
Proof.
  intros Hp Hc. pose proof dedup_table_adequate as H.
  rewrite forallb_forall in H. specialize (H _ Hp). rewrite forallb_forall in H. specialize (H _ Hc).
  unfold dedup_adequate in H. destruct (dedup_of ptrw c) as [d|]; [|discriminate].
  exists d. split; [reflexivity|].
  apply andb_true_iff in H as [H H3]. apply andb_true_iff in H as [H1 H2].
  apply Z.leb_le in H1. apply Z.leb_le in H3. apply Bool.eqb_prop in H2.
  split; [lia|exact H2].
Qed.

(* ---------- top level: load ---------- *)

Theorem load_layout ptrw bo bito c data s e :
  In ptrw ptr_widths -> In c carriers -> bytes_ok data ->
  0 <= s -> s < e -> e <= 8 * Z.of_nat (length data) -> e - s <= bits (cty_ity ptrw c) ->
  load ptrw bo bito c data s e = Some (Ok (wrap (cty_ity ptrw c) (spec_load bo bito data s e))).
Proof.
  intros Hp Hc Hd Hs Hse He Hw.
  destruct (dedup_ok ptrw c Hp Hc) as (d & Hdd & Hbits & Hsg).
  unfold load. rewrite Hdd. f_equal.
  destruct (load_loop_inv (fuel_for s e) bo bito (bits (cty_ity ptrw d)) data s e s 0)
    as (r & Hr & Hrb); try assumption; try lia.
  - left. reflexivity.
  - unfold fuel_for. lia.
  - intros j Hj. rewrite Z.testbit_0_l.
    destruct (Z.ltb_spec j (e - s)); [|reflexivity]. cbn [andb].
    pose proof (mirror_range bito s e (s + j) Hs ltac:(lia)) as [Hm _].
    destruct (Z.ltb_spec (mirror bito s e (s + j)) s); [lia|reflexivity].
  - rewrite Hr. cbn [bind]. f_equal. rewrite wrap_wrap by lia. f_equal.
    apply Z.bits_inj'. intros j Hj. rewrite Hrb, spec_load_bits by lia. reflexivity.
Qed.

(* ---------- top level: store ---------- *)

Theorem store_layout ptrw bo bito c v data s e :
  In ptrw ptr_widths -> In c carriers -> bytes_ok data ->
  0 <= s -> s < e -> e <= 8 * Z.of_nat (length data) -> e - s <= bits (cty_ity ptrw c) ->
  exists data', store ptrw bo bito c v s e data = Some (Ok data') /\ store_post bo bito v s e data data'.
Proof.
  intros Hp Hc Hd Hs Hse He Hw.
  destruct (dedup_ok ptrw c Hp Hc) as (d & Hdd & Hbits & Hsg).
  unfold store. rewrite Hdd.
  destruct (store_loop_inv (fuel_for s e) bo bito (bits (cty_ity ptrw d))
              (wrap (cty_ity ptrw d) v) s e s data data)
    as (data' & Hr & Hlen & Hok & Hbitsr); try assumption; try reflexivity; try lia.
  - left. reflexivity.
  - unfold fuel_for. lia.
  - intros k Hk. destruct (Z.leb_spec s k); destruct (Z.ltb_spec k s); try lia; reflexivity.
  - exists data'. split; [rewrite Hr; reflexivity|].
    unfold store_post. repeat split; try assumption.
    intros k Hk. rewrite Hbitsr by assumption.
    destruct (Z.leb_spec s k); cbn [andb]; [|reflexivity].
    destruct (Z.ltb_spec k e); [|reflexivity].
    pose proof (mirror_range bito s e k Hs ltac:(lia)) as [Hm _].
    apply wrap_low_bits; lia.
Qed.
