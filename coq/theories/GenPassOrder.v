(* GenPassOrder.v — a table translated from /repo's source on every build (coq/gen/PassOrder.v; tools/translate_tables.py), what it must
   say for the hand-written models to be the code's, and the proof that it does.  A change of the source that alters
   the table breaks the proof below, and only the properties whose cone contains this file report the broken tie. *)
From Coq Require Import ZArith List Bool String.
From DD Require Import Common Mir.
From DDGen Require Import PassOrder.
Import ListNotations.
Open Scope string_scope.
Open Scope Z_scope.

(* ---- the order of the passes (pipeline tie) ---- *)
Definition expected_mir_pass_order : list string :=
  ["propagate_cfg"; "names_normalized"; "names_unique"; "enum_values_checked"; "byte_order_specified";
   "refs_validated"; "reset_values_converted"; "bool_fields_checked"; "bit_ranges_validated";
   "address_types_specified"; "address_types_big_enough"].
Definition expected_lir_pass_order : list string := ["addresses_non_overlapping"].

(* Pipeline.v sequences its stages in exactly this order (see its header and [Pipeline.pipeline]); the source's
   run_passes functions, translated on every build, list the same passes in the same order *)
Theorem pass_order_as_modelled :
  mir_pass_order = expected_mir_pass_order /\ lir_pass_order = expected_lir_pass_order.
Proof. split; reflexivity. Qed.
