(* GenErr.v — generator errors as (kind, subject names), and first-error helpers.
   The harness maps each real compile_error! message to the same pair with one regex per message
   (tools/errmap.py). *)
From Coq Require Import List String.
Import ListNotations.
Open Scope string_scope.

Record gen_error := { e_kind : string; e_args : list string }.

Definition mk_err (k : string) (args : list string) : gen_error := {| e_kind := k; e_args := args |}.

Definition show_error (e : gen_error) : string := e_kind e ++ ":" ++ String.concat "|" (e_args e).

Inductive result (A : Type) := ROk (a : A) | RErr (e : gen_error).
Arguments ROk {A} a.
Arguments RErr {A} e.

Definition rbind {A B} (x : result A) (f : A -> result B) : result B :=
  match x with ROk a => f a | RErr e => RErr e end.

(* first Some in a list of checks *)
Fixpoint first_error (l : list (option gen_error)) : option gen_error :=
  match l with
  | [] => None
  | Some e :: _ => Some e
  | None :: t => first_error t
  end.

Fixpoint mapM {A B} (f : A -> result B) (l : list A) : result (list B) :=
  match l with
  | [] => ROk []
  | a :: t => rbind (f a) (fun b => rbind (mapM f t) (fun bs => ROk (b :: bs)))
  end.

Definition show_result_unit (r : option gen_error) : string :=
  match r with None => "ok" | Some e => "error:" ++ show_error e end.
