(* Emit.v — the obligations the emitted Rust must meet that do not depend on rustc's type system:
   which items are emitted under which names (per namespace) and which references / literals the
   emitter writes.  Sources: lir_transform.rs (collect_into_blocks, get_method — a block ref re-enters
   collect_into_blocks for the cloned target), block_transform.rs (read_all_registers items),
   field_set_transform.rs (Debug impl calls every field's getter), enum_transform.rs.
   Definitions only.  Names are taken as already normalised. *)
From Coq Require Import ZArith List Bool String.
From DD Require Import Common Mir GenErr Layout FieldSetGen Case.
From DD Require Addr.
Import ListNotations.
Open Scope string_scope.
Open Scope Z_scope.

Fixpoint find_block (fuel : nat) (name : string) (objs : list object) : option (list object) :=
  match fuel with
  | O => None
  | S f =>
    (fix go (l : list object) : option (list object) :=
       match l with
       | [] => None
       | OBlock _ n _ _ inner :: t =>
         if String.eqb n name then Some inner
         else match find_block f name inner with Some r => Some r | None => go t end
       | _ :: t => go t
       end) objs
  end.

(* BEFORE /repo's repair of D9: names of the block structs emitted for a list of objects (collect_into_blocks /
   get_method); a block ref re-entered collect_into_blocks for the cloned target, so the target's struct (and those of
   its sub blocks) were emitted a second time.  Kept for the historical theorem C19_block_ref_historical. *)
Fixpoint block_structs_before_repair (fuel : nat) (all : list object) (objs : list object) : list string :=
  match fuel with
  | O => []
  | S f =>
    flat_map (fun o =>
      match o with
      | OBlock _ n _ _ inner => n :: block_structs_before_repair f all inner
      | ORef _ _ (OvBlock target _ _) =>
        match find_block (S (List.length all)) target all with
        | Some inner => target :: block_structs_before_repair f all inner
        | None => []
        end
      | _ => []
      end) objs
  end.

(* SINCE the repair: a block ref only gets an accessor; block structs come from declared blocks alone *)
Fixpoint block_structs (fuel : nat) (all : list object) (objs : list object) : list string :=
  match fuel with
  | O => []
  | S f =>
    flat_map (fun o =>
      match o with
      | OBlock _ n _ _ inner => n :: block_structs f all inner
      | _ => []
      end) objs
  end.

Definition tree_fuel (d : device) : nat :=
  S (fold_right (fun o acc => object_size o + acc)%nat O (d_objects d)).

Definition all_fields (d : device) : list field :=
  flat_map (fun o => List.concat (object_field_sets o)) (preorder_objects (d_objects d)).

Definition enums_of (d : device) : list (enum_def * base_type * Z) :=
  flat_map (fun f => match f_conv f with
                     | Some (ConvEnum e _) => [(e, f_base f, range_count (f_start f) (f_end f))]
                     | _ => []
                     end) (all_fields d).

(* top-level type namespace of the output: root struct, block structs, generated enums *)
Definition toplevel_type_names (driver : string) (d : device) : list string :=
  driver :: block_structs (tree_fuel d) (d_objects d) (d_objects d) ++ map (fun x => e_name (fst (fst x))) (enums_of d).

(* `mod field_sets` namespace *)
Definition field_set_type_names (d : device) : list string :=
  flat_map (fun o => match o with
                     | ORegister r => if rg_size_bits r =? 0 then [] else [rg_name r]
                     | OCommand c => ((if cm_size_in c =? 0 then [] else [(cm_name c ++ "FieldsIn")%string]) ++
                                      (if cm_size_out c =? 0 then [] else [(cm_name c ++ "FieldsOut")%string]))%list
                     | _ => []
                     end) (preorder_objects (d_objects d)).

(* impl Debug for a field set calls `self.<field>()` for EVERY field; the getter exists iff readable *)
Definition debug_refs_resolve (d : device) : bool :=
  forallb (fun f => readable (f_access f)) (all_fields d).

(* read_all_registers: `callback(ADDR + IDX * STRIDE, ..)` is typed in the register address type; a negative
   STRIDE literal needs `Neg`, which unsigned types lack *)
Definition integer_signed (i : integer) : bool := signed (integer_ity i).

Definition effective_reg_repeat_access (all : list object) (o : object) : option (access * option repeat) :=
  match o with
  | ORegister r => Some (rg_access r, rg_repeat r)
  | ORef _ _ (OvRegister target acc _ _ _ rep) =>
    match find (fun x => match x with ORegister r => String.eqb (rg_name r) target | _ => false end) (preorder_objects all) with
    | Some (ORegister r) => Some (match acc with Some a => a | None => rg_access r end,
                                  match rep with Some x => Some x | None => rg_repeat r end)
    | _ => None
    end
  | _ => None
  end.

Definition read_all_strides_ok (d : device) : bool :=
  match g_register_address_type (d_config d) with
  | None => true
  | Some at_ =>
    integer_signed at_ ||
    forallb (fun o => match effective_reg_repeat_access (d_objects d) o with
                      | Some (acc, Some rep) => negb (readable acc) || (0 <=? r_stride rep)
                      | _ => true
                      end) (preorder_objects (d_objects d))
  end.

(* discriminants as the emitter numbers them (transform_enum) *)
Fixpoint discriminants (next : Z) (vs : list variant) : list Z :=
  match vs with
  | [] => []
  | v :: t => let n := match v_value v with EVSpec z => z | _ => next end in n :: discriminants (n + 1) t
  end.

Fixpoint nodupb (l : list Z) : bool :=
  match l with [] => true | x :: t => negb (existsb (Z.eqb x) t) && nodupb t end.

(* the three ways a discriminant list can be unacceptable to rustc *)
Definition enum_ds (x : enum_def * base_type * Z) : list Z := discriminants 0 (e_variants (fst (fst x))).
Definition enum_dup_free (x : enum_def * base_type * Z) : bool := nodupb (enum_ds x).                 (* D12: E0081 *)
Definition enum_unsigned_ok (x : enum_def * base_type * Z) : bool :=                                   (* D16: `A = -1` under an unsigned repr *)
  let '(_, b, w) := x in
  match b with
  | BInt => true
  | _ => forallb (fun z => (0 <=? z) && (z <? 2 ^ carrier_bits w)) (enum_ds x)
  end.
Definition enum_signed_ok (x : enum_def * base_type * Z) : bool :=                                     (* D17: `B = 65535` does not fit i16 *)
  let '(_, b, w) := x in
  let cb := carrier_bits w in
  match b with
  | BInt => forallb (fun z => (- 2 ^ (cb - 1) <=? z) && (z <? 2 ^ (cb - 1))) (enum_ds x)
  | _ => true
  end.

Definition enum_literals_ok (x : enum_def * base_type * Z) : bool :=
  enum_dup_free x && enum_unsigned_ok x && enum_signed_ok x.

Fixpoint nodup_str (l : list string) : bool :=
  match l with [] => true | x :: t => negb (existsb (String.eqb x) t) && nodup_str t end.

(* ---- identifier namespaces of the output that names_unique does not look at (D20) ----
   names_unique keeps OBJECT names and GENERATED-ENUM names in two separate sets, per (name, cfg).  The output has
   other namespaces: (1) the top level: driver struct, block structs, generated enums; (2) `mod field_sets`: one
   struct per register, `<Cmd>FieldsIn` / `<Cmd>FieldsOut`, and the enum FieldSetValue; (3) the inherent impl of
   every block struct: new, interface, read_all_registers(_async) and one accessor per object named
   to_case(Snake) of its (Pascal) name — a map that is not injective (C14_method_names_not_injective);
   (4) the inherent impl of every field set: new, new_zero, new_as_<snake ref name>, one getter `<field>` per
   readable field and one setter `set_<field>` per writable field. *)
Definition declared_block_names (d : device) : list string :=
  flat_map (fun o => match o with OBlock _ n _ _ _ => [n] | _ => [] end) (preorder_objects (d_objects d)).

Definition toplevel_declared_names (driver : string) (d : device) : list string :=
  driver :: List.app (declared_block_names d) (map (fun x => e_name (fst (fst x))) (enums_of d)).

Definition builtin_block_methods : list string := ["new"; "interface"; "read_all_registers"; "read_all_registers_async"].

Definition method_name (o : object) : string := to_snake_default (object_name o).

(* bodies of the block impls: the root and every declared block *)
Definition block_bodies (d : device) : list (list object) :=
  d_objects d :: flat_map (fun o => match o with OBlock _ _ _ _ inner => [inner] | _ => [] end) (preorder_objects (d_objects d)).

Definition block_methods_unique (d : device) : bool :=
  forallb (fun body => nodup_str (List.app builtin_block_methods (map method_name body))) (block_bodies d).

Definition accessor_names (fs : list field) : list string :=
  flat_map (fun f => List.app (if readable (f_access f) then [f_name f] else [])
                               (if writable (f_access f) then [("set_" ++ f_name f)%string] else [])) fs.

Definition ctor_names (d : device) (reg_name : string) : list string :=
  "new" :: "new_zero" ::
  flat_map (fun o => match o with
                     | ORef _ n (OvRegister target _ _ _ (Some _) _) =>
                       if String.eqb target reg_name then [("new_as_" ++ to_snake_default n)%string] else []
                     | _ => []
                     end) (preorder_objects (d_objects d)).

Definition field_set_fns_unique (d : device) : bool :=
  forallb (fun o => match o with
                    | ORegister r => nodup_str (List.app (ctor_names d (rg_name r)) (accessor_names (rg_fields r)))
                    | OCommand c => nodup_str (List.app ["new"; "new_zero"] (accessor_names (cm_in_fields c))) &&
                                    nodup_str (List.app ["new"; "new_zero"] (accessor_names (cm_out_fields c)))
                    | _ => true
                    end) (preorder_objects (d_objects d)).

Definition namespaces_ok (driver : string) (d : device) : bool :=
  nodup_str (toplevel_declared_names driver d) && nodup_str ("FieldSetValue" :: field_set_type_names d) &&
  block_methods_unique d && field_set_fns_unique d.

(* ---- identifiers that are Rust keywords (D21): the emitter writes names with format_ident!, which does not
   refuse keywords; syn (and rustc) then reject `pub fn match(..)`, `pub fn fn(&self)`, `pub struct Self`.
   The list is syn's (ident.rs, accept_as_ident). *)
Definition rust_keywords : list string :=
  ["_"; "abstract"; "as"; "async"; "await"; "become"; "box"; "break"; "const"; "continue"; "crate"; "do"; "dyn"; "else";
   "enum"; "extern"; "false"; "final"; "fn"; "for"; "if"; "impl"; "in"; "let"; "loop"; "macro"; "match"; "mod"; "move";
   "mut"; "override"; "priv"; "pub"; "ref"; "return"; "Self"; "self"; "static"; "struct"; "super"; "trait"; "true"; "try";
   "type"; "typeof"; "unsafe"; "unsized"; "use"; "virtual"; "where"; "while"; "yield"].

Definition is_keyword (s : string) : bool := existsb (String.eqb s) rust_keywords.

Definition emitted_identifiers (driver : string) (d : device) : list string :=
  (toplevel_declared_names driver d ++ field_set_type_names d ++
   map method_name (preorder_objects (d_objects d)) ++
   map f_name (all_fields d) ++
   flat_map (fun x => map v_name (e_variants (fst (fst x)))) (enums_of d))%list.

Definition keyword_free (driver : string) (d : device) : bool :=
  forallb (fun s => negb (is_keyword s)) (emitted_identifiers driver d).

(* ---- literals of the emitted address arithmetic (D22) ----
   Every accessor computes `self.base_address + ADDR (+|-) index as IT * |STRIDE|` in the INTERNAL address type IT
   (find_best_internal_address: sized for the FINAL addresses only), ADDR and |STRIDE| written as unsuffixed literals;
   read_all_registers writes, per readable register and index, `ADDR (+|-) IDX * |STRIDE|` — typed in the register
   address type in the root block and in IT (`(self.base_address + ..) as AT`) elsewhere.  rustc rejects a negative
   literal of an unsigned type (E0277 `Neg` / E0600), a literal outside its type (deny lint overflowing_literals) and a
   constant product that overflows (deny lint arithmetic_overflow).  The lowered methods are Addr.v's. *)
Definition method_literals (m : Addr.lmethod) : list Z :=
  Addr.m_address m :: match Addr.m_repeat m with Some r => [Z.abs (r_stride r)] | None => [] end.

Definition accessor_literals (driver : string) (d : device) : list Z :=
  match Addr.lower true (S (S (Addr.objects_size (d_objects d)))) driver (d_objects d) with
  | Ok bls => flat_map (fun b => flat_map method_literals (Addr.b_methods b)) bls
  | Fail _ => []
  end.

Definition effective_reg (all : list object) (o : object) : option (access * Z * option repeat) :=
  match o with
  | ORegister r => Some (rg_access r, rg_address r, rg_repeat r)
  | ORef _ _ (OvRegister target acc addr _ _ rep) =>
    match find (fun x => match x with ORegister r => String.eqb (rg_name r) target | _ => false end) (preorder_objects all) with
    | Some (ORegister r) => Some (match acc with Some a => a | None => rg_access r end,
                                  match addr with Some a => a | None => rg_address r end,
                                  match rep with Some x => Some x | None => rg_repeat r end)
    | _ => None
    end
  | _ => None
  end.

Definition read_all_literals (all : list object) (o : object) : list Z :=
  match effective_reg all o with
  | Some (acc, addr, rep) =>
    if readable acc then
      match rep with
      | None => [addr; 0]
      | Some r => if r_count r <=? 0 then []
                  else [addr; Z.abs (r_stride r); r_count r - 1; (r_count r - 1) * Z.abs (r_stride r)]
      end
    else []
  | None => []
  end.

(* every literal with the type of its position *)
Definition typed_literals (driver : string) (d : device) : list (ity * Z) :=
  match Addr.internal_type d with
  | Fail _ => []                                   (* the generator panics instead (D3c) *)
  | Ok it =>
    (map (pair it) (accessor_literals driver d) ++
     (match g_register_address_type (d_config d) with
      | Some at_ => map (pair (integer_ity at_)) (flat_map (read_all_literals (d_objects d)) (d_objects d))
      | None => []
      end) ++
     flat_map (fun o => match o with
                        | OBlock _ _ _ _ inner => map (pair it) (flat_map (read_all_literals (d_objects d)) inner)
                        | _ => []
                        end) (preorder_objects (d_objects d)))%list
  end.

(* a type error (E0277 `Neg` / E0600): a negative literal of an unsigned type *)
Definition address_literals_sign_ok (driver : string) (d : device) : bool :=
  forallb (fun p => signed (fst p) || (0 <=? snd p)) (typed_literals driver d).
(* deny-by-default lints (overflowing_literals, arithmetic_overflow): rustc reaches them only when nothing else is wrong *)
Definition address_literals_range_ok (driver : string) (d : device) : bool :=
  forallb (fun p => in_range (fst p) (snd p) || (negb (signed (fst p)) && (snd p <? 0))) (typed_literals driver d).
Definition address_literals_ok (driver : string) (d : device) : bool :=
  address_literals_sign_ok driver d && address_literals_range_ok driver d.

(* Since /repo's repair of D8 read_all_registers emits `ADDR - IDX * |STRIDE|` for negative strides, so the stride
   literal is always non-negative; [read_all_strides_ok] (the obligation the unrepaired emitter failed) is kept for
   the historical theorem only and is no longer part of wf_output. *)
Definition wf_output (driver : string) (d : device) : bool :=
  nodup_str (toplevel_type_names driver d) && nodup_str (field_set_type_names d) &&
  debug_refs_resolve d && forallb enum_literals_ok (enums_of d) &&
  namespaces_ok driver d && keyword_free driver d && address_literals_ok driver d.

(* the structural classes outside which the obligations are proved to hold *)
Definition has_block_ref (d : device) : bool :=
  existsb (fun o => match o with ORef _ _ (OvBlock _ _ _) => true | _ => false end) (preorder_objects (d_objects d)).


(* ---- which obligation fails, by the name of the defect class it was found as (for the correspondence with rustc:
   a definition with no failing obligation must compile; one with a failing obligation does not, and rustc's error
   code is the one recorded for that class) ---- *)
Definition failing_obligations (driver : string) (d : device) : list string :=
  ((if debug_refs_resolve d then [] else ["D7"]) ++
   (if forallb enum_dup_free (enums_of d) then [] else ["D12"]) ++
   (if forallb enum_unsigned_ok (enums_of d) then [] else ["D16"]) ++
   (if forallb enum_signed_ok (enums_of d) then [] else ["D17"]) ++
   (if namespaces_ok driver d then [] else ["D20"]) ++
   (if keyword_free driver d then [] else ["D21"]) ++
   (if address_literals_sign_ok driver d then [] else ["D22"]) ++
   (if address_literals_range_ok driver d then [] else ["D22L"]))%list.

Definition show_obligations (driver : string) (d : device) : string := String.concat "," (failing_obligations driver d).
