(* Pipeline.v — the whole accept/reject decision of the generator for cfg-free definitions, composed from the
   per-pass models in the order of mir::passes::run_passes (as repaired: refs_validated before
   reset_values_converted), then lir_transform and the LIR pass:

     propagate_cfg (identity on cfg-free input) ; names_normalized ; names_unique ; enum_values_checked ;
     byte_order_specified ; refs_validated ; reset_values_converted ; bool_fields_checked ;
     bit_ranges_validated ; address_types_specified ; address_types_big_enough ; device name ; lowering ;
     addresses_non_overlapping.

   First error wins.  Each stage is the model its own property check proves things about (Names.v, Enum.v,
   Layout.v, Reset.v, Addr.v); this file only sequences them, so that ANY definition — not only the ones a
   per-property generator steers into its own pass — can be compared with the real generator. *)
From Coq Require Import ZArith List Bool String.
From DD Require Import Common Mir GenErr Layout.
From DD Require Names Enum Reset Addr.
Import ListNotations.
Open Scope string_scope.

Definition pipeline_result (fuel : nat) (dev_name : string) (d0 : device) : string :=
  let d := Names.names_normalized d0 in
  match Names.names_unique d with
  | Some e => "error:" ++ show_error e
  | None =>
  match Enum.enum_values_check_fixed d with
  | Enum.VErr e => "error:" ++ show_error e
  | Enum.VPanic => "panic:enum"
  | Enum.VOk =>
  let objs := preorder_objects (d_objects d) in
  match first_error (map (byte_order_check (d_config d)) objs) with
  | Some e => "error:" ++ show_error e
  | None =>
  match Names.refs_candidates d with
  | (_ :: _) as l => "oneof:" ++ String.concat ";" (map show_error l)
  | [] =>
  match Reset.bos_pass d with
  | RErr e => "error:" ++ show_error e
  | ROk d1 =>
  match Reset.reset_pass d1 with
  | Fail _ => "panic:reset"
  | Ok (RErr e) => "error:" ++ show_error e
  | Ok (ROk _) =>
  match mapM bool_fields_object objs with
  | RErr e => "error:" ++ show_error e
  | ROk objs' =>
  match first_error (map bit_ranges_object objs') with
  | Some e => "error:" ++ show_error e
  | None => Addr.addr_pipeline true fuel dev_name d
  end end end end end end end end.
