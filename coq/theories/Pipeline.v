(* Pipeline.v — the whole accept/reject decision of the generator for cfg-free definitions, composed from the
   per-pass models in the order of mir::passes::run_passes (as repaired: refs_validated before
   reset_values_converted), then lir_transform and the LIR pass:

     propagate_cfg (identity on cfg-free input) ; names_normalized ; names_unique ; enum_values_checked ;
     byte_order_specified ; refs_validated ; reset_values_converted ; bool_fields_checked ;
     bit_ranges_validated ; address_types_specified ; address_types_big_enough ; device name ; lowering ;
     addresses_non_overlapping.

   First error wins.  Each stage is the model its own property check proves things about (Names.v, Enum.v,
   Layout.v, Reset.v, Addr.v); this file only sequences them, so that ANY definition — not only the ones a
   per-property generator steers into its own pass — can be compared with the real generator. *)
From Coq Require Import ZArith List Bool String.
From DD Require Import Common Mir GenErr Layout.
From DD Require Names Enum Reset Addr.
Import ListNotations.
Open Scope string_scope.

(* structured verdict; [pipeline_result] below is its printed form (what the correspondence compares) *)
Inductive pverdict :=
| PAccept
| PReject (e : gen_error)
| POneOf (l : list gen_error)      (* refs_validated iterates a map: which dangling ref is reported first is not modelled *)
| PPanic (stage : string).

Definition pipeline (fuel : nat) (dev_name : string) (d0 : device) : pverdict :=
  let d := Names.names_normalized d0 in
  match Names.names_unique d with
  | Some e => PReject e
  | None =>
  match Enum.enum_values_check_repaired d with   (* the pass as it is now: D12, D16, D17 repaired *)
  | Enum.VErr e => PReject e
  | Enum.VPanic => PPanic "enum"
  | Enum.VOk =>
  let objs := preorder_objects (d_objects d) in
  match first_error (map (byte_order_check (d_config d)) objs) with
  | Some e => PReject e
  | None =>
  match Names.refs_candidates d with
  | (_ :: _) as l => POneOf l
  | [] =>
  match Names.recursive_block_refs d with        (* end of refs_validated: ensure_no_recursive_block_refs (D11 repaired) *)
  | Fail _ => PPanic "refs"                       (* never: NamesProofs.recursive_check_total *)
  | Ok (Some e) => PReject e
  | Ok None =>
  match Reset.bos_pass d with
  | RErr e => PReject e
  | ROk d1 =>
  match Reset.reset_pass d1 with
  | Fail _ => PPanic "reset"
  | Ok (RErr e) => PReject e
  | Ok (ROk _) =>
  match mapM bool_fields_object objs with
  | RErr e => PReject e
  | ROk objs' =>
  match first_error (map bit_ranges_object objs') with
  | Some e => PReject e
  | None =>
  match Addr.addr_check true fuel dev_name d with
  | Fail k => PPanic (Addr.show_outcome_kind k)
  | Ok (Some e) => PReject e
  | Ok None => PAccept
  end end end end end end end end end end.

Definition show_pverdict (v : pverdict) : string :=
  match v with
  | PAccept => "ok"
  | PReject e => "error:" ++ show_error e
  | POneOf l => "oneof:" ++ String.concat ";" (map show_error l)
  | PPanic s => "panic:" ++ s
  end.

Definition pipeline_result (fuel : nat) (dev_name : string) (d0 : device) : string :=
  show_pverdict (pipeline fuel dev_name d0).
