(* Cfg.v — model of cfg propagation and of where the propagated predicate is attached, plus the
   specification written from property C18.  Definitions only (proofs: CfgProofs.v).

   Code modelled:
     generation/src/mir/mod.rs               Cfg::combine
     generation/src/mir/passes/mod.rs        recurse_objects_with_depth_mut  (= Mir.preorder)
     generation/src/mir/passes/propagate_cfg.rs   run_pass  (cfg_stack / current_depth, pop ONCE)
     generation/src/mir/lir_transform.rs     which emitted item receives which Cfg
     generation/src/lir/token_transform/*.rs the emitters put `#cfg_attr` on the struct AND on every impl

   cfg predicates are abstract: an own cfg (what the user wrote) is one ATOM, named by its string; the only
   structure the generator ever adds is `all(a, b)`.  The model's combine therefore builds a [cfg_expr]
   instead of formatting a string; [render] gives back the string the code builds (the correspondence check
   compares it with the real `#[cfg(..)]` token text, whitespace removed), and structural equality of
   [cfg_expr] stands for the code's string equality (the rendering of expressions over comma/parenthesis-free
   atoms is injective; the check generates such atoms only). *)
From Coq Require Import ZArith List Bool String Arith.
From DD Require Import Common Mir.
Import ListNotations.
Open Scope string_scope.

(* ------------------------------------------------------------------ predicates *)

Inductive cfg_expr := Atom (s : string) | All (l r : cfg_expr).

(* mir::Cfg { value: Option<String> } *)
Definition cfgx := option cfg_expr.

Fixpoint cfg_expr_eqb (a b : cfg_expr) : bool :=
  match a, b with
  | Atom s, Atom t => String.eqb s t
  | All l1 r1, All l2 r2 => cfg_expr_eqb l1 l2 && cfg_expr_eqb r1 r2
  | _, _ => false
  end.

(* a cfg as the front ends produce it (Mir.cfg = option string): one atom *)
Definition of_cfg (c : cfg) : cfgx := option_map Atom c.

(* Cfg::combine(&self, other): None is the identity, equal values are not repeated, otherwise
   format!("all({self}, {other})") with self first. *)
Definition cfg_combine (self other : cfgx) : cfgx :=
  match self, other with
  | None, None => None
  | None, Some v => Some v
  | Some v, None => Some v
  | Some v1, Some v2 => if cfg_expr_eqb v1 v2 then Some v1 else Some (All v1 v2)
  end.

Fixpoint render (e : cfg_expr) : string :=
  match e with
  | Atom s => s
  | All l r => "all(" ++ render l ++ ", " ++ render r ++ ")"
  end.

(* flattening of nested all(..) *)
Fixpoint atoms (e : cfg_expr) : list string :=
  match e with
  | Atom s => [s]
  | All l r => atoms l ++ atoms r
  end.

Definition atoms_x (c : cfgx) : list string :=
  match c with None => [] | Some e => atoms e end.

(* sets of atoms: sorted duplicate-free lists *)
Fixpoint insert_str (s : string) (l : list string) : list string :=
  match l with
  | [] => [s]
  | h :: t => if String.eqb s h then l
              else if String.leb s h then s :: l
              else h :: insert_str s t
  end.

Definition canon (l : list string) : list string := fold_right insert_str [] l.

Definition atom_set (c : cfgx) : list string := canon (atoms_x c).

(* two lists denote the same set *)
Definition same_set (a b : list string) : Prop := forall x, In x a <-> In x b.

(* ------------------------------------------------------------------ the pass: propagate_cfg::run_pass *)

(* cfg_stack is a Vec; the HEAD of [ws_stack] is `cfg_stack.last()`, cons = push, tl = pop
   (Vec::pop on an empty Vec returns None and does nothing). *)
Record walk_state := { ws_stack : list cfgx; ws_depth : nat }.

(* let mut current_depth = 0; let mut cfg_stack = vec![Cfg::new(None)]; *)
Definition ws_init : walk_state := {| ws_stack := [None]; ws_depth := 0 |}.

Definition is_block (o : object) : bool :=
  match o with OBlock _ _ _ _ _ => true | _ => false end.

(* if depth < current_depth { cfg_stack.pop(); current_depth = depth; }      -- pops ONCE *)
Definition exit_code (depth : nat) (st : walk_state) : walk_state :=
  if (depth <? ws_depth st)%nat
  then {| ws_stack := tl (ws_stack st); ws_depth := depth |}
  else st.

(* the corrected exit:  while depth < current_depth { cfg_stack.pop(); current_depth -= 1; } *)
Fixpoint unwind (depth : nat) (stack : list cfgx) (cur : nat) : walk_state :=
  match cur with
  | O => {| ws_stack := stack; ws_depth := cur |}
  | S c => if (depth <? cur)%nat then unwind depth (tl stack) c
           else {| ws_stack := stack; ws_depth := cur |}
  end.

Definition exit_fixed (depth : nat) (st : walk_state) : walk_state :=
  unwind depth (ws_stack st) (ws_depth st).

Section Walk.
  (* what happens at the top of the closure when an object at [depth] arrives *)
  Variable exit : nat -> walk_state -> walk_state.

  (* one invocation of the closure.  Result: the object's new cfg_attr and the new state.
     `cfg_stack.last().unwrap()` panics on an empty stack: Fail AssertFail (never by default value). *)
  Definition visit (o : object) (depth : nat) (st : walk_state) : outcome (cfgx * walk_state) :=
    let st1 := exit depth st in
    match ws_stack st1 with
    | [] => Fail AssertFail
    | top :: _ =>
      let g := cfg_combine (of_cfg (object_cfg o)) top in
      Ok (g, if is_block o
             then {| ws_stack := g :: ws_stack st1; ws_depth := S (ws_depth st1) |}
             else st1)
    end.

  (* the closure applied along the pre-order (object, depth) list; returns the new cfg_attr of every
     object in that order, and the final state *)
  Fixpoint walk (l : list (object * nat)) (st : walk_state) : outcome (list cfgx * walk_state) :=
    match l with
    | [] => Ok ([], st)
    | (o, d) :: t =>
      do r <- visit o d st;
      do rs <- walk t (snd r);
      Ok (fst r :: fst rs, snd rs)
    end.

  Definition propagate_gates (objs : list object) : outcome (list cfgx) :=
    do r <- walk (preorder objs) ws_init; Ok (fst r).
End Walk.

(* the pass as written, and the corrected pass *)
Definition propagate_cfg : list object -> outcome (list cfgx) := propagate_gates exit_code.
Definition propagate_cfg_fixed : list object -> outcome (list cfgx) := propagate_gates exit_fixed.

(* ------------------------------------------------------------------ multi-level exits *)

(* nesting level that is open after an entry has been visited *)
Definition level_after (e : object * nat) : nat :=
  (snd e + (if is_block (fst e) then 1 else 0))%nat.

(* number of block levels that end between two consecutive pre-order entries.
   NOTE an EMPTY block ends right after its own entry: `block A { block B { } }, R` closes two levels
   before R although the depth of the entries only drops by one. *)
Definition exit_levels (prev next : object * nat) : nat := (level_after prev - snd next)%nat.

(* no object follows the end of >= 2 nested blocks at once *)
Fixpoint single_exits (l : list (object * nat)) : Prop :=
  match l with
  | e1 :: ((e2 :: _) as t) => (exit_levels e1 e2 <= 1)%nat /\ single_exits t
  | _ => True
  end.

Fixpoint single_exitsb (l : list (object * nat)) : bool :=
  match l with
  | e1 :: ((e2 :: _) as t) => (exit_levels e1 e2 <=? 1)%nat && single_exitsb t
  | _ => true
  end.

(* ------------------------------------------------------------------ attachment (lir_transform + emitters) *)

(* An emitted item: [it_attr] is what its own #[cfg(..)] attribute says; [it_eff] is the predicate under
   which it is compiled in, i.e. its own attribute AND the attribute of the emitted item it is lexically
   nested in when that is what carries the object's predicate (getters/setters inside `impl FieldSet`,
   variants inside the enum).  For every other item it_eff = it_attr. *)
Record item (G : Type) := mk_item { it_key : string; it_attr : G; it_eff : G }.
Arguments mk_item {G} _ _ _.
Arguments it_key {G} _.
Arguments it_attr {G} _.
Arguments it_eff {G} _.

Definition readable (a : access) : bool := match a with WO => false | _ => true end.
Definition writable (a : access) : bool := match a with RO => false | _ => true end.

(* The skeleton (which items exist for an object, under which key) is shared by model and spec: C18 does not
   speak about the existence of items, and the correspondence check compares the keys with the items found
   in the real token stream.  What differs is the gate type G and its two operations:
     model: G = cfgx,         own = of_cfg,     conj = cfg_combine (self first, as the code calls it)
     spec : G = list string,  own = own_atoms,  conj = list append (set union)                          *)
Section Attach.
  Context {G : Type}.
  Variable own : cfg -> G.
  Variable conj : G -> G -> G.

  Definition plain (k : string) (g : G) : item G := mk_item k g g.

  (* transform_enum: variants keep their own cfg (inside the enum item) *)
  Definition variant_item (ename : string) (eg : G) (v : variant) : item G :=
    mk_item ("variant:" ++ ename ++ "." ++ v_name v) (own (v_cfg v)) (conj (own (v_cfg v)) eg).

  (* propagate_cfg: enum_value.cfg_attr = field.cfg_attr.combine(&new_cfg_attr)  (the enum's own cfg is
     overwritten); "enum:E" stands for `enum E` and each of its impls (Default/From/TryFrom/Into) *)
  Definition field_enum_items (g : G) (f : field) : list (item G) :=
    match f_conv f with
    | Some (ConvEnum e _) =>
      let eg := conj (own (f_cfg f)) g in
      plain ("enum:" ++ e_name e) eg :: map (variant_item (e_name e) eg) (e_variants e)
    | _ => []
    end.

  (* transform_field_set: a field's getter/setter carries the field's OWN cfg only, inside an impl that
     carries the object's *)
  Definition field_accessor_items (set : string) (g : G) (f : field) : list (item G) :=
    (if readable (f_access f)
     then [mk_item ("getter:" ++ set ++ "." ++ f_name f) (own (f_cfg f)) (conj (own (f_cfg f)) g)]
     else []) ++
    (if writable (f_access f)
     then [mk_item ("setter:" ++ set ++ "." ++ f_name f) (own (f_cfg f)) (conj (own (f_cfg f)) g)]
     else []).

  (* generate_field_set emits nothing for a zero-sized set; "fieldset:X" stands for `struct X` and each of
     its impls; "fsv:X" for the FieldSetValue variant, its From impl and its Debug/defmt match arms *)
  Definition field_set_items (set : string) (size : Z) (g : G) (fs : list field) : list (item G) :=
    if (size =? 0)%Z then []
    else plain ("fieldset:" ++ set) g :: plain ("fsv:" ++ set) g
         :: flat_map (field_accessor_items set g) fs.

  (* get_method / collect_into_blocks / transform_field_sets / collect_enums for one object whose
     (propagated) cfg_attr is [g].  "readall:R" = the two statements of read_all_registers(_async). *)
  Definition object_items (g : G) (o : object) : list (item G) :=
    plain ("method:" ++ object_name o) g ::
    match o with
    | OBlock _ n _ _ _ => [plain ("struct:" ++ n) g; plain ("impl:" ++ n) g]
    | ORegister r =>
      (if readable (rg_access r) then [plain ("readall:" ++ rg_name r) g] else []) ++
      field_set_items (rg_name r) (rg_size_bits r) g (rg_fields r) ++
      flat_map (field_enum_items g) (rg_fields r)
    | OCommand c =>
      field_set_items (cm_name c ++ "FieldsIn") (cm_size_in c) g (cm_in_fields c) ++
      field_set_items (cm_name c ++ "FieldsOut") (cm_size_out c) g (cm_out_fields c) ++
      flat_map (field_enum_items g) (cm_in_fields c ++ cm_out_fields c)
    | OBuffer _ => []
    | ORef _ _ _ => []       (* the accessor only; what a ref re-emits for its target is outside C18 (D9) *)
    end.

  (* the root block: BorrowedBlock { cfg_attr: &Cfg::new(None), .. } *)
  Definition root_items : list (item G) := [plain "struct:/" (own None); plain "impl:/" (own None)].
End Attach.

(* model: every object of the pre-order list with the cfg_attr the pass left on it *)
Definition model_items_of (gs : list cfgx) (d : device) : list (item cfgx) :=
  root_items of_cfg ++
  flat_map (fun og => object_items of_cfg cfg_combine (snd og) (fst og))
           (List.combine (preorder_objects (d_objects d)) gs).

Definition model_items (exit : nat -> walk_state -> walk_state) (d : device) : outcome (list (item cfgx)) :=
  do gs <- propagate_gates exit (d_objects d); Ok (model_items_of gs d).

Definition items_code : device -> outcome (list (item cfgx)) := model_items exit_code.
Definition items_fixed : device -> outcome (list (item cfgx)) := model_items exit_fixed.

(* ------------------------------------------------------------------ SPEC (from the property text) *)

(* "Each generated item is compiled in exactly when its own cfg and the cfgs of all blocks enclosing it
   hold": structural recursion on the tree carrying the set of atoms on the path; no stack, no depth. *)
Definition own_atoms (c : cfg) : list string := match c with Some s => [s] | None => [] end.

Fixpoint spec_object_items (path : list string) (o : object) : list (item (list string)) :=
  let p := (own_atoms (object_cfg o) ++ path)%list in
  (object_items own_atoms (@app string) p o ++
   match o with
   | OBlock _ _ _ _ objs => flat_map (spec_object_items p) objs
   | _ => []
   end)%list.

Definition spec_items (d : device) : list (item (list string)) :=
  root_items own_atoms ++ flat_map (spec_object_items []) (d_objects d).

(* "No gate tests a predicate nobody wrote": the atoms that occur in the description at all.  The own cfg of
   every object at any depth, of every field of every register / command, and of every variant of every
   inline enum of those fields.  (The inline enum's own cfg is NOT listed: propagate_cfg overwrites it.) *)
Definition field_written_atoms (f : field) : list string :=
  (own_atoms (f_cfg f) ++
   match f_conv f with
   | Some (ConvEnum e _) => flat_map (fun v => own_atoms (v_cfg v)) (e_variants e)
   | _ => []
   end)%list.

Definition object_fields (o : object) : list field :=
  match o with
  | ORegister r => rg_fields r
  | OCommand c => (cm_in_fields c ++ cm_out_fields c)%list
  | _ => []
  end.

Fixpoint object_written_atoms (o : object) : list string :=
  (own_atoms (object_cfg o) ++
   flat_map field_written_atoms (object_fields o) ++
   match o with
   | OBlock _ _ _ _ objs => flat_map object_written_atoms objs
   | _ => []
   end)%list.

Definition written_atoms (d : device) : list string := flat_map object_written_atoms (d_objects d).

(* the gate the spec gives to every object, in pre-order (used to phrase the walk theorems) *)
Fixpoint spec_gates_object (path : list string) (o : object) : list (list string) :=
  let p := (own_atoms (object_cfg o) ++ path)%list in
  p :: match o with
       | OBlock _ _ _ _ objs => flat_map (spec_gates_object p) objs
       | _ => []
       end.

Definition spec_gates (objs : list object) : list (list string) := flat_map (spec_gates_object []) objs.

(* model item vs spec item: same key, same atom SETS on the attribute and on the effective predicate *)
Definition item_agrees (m : item cfgx) (s : item (list string)) : Prop :=
  it_key m = it_key s /\
  same_set (atoms_x (it_attr m)) (it_attr s) /\
  same_set (atoms_x (it_eff m)) (it_eff s).

Definition items_agree (ms : list (item cfgx)) (ss : list (item (list string))) : Prop :=
  Forall2 item_agrees ms ss.

Definition gate_agrees (g : cfgx) (s : list string) : Prop := same_set (atoms_x g) s.

(* ------------------------------------------------------------------ printers for the correspondence check *)

Definition show_atoms (l : list string) : string := String.concat "|" (canon l).

Definition cfgx_eqb (a b : cfgx) : bool :=
  match a, b with
  | None, None => true
  | Some x, Some y => cfg_expr_eqb x y
  | _, _ => false
  end.

Fixpoint strs_eqb (a b : list string) : bool :=
  match a, b with
  | [], [] => true
  | x :: a', y :: b' => String.eqb x y && strs_eqb a' b'
  | _, _ => false
  end.

(* key@attr-set@effective-set@literal ; "=" abbreviates "same as the attr column" (effective set equal to the
   attribute's / literal equal to the single atom), "-" = no attribute *)
Definition show_model_item (i : item cfgx) : string :=
  it_key i ++ "@" ++ show_atoms (atoms_x (it_attr i)) ++ "@" ++
  (if cfgx_eqb (it_eff i) (it_attr i) then "=" else show_atoms (atoms_x (it_eff i))) ++ "@" ++
  match it_attr i with None => "-" | Some (Atom _) => "=" | Some e => render e end.

Definition show_spec_item (i : item (list string)) : string :=
  it_key i ++ "@" ++ show_atoms (it_attr i) ++ "@" ++
  (if strs_eqb (it_eff i) (it_attr i) then "=" else show_atoms (it_eff i)).

Definition show_items {A} (f : A -> string) (l : list A) : string := String.concat ";" (map f l).

Definition c18_listing (exit : nat -> walk_state -> walk_state) (d : device) : string :=
  match model_items exit d with
  | Ok its => show_items show_model_item its
  | Fail _ => "panic"
  end.

(* functions evaluated by tools/checks/c18.py on the MIR of the real front end *)
Definition c18_listing_code (d : device) : string := c18_listing exit_code d.
Definition c18_listing_fixed (d : device) : string := c18_listing exit_fixed d.
Definition c18_listing_spec (d : device) : string :=
  (if single_exitsb (preorder (d_objects d)) then "single" else "multi") ++ ";" ++
  show_items show_spec_item (spec_items d).

(* model listing and spec listing in one evaluation *)
Definition c18_both_code (d : device) : string := c18_listing_code d ++ "##" ++ c18_listing_spec d.
Definition c18_both_fixed (d : device) : string := c18_listing_fixed d ++ "##" ++ c18_listing_spec d.

(* ------------------------------------------------------------------ example trees (used by CfgProofs / props/C18) *)

Definition ex_config : config :=
  {| g_default_register_access := RW; g_default_field_access := RW; g_default_buffer_access := RW;
     g_default_byte_order := None; g_default_bit_order := BiLSB0; g_register_address_type := Some IU8;
     g_command_address_type := Some IU8; g_buffer_address_type := Some IU8; g_boundaries := [];
     g_defmt_feature := None |}.

Definition ex_field (c : cfg) (n : string) (conv : option conversion) : field :=
  {| f_cfg := c; f_name := n; f_access := RW; f_base := BUint; f_conv := conv; f_start := 0; f_end := 2 |}.

Definition ex_reg (c : cfg) (n : string) (addr : Z) (fs : list field) : object :=
  ORegister {| rg_cfg := c; rg_name := n; rg_access := RW; rg_byte_order := None; rg_bit_order := BiLSB0;
               rg_allow_bit_overlap := false; rg_allow_address_overlap := false; rg_address := addr;
               rg_size_bits := 8; rg_reset := None; rg_repeat := None; rg_fields := fs |}.

Definition ex_block (c : cfg) (n : string) (objs : list object) : object := OBlock c n 0 None objs.

Definition ex_device (objs : list object) : device := {| d_config := ex_config; d_objects := objs |}.

(* D6:  #[cfg(a)] block A { #[cfg(b)] block B { register R1 } }, register R2 *)
Definition d6_witness : device :=
  ex_device [ex_block (Some "a") "A" [ex_block (Some "b") "B" [ex_reg None "R1" 1 []]]; ex_reg None "R2" 2 []].

(* the same with an EMPTY inner block: the entry depths only drop by one, two levels end *)
Definition d6_witness_empty : device :=
  ex_device [ex_block (Some "a") "A" [ex_block (Some "b") "B" []]; ex_reg None "R2" 2 []].

(* a tree without multi-level exits: nesting, a sibling after a block, repeated atoms, a cfg'd field with an
   inline enum and a cfg'd variant *)
Definition ex_single : device :=
  ex_device
    [ex_block (Some "a") "A"
       [ex_block (Some "a") "B"
          [ex_reg (Some "c") "R1" 1
             [ex_field (Some "d") "x"
                (Some (ConvEnum {| e_cfg := None; e_name := "E";
                                   e_variants := [{| v_cfg := Some "e"; v_name := "V"; v_value := EVUnspec |};
                                                  {| v_cfg := None; v_name := "W"; v_value := EVDefault |}];
                                   e_style := None |} false))]];
        ex_reg None "R2" 2 []];
     ex_reg (Some "f") "R3" 3 [];
     ex_reg None "R4" 4 []].

(* three levels left at once, then more objects and a block on the polluted stack *)
Definition ex_deep : device :=
  ex_device
    [ex_block (Some "a") "A" [ex_block (Some "b") "B" [ex_block (Some "c") "C" [ex_reg (Some "d") "R1" 1 []]]];
     ex_reg None "R2" 2 [];
     ex_block (Some "e") "D" [ex_reg None "R3" 3 []];
     ex_reg (Some "f") "R4" 4 []].
