(* Enum.v — model of the enum analysis and the emitted enum conversions.  Definitions only.

   Transcribed from
     generation/src/mir/passes/enum_values_checked.rs      (pass: numbering, checks, generation style)
     generation/src/mir/lir_transform.rs                   (collect_enums, transform_enum: SECOND numbering;
                                                            transform_field_set: conversion-method choice)
     generation/src/lir/token_transform/enum_transform.rs  (Default / From / TryFrom / Into impls)
     generation/src/lir/token_transform/field_set_transform.rs (getter conversion forms)
     device-driver/src/lib.rs                              (ConversionError {source, target})

   and the specification written from the text of properties C15 / C07.

   Numbers are Z (the code uses i128; i128 overflow of "last + 1" is outside the model).  The pass computes
   `(1 << field_bits) - 1` in i128 BEFORE its own `field_bits <= 128` test; in the debug profile (the one
   the harness builds) this panics for field_bits >= 127, which the model reports as [VPanic]. *)
From Coq Require Import ZArith List Bool String Ascii.
From DD Require Import Common Mir GenErr.
Import ListNotations.
Open Scope string_scope.
Open Scope Z_scope.

(* ------------------------------------------------------------------ *)
(* small helpers                                                       *)
(* ------------------------------------------------------------------ *)

Definition cfg_eqb (a b : cfg) : bool :=
  match a, b with
  | None, None => true
  | Some x, Some y => String.eqb x y
  | _, _ => false
  end.

(* Unique::id() of a variant = UniqueId {object_name, object_cfg} *)
Definition variant_id_eqb (a b : variant) : bool :=
  String.eqb (v_name a) (v_name b) && cfg_eqb (v_cfg a) (v_cfg b).

(* Display of UniqueId *)
Definition show_vid (v : variant) : string :=
  match v_cfg v with
  | Some c => v_name v ++ "(cfg=`" ++ c ++ "`)"
  | None => v_name v
  end.

Definition is_default (v : variant) : bool := match v_value v with EVDefault => true | _ => false end.
Definition is_catch_all (v : variant) : bool := match v_value v with EVCatchAll => true | _ => false end.
Definition is_fallback (v : variant) : bool := is_default v || is_catch_all v.

(* Range<u32>::count() of the field address *)
Definition field_width (f : field) : Z := if f_start f <? f_end f then f_end f - f_start f else 0.

(* val.max(8).next_power_of_two(): the bit count of the integer type that carries a field of w bits (used by
   lir_transform::transform_enum for the repr and, since e1d126c, by enum_values_checked itself) *)
Definition carrier_bits (w : Z) : Z := 2 ^ Z.log2_up (Z.max w 8).

(* ------------------------------------------------------------------ *)
(* enum_values_checked: FIRST numbering ("last seen + 1")               *)
(* ------------------------------------------------------------------ *)

(* seen_values.last().map(|(val, _)| *val + 1).unwrap_or(0) *)
Definition last_plus_one (last : option Z) : Z := match last with Some l => l + 1 | None => 0 end.

(* the number pushed for one variant, given the last pushed number *)
Definition assigned (last : option Z) (v : variant) : Z :=
  match v_value v with
  | EVSpec z => z
  | EVUnspec | EVDefault | EVCatchAll => last_plus_one last
  end.

Fixpoint seen_from (last : option Z) (vs : list variant) : list (Z * variant) :=
  match vs with
  | [] => []
  | v :: t => let n := assigned last v in (n, v) :: seen_from (Some n) t
  end.

Definition seen_values (vs : list variant) : list (Z * variant) := seen_from None vs.
Definition numbers (vs : list variant) : list Z := map fst (seen_values vs).

(* the pass overwrites Unspecified by Specified(assigned); Default / CatchAll stay *)
Definition set_spec (v : variant) (z : Z) : variant :=
  {| v_cfg := v_cfg v; v_name := v_name v; v_value := EVSpec z |}.
Definition mutate_one (p : Z * variant) : variant :=
  match v_value (snd p) with EVUnspec => set_spec (snd p) (fst p) | _ => snd p end.
Definition mutated (vs : list variant) : list variant := map mutate_one (seen_values vs).

(* itertools .duplicates() over the (value, id) PAIRS: a pair is reported when an equal pair occurs again *)
Definition seen_eqb (a b : Z * variant) : bool := (fst a =? fst b) && variant_id_eqb (snd a) (snd b).

(* the repair candidate for D12: duplicates_by (value, cfg) *)
Definition seen_eqb_fixed (a b : Z * variant) : bool := (fst a =? fst b) && cfg_eqb (v_cfg (snd a)) (v_cfg (snd b)).

Fixpoint has_dup {A} (eqb : A -> A -> bool) (l : list A) : bool :=
  match l with
  | [] => false
  | a :: t => existsb (eqb a) t || has_dup eqb t
  end.

(* highest_value = (1 << field_bits) - 1 *)
Definition highest (w : Z) : Z := 2 ^ w - 1.

(* (0..=highest_value).all(|val| seen_values.iter().any(|(s, _)| val == *s)).
   `all` stops at the first value that is not seen.  At most (length nums) distinct values can be seen, so
   the walk is given that much fuel; running out of fuel with values left means some value is missing
   (EnumProofs.all_seen_from_spec proves the result equals the unbounded statement, by pigeonhole). *)
Fixpoint all_seen_from (fuel : nat) (val hi : Z) (nums : list Z) : bool :=
  if hi <? val then true
  else match fuel with
       | O => false
       | S f => if existsb (Z.eqb val) nums then all_seen_from f (val + 1) hi nums else false
       end.

Definition has_fallback (vs : list variant) : bool := existsb is_fallback vs.
Definition bits_covered (w : Z) (vs : list variant) : bool :=
  all_seen_from (List.length vs) 0 (highest w) (numbers vs).

Definition enum_style (w : Z) (vs : list variant) : gen_style :=
  if has_fallback vs || bits_covered w vs then GInfallible w else GFallible.

Definition count {A} (f : A -> bool) (l : list A) : nat := List.length (filter f l).

Inductive verdict := VOk | VErr (e : gen_error) | VPanic.

(* one enum on a field of width w, in object obj, field fld; checks in the order of the code.
   [mid] stands for the checks the repairs of D16 / D17 put between the "too high" test and the "more than one
   default" test (they look at seen_values only); the historical pass has none. *)
Definition enum_check_gen (dup_eqb : Z * variant -> Z * variant -> bool)
           (mid : list (Z * variant) -> option gen_error)
           (obj fld : string) (w : Z) (e : enum_def) (use_try : bool) : verdict :=
  let vs := e_variants e in
  if 127 <=? w then VPanic                                            (* (1 << w) - 1 in i128, debug profile *)
  else if negb (w <=? 128) then VErr (mk_err "enum_too_big" [e_name e; obj; fld])
  else match vs with
  | [] => VErr (mk_err "enum_empty" [e_name e])
  | _ =>
    let seen := seen_values vs in
    if has_dup dup_eqb seen then VErr (mk_err "enum_dup_value" [e_name e; obj; fld])
    else match find (fun p => highest w <? fst p) seen with
    | Some (n, v) =>
      VErr (mk_err "enum_value_too_high" [show_vid v; e_name e; obj; fld; show_Z n; show_Z (highest w)])
    | None =>
      match mid seen with
      | Some err => VErr err
      | None =>
      if negb (count is_default vs <? 2)%nat then VErr (mk_err "enum_multi_default" [e_name e; obj; fld])
      else if negb (count is_catch_all vs <? 2)%nat then VErr (mk_err "enum_multi_catch_all" [e_name e; obj; fld])
      else match enum_style w vs with
           | GFallible => if use_try then VOk else VErr (mk_err "enum_not_covered" [e_name e; obj; fld])
           | GInfallible _ => VOk
           end
      end
    end
  end.

(* HISTORICAL models (kept: the older theorems and the C07 development speak about them) *)
Definition enum_check_with (dup_eqb : Z * variant -> Z * variant -> bool) := enum_check_gen dup_eqb (fun _ => None).
Definition enum_check := enum_check_with seen_eqb.            (* the code before 3c1cc51 *)
Definition enum_check_fixed := enum_check_with seen_eqb_fixed. (* with the D12 repair (3c1cc51), before 717250d / e1d126c *)

(* ---- the pass as it is now: D12 repair + D16 repair (717250d) + D17 repair (e1d126c) ---- *)

(* i128::MIN >> (128 - repr_bits), i128::MAX >> (128 - repr_bits)  with repr_bits = carrier_bits w *)
Definition repr_min (w : Z) : Z := - 2 ^ (carrier_bits w - 1).
Definition repr_max (w : Z) : Z := 2 ^ (carrier_bits w - 1) - 1.

(* (a) `field.base_type != BaseType::Int`: the first seen value below 0 is reported;
   (b) `field.base_type == BaseType::Int`: the first seen value outside repr_min..=repr_max is reported.
   The messages' trailing "(min = ..)" / "(min = .., max = ..)" are functions of base and width and are not part
   of the canonical error (tools/errmap.py drops them too). *)
Definition repr_mid (base : base_type) (obj fld : string) (w : Z) (e : enum_def)
           (seen : list (Z * variant)) : option gen_error :=
  match base with
  | BInt =>
    match find (fun p => (fst p <? repr_min w) || (repr_max w <? fst p)) seen with
    | Some (n, v) => Some (mk_err "enum_value_repr" [show_vid v; e_name e; obj; fld; show_Z n])
    | None => None
    end
  | _ =>
    match find (fun p => fst p <? 0) seen with
    | Some (n, v) => Some (mk_err "enum_value_too_low" [show_vid v; e_name e; obj; fld; show_Z n])
    | None => None
    end
  end.

Definition enum_check_repaired (base : base_type) (obj fld : string) (w : Z) (e : enum_def) (use_try : bool) : verdict :=
  enum_check_gen seen_eqb_fixed (repr_mid base obj fld w e) obj fld w e use_try.

(* ---- lifted to a device: pre-order over objects, all field sets, first non-ok verdict ---- *)

(* s_cfgs: the cfg of the object and of the field — what propagate_cfg combines into the generated enum's own
   cfg (the cfgs of enclosing blocks are combined in as well; that walk is C18's model and is not repeated
   here, so the cfg-aware part below is exact for objects outside cfg-gated blocks) *)
Record site := { s_obj : string; s_field : field; s_enum : enum_def; s_try : bool; s_cfgs : list cfg }.

Definition field_site (obj : string) (ocfg : cfg) (f : field) : list site :=
  match f_conv f with
  | Some (ConvEnum e t) => [{| s_obj := obj; s_field := f; s_enum := e; s_try := t; s_cfgs := [ocfg; f_cfg f] |}]
  | _ => []
  end.

Definition object_sites (o : object) : list site :=
  flat_map (field_site (object_name o) (object_cfg o)) (List.concat (object_field_sets o)).

Definition enum_sites (d : device) : list site := flat_map object_sites (preorder_objects (d_objects d)).

Definition s_width (s : site) : Z := field_width (s_field s).
Definition s_variants (s : site) : list variant := e_variants (s_enum s).

Definition check_site_with dup_eqb (s : site) : verdict :=
  enum_check_with dup_eqb (s_obj s) (f_name (s_field s)) (s_width s) (s_enum s) (s_try s).

Fixpoint first_verdict (l : list verdict) : verdict :=
  match l with
  | [] => VOk
  | VOk :: t => first_verdict t
  | v :: _ => v
  end.

Definition enum_values_check_with dup_eqb (d : device) : verdict :=
  first_verdict (map (check_site_with dup_eqb) (enum_sites d)).
Definition enum_values_check := enum_values_check_with seen_eqb.
Definition enum_values_check_fixed := enum_values_check_with seen_eqb_fixed.

(* the pass as it is now (the base type is the field's) *)
Definition check_site_repaired (s : site) : verdict :=
  enum_check_repaired (f_base (s_field s)) (s_obj s) (f_name (s_field s)) (s_width s) (s_enum s) (s_try s).
Definition enum_values_check_repaired (d : device) : verdict :=
  first_verdict (map check_site_repaired (enum_sites d)).

Definition show_verdict (v : verdict) : string :=
  match v with VOk => "ok" | VErr e => "error:" ++ show_error e | VPanic => "panic" end.

(* ------------------------------------------------------------------ *)
(* lir_transform::transform_enum: SECOND numbering + the emitted enum   *)
(* ------------------------------------------------------------------ *)

Record evariant := { ev_name : string; ev_cfg : cfg; ev_num : Z; ev_default : bool; ev_catch_all : bool }.

(* next_variant_number : Option<i128>; unwrap_or_default = 0 *)
Fixpoint emit_from (next : option Z) (vs : list variant) : list evariant :=
  match vs with
  | [] => []
  | v :: t =>
    let n := match v_value v with
             | EVSpec z => z
             | EVUnspec | EVDefault | EVCatchAll => match next with Some x => x | None => 0 end
             end in
    {| ev_name := v_name v; ev_cfg := v_cfg v; ev_num := n;
       ev_default := is_default v; ev_catch_all := is_catch_all v |} :: emit_from (Some (n + 1)) t
  end.

Definition emit_variants (vs : list variant) : list evariant := emit_from None vs.

Record eenum := { ee_name : string; ee_signed : bool; ee_bits : Z; ee_variants : list evariant }.

Definition transform_enum (e : enum_def) (b : base_type) (w : Z) : eenum :=
  {| ee_name := e_name e;
     ee_signed := match b with BInt => true | _ => false end;
     ee_bits := match b with BBool => 8 | _ => carrier_bits w end;
     ee_variants := emit_variants (e_variants e) |}.

(* the enum as lir_transform sees it: after the pass mutated the variants and set the style *)
Definition styled (s : site) : enum_def :=
  {| e_cfg := e_cfg (s_enum s); e_name := e_name (s_enum s); e_variants := mutated (s_variants s);
     e_style := Some (enum_style (s_width s) (s_variants s)) |}.

(* collect_enums: (enum, base type, field width) in pre-order *)
Definition collect_enums (d : device) : list (enum_def * base_type * Z) :=
  map (fun s => (styled s, f_base (s_field s), s_width s)) (enum_sites d).

Definition emitted_enums (d : device) : list eenum :=
  map (fun t => match t with (e, b, w) => transform_enum e b w end) (collect_enums d).

(* ---- values of the emitted Rust enum and its conversions ---- *)

Inductive evalue := VUnit (v : evariant) | VCatch (v : evariant) (payload : Z).

(* impl From<Enum> for base: unit variant => its number, catch-all(num) => num *)
Definition to_num (x : evalue) : Z :=
  match x with VUnit v => ev_num v | VCatch _ p => p end.

Inductive conv_result := CVal (x : evalue) | CErr (source : Z) (target : string).

(* impl Default: the first variant flagged default; `Self::Name` (+ `(number)` if it were a catch-all) *)
Definition default_value (d : evariant) : evalue :=
  if ev_catch_all d then VCatch d (ev_num d) else VUnit d.

Definition enum_default (e : eenum) : option evalue :=
  match find ev_default (ee_variants e) with Some d => Some (default_value d) | None => None end.

(* the emitted match: arms `number => Self::Name` for the non-catch-all variants in declaration order (the
   first matching arm wins), then `val => Self::CatchAll(val)` if there is a catch-all, else
   `_ => Self::default()` if there is a default, else `val => Err(ConversionError{source: val, target})` *)
Definition arm_matches (raw : Z) (v : evariant) : bool := negb (ev_catch_all v) && (ev_num v =? raw).

Definition from_num (e : eenum) (raw : Z) : conv_result :=
  match find (arm_matches raw) (ee_variants e) with
  | Some v => CVal (VUnit v)
  | None =>
    match find ev_catch_all (ee_variants e) with
    | Some c => CVal (VCatch c raw)
    | None =>
      match find ev_default (ee_variants e) with
      | Some d => CVal (default_value d)
      | None => CErr raw (ee_name e)
      end
    end
  end.

(* From is emitted iff there is a catch-all or a default; otherwise TryFrom *)
Definition ee_fallible (e : eenum) : bool :=
  negb (existsb ev_catch_all (ee_variants e) || existsb ev_default (ee_variants e)).

(* ------------------------------------------------------------------ *)
(* transform_field_set: conversion-method choice, and the getter        *)
(* ------------------------------------------------------------------ *)

Inductive conv_method := CMNone | CMBool | CMInto (ty : string) | CMUnsafeInto (ty : string) | CMTryInto (ty : string).

Definition conv_type_name (c : conversion) : string :=
  match c with ConvDirect n _ => n | ConvEnum e _ => e_name e end.
Definition conv_use_try (c : conversion) : bool :=
  match c with ConvDirect _ t => t | ConvEnum _ t => t end.

(* enum_list.clone().find(|e| e.name == fc.type_name()) : first enum of that exact name *)
Definition find_enum (enums : list (enum_def * base_type * Z)) (name : string) : option enum_def :=
  match find (fun t => String.eqb (e_name (fst (fst t))) name) enums with
  | Some t => Some (fst (fst t))
  | None => None
  end.

(* HISTORICAL (before 6916a8d, defect D18): the FIRST generated enum of that name decided *)
Definition conv_choice_first_hit (enums : list (enum_def * base_type * Z)) (f : field) : conv_method :=
  match f_conv f with
  | None => match f_base f with BBool => CMBool | _ => CMNone end
  | Some c =>
    let name := conv_type_name c in
    if conv_use_try c then CMTryInto name
    else match find_enum enums name with
         | Some e => match e_style e with
                     | Some (GInfallible bits) => if field_width f <=? bits then CMUnsafeInto name else CMInto name
                     | _ => CMInto name
                     end
         | None => CMInto name
         end
  end.

(* The rule as it is now (6916a8d, repair of D18).  Generated enums can share a name when they are behind
   different cfgs: enum_list.clone().filter(|e| e.name == fc.type_name()) — ALL of them, in collect order;
   `try` wins first; UnsafeInto iff there is at least one (`peek().is_some()`) and EVERY one is
   Infallible{bit_size} with field width <= bit_size; otherwise Into. *)
Definition named_enums (enums : list (enum_def * base_type * Z)) (name : string) : list enum_def :=
  map (fun t => fst (fst t)) (filter (fun t => String.eqb (e_name (fst (fst t))) name) enums).

Definition infallible_for (w : Z) (e : enum_def) : bool :=
  match e_style e with
  | Some (GInfallible bits) => w <=? bits
  | _ => false
  end.

Definition conv_choice (enums : list (enum_def * base_type * Z)) (f : field) : conv_method :=
  match f_conv f with
  | None => match f_base f with BBool => CMBool | _ => CMNone end
  | Some c =>
    let name := conv_type_name c in
    if conv_use_try c then CMTryInto name
    else match named_enums enums name with
         | [] => CMInto name
         | l => if forallb (infallible_for (field_width f)) l then CMUnsafeInto name else CMInto name
         end
  end.

(* what `load_*::<carrier>` returns for the bit pattern p of a field of width w: the loads OR the bits into a
   zeroed carrier and never sign-extend, so the value is p itself unless the carrier is signed and the field
   fills it completely (then the top bit is the sign bit). *)
Definition raw_of_pattern (b : base_type) (w p : Z) : Z :=
  match b with
  | BInt => if w =? carrier_bits w then wrap {| signed := true; bits := w |} p else p
  | _ => p
  end.

(* `super::Name` in the field-set module resolves to the generated enum of that name *)
Definition resolve (emitted : list eenum) (name : string) : option eenum :=
  find (fun e => String.eqb (ee_name e) name) emitted.

Inductive getter_value :=
| GPlain (raw : Z)                 (* no conversion / bool / a user type the model knows nothing about *)
| GEnum (x : evalue)               (* Into / UnsafeInto: the enum value *)
| GResult (r : conv_result).       (* TryInto: Result<Enum, ConversionError> *)

(* `unsafe { raw.try_into().unwrap_unchecked() }` on an Err is undefined behaviour: Fail.  (Common.failkind
   has no dedicated constructor; OOB is its "unchecked access outside the contract = UB" kind.)
   `raw.into()` on an enum without From does not compile; the model marks it with AssertFail so that it can
   never be confused with a value. *)
Definition UB_unwrap_unchecked : failkind := OOB.
Definition NoFromImpl : failkind := AssertFail.

(* the getter for a given conversion method; emitted = the enum items present (passed in so that tables over all
   bit patterns compute them once) *)
Definition getter_of_method (m : conv_method) (emitted : list eenum) (f : field) (p : Z) : outcome getter_value :=
  let raw := raw_of_pattern (f_base f) (field_width f) p in
  match m with
  | CMNone | CMBool => Ok (GPlain raw)
  | CMTryInto n =>
    match resolve emitted n with
    | Some e => Ok (GResult (from_num e raw))
    | None => Ok (GPlain raw)
    end
  | CMUnsafeInto n =>
    match resolve emitted n with
    | Some e => match from_num e raw with
                | CVal x => Ok (GEnum x)
                | CErr _ _ => Fail UB_unwrap_unchecked
                end
    | None => Ok (GPlain raw)
    end
  | CMInto n =>
    match resolve emitted n with
    | Some e => if ee_fallible e then Fail NoFromImpl
                else match from_num e raw with CVal x => Ok (GEnum x) | CErr _ _ => Fail NoFromImpl end
    | None => Ok (GPlain raw)
    end
  end.

(* enums = collect_enums d, emitted = emitted_enums d *)
Definition getter_with (enums : list (enum_def * base_type * Z)) (emitted : list eenum)
           (f : field) (p : Z) : outcome getter_value :=
  getter_of_method (conv_choice enums f) emitted f p.

Definition getter (d : device) (f : field) (p : Z) : outcome getter_value :=
  getter_with (collect_enums d) (emitted_enums d) f p.

(* ---- cfg: which generated enums exist in a given build ---- *)

(* a build decides every #[cfg(...)] predicate (they are opaque strings here) *)
Definition cfg_env : Type := string -> bool.
Definition cfg_on (env : cfg_env) (c : cfg) : bool := match c with None => true | Some s => env s end.
Definition site_on (env : cfg_env) (s : site) : bool := forallb (cfg_on env) (s_cfgs s).

(* the enum items present in the build.  The conversion-method choice stays cfg-blind, as in the code:
   `enum_list.find(|e| e.name == ...)` looks at names only. *)
Definition emitted_enums_env (env : cfg_env) (d : device) : list eenum :=
  map (fun s => transform_enum (styled s) (f_base (s_field s)) (s_width s)) (filter (site_on env) (enum_sites d)).

Definition getter_env (env : cfg_env) (d : device) (f : field) (p : Z) : outcome getter_value :=
  getter_with (collect_enums d) (emitted_enums_env env d) f p.

(* HISTORICAL (before 6916a8d): the getter of a build under the first-hit rule *)
Definition getter_env_first_hit (env : cfg_env) (d : device) (f : field) (p : Z) : outcome getter_value :=
  getter_of_method (conv_choice_first_hit (collect_enums d) f) (emitted_enums_env env d) f p.

Definition cfg_free (d : device) : Prop :=
  forall s, In s (enum_sites d) -> forall c, In c (s_cfgs s) -> c = None.

(* ------------------------------------------------------------------ *)
(* Specification, written from the text of C15                          *)
(* ------------------------------------------------------------------ *)

(* "Implicit numbering starts at 0 and continues one above the previous variant, whatever that variant's
   kind": [numbering_ok vs ns] says ns is that numbering of vs (stated position by position). *)
Definition numbering_ok (vs : list variant) (ns : list Z) : Prop :=
  List.length ns = List.length vs /\
  forall i v n, nth_error vs i = Some v -> nth_error ns i = Some n ->
    match v_value v with
    | EVSpec z => n = z
    | _ => match i with
           | O => n = 0
           | S j => exists m, nth_error ns j = Some m /\ n = m + 1
           end
    end.

(* "two variants active under the same cfg resolve to the same number" *)
Definition spec_duplicate (vs : list variant) : Prop :=
  exists i j a b n, (i < j)%nat /\ nth_error vs i = Some a /\ nth_error vs j = Some b /\
    nth_error (numbers vs) i = Some n /\ nth_error (numbers vs) j = Some n /\ v_cfg a = v_cfg b.

(* "a variant's number does not fit the field's width" — as DESIGN.md fixes it: above 2^w - 1 *)
Definition spec_too_high (w : Z) (vs : list variant) : Prop := exists n, In n (numbers vs) /\ n > 2 ^ w - 1.

(* "a default, a catch-all, or a variant for every bit pattern of the field" *)
Definition spec_total (w : Z) (vs : list variant) : Prop :=
  (exists v, In v vs /\ v_value v = EVDefault) \/ (exists v, In v vs /\ v_value v = EVCatchAll) \/
  (forall p, 0 <= p < 2 ^ w -> In p (numbers vs)).

Definition spec_reject (w : Z) (vs : list variant) (use_try : bool) : Prop :=
  vs = [] \/ spec_duplicate vs \/ spec_too_high w vs \/
  (count is_default vs >= 2)%nat \/ (count is_catch_all vs >= 2)%nat \/
  (use_try = false /\ ~ spec_total w vs).

(* "a variant's number does not fit the field's width", the part below / signed part (D16, D17): an enum on a
   field that is not `int` is emitted with an unsigned repr, so a number below 0 does not fit; an enum on an
   `int` field of w bits is emitted with the signed repr i{c}, c = carrier_bits w = the least power of two that
   is >= max(8, w), so a number outside -2^(c-1) .. 2^(c-1)-1 does not fit. *)
Definition unrepresentable (base : base_type) (w n : Z) : Prop :=
  match base with
  | BInt => n < - 2 ^ (carrier_bits w - 1) \/ n > 2 ^ (carrier_bits w - 1) - 1
  | _ => n < 0
  end.
Definition spec_unrepresentable (base : base_type) (w : Z) (vs : list variant) : Prop :=
  exists n, In n (numbers vs) /\ unrepresentable base w n.

(* the property's rule as DESIGN.md section 9.2 fixes it after the repairs *)
Definition spec_reject_repaired (base : base_type) (w : Z) (vs : list variant) (use_try : bool) : Prop :=
  spec_reject w vs use_try \/ spec_unrepresentable base w vs.

(* the class of defect D12: same number, same cfg, DIFFERENT names *)
Definition d12_class (vs : list variant) : Prop :=
  exists i j a b n, (i < j)%nat /\ nth_error vs i = Some a /\ nth_error vs j = Some b /\
    nth_error (numbers vs) i = Some n /\ nth_error (numbers vs) j = Some n /\ v_cfg a = v_cfg b /\
    v_name a <> v_name b.

(* executable versions (EnumProofs: *_reflect) used by the correspondence check *)
Definition spec_duplicate_b (vs : list variant) : bool := has_dup seen_eqb_fixed (seen_values vs).
Definition d12_eqb (a b : Z * variant) : bool :=
  (fst a =? fst b) && cfg_eqb (v_cfg (snd a)) (v_cfg (snd b)) && negb (String.eqb (v_name (snd a)) (v_name (snd b))).
Definition d12_class_b (vs : list variant) : bool := has_dup d12_eqb (seen_values vs).
Definition spec_reject_b (w : Z) (vs : list variant) (use_try : bool) : bool :=
  match vs with [] => true | _ => false end ||
  spec_duplicate_b vs || existsb (fun n => highest w <? n) (numbers vs) ||
  negb (count is_default vs <? 2)%nat || negb (count is_catch_all vs <? 2)%nat ||
  (negb use_try && negb (has_fallback vs || bits_covered w vs)).

Definition unrepresentable_b (base : base_type) (w n : Z) : bool :=
  match base with
  | BInt => (n <? - 2 ^ (carrier_bits w - 1)) || (2 ^ (carrier_bits w - 1) - 1 <? n)
  | _ => n <? 0
  end.
Definition spec_unrepresentable_b (base : base_type) (w : Z) (vs : list variant) : bool :=
  existsb (unrepresentable_b base w) (numbers vs).
Definition spec_reject_repaired_b (base : base_type) (w : Z) (vs : list variant) (use_try : bool) : bool :=
  spec_reject_b w vs use_try || spec_unrepresentable_b base w vs.

(* ------------------------------------------------------------------ *)
(* canonical result strings for the correspondence checks               *)
(* ------------------------------------------------------------------ *)

Definition show_evariant (v : evariant) : string :=
  ev_name v ++ "=" ++ show_Z (ev_num v) ++
  (if ev_default v then ":default" else "") ++ (if ev_catch_all v then ":catch_all" else "").

Definition show_base (e : eenum) : string := (if ee_signed e then "i" else "u") ++ show_Z (ee_bits e).

Definition show_eenum (e : eenum) : string :=
  ee_name e ++ "/" ++ show_base e ++ "/" ++ (if ee_fallible e then "try" else "from") ++
  "{" ++ show_list show_evariant (ee_variants e) ++ "}".

(* C15: verdict of the pass, then (if accepted) every emitted enum *)
Definition c15_result_with dup_eqb (d : device) : string :=
  match enum_values_check_with dup_eqb d with
  | VOk => "ok#" ++ String.concat ";" (map show_eenum (emitted_enums d))
  | v => show_verdict v
  end.
Definition c15_result := c15_result_with seen_eqb.
Definition c15_result_fixed := c15_result_with seen_eqb_fixed.

(* C15: verdict of the SPEC for the device (reject iff some site is rejected by the property's rule), and
   whether some site is in the D12 class *)
Definition c15_spec (d : device) : string :=
  (if existsb (fun s => spec_reject_b (s_width s) (s_variants s) (s_try s)) (enum_sites d) then "reject" else "accept")
  ++ (if existsb (fun s => d12_class_b (s_variants s)) (enum_sites d) then ":d12" else "").

(* the same for the pass as it is now (D12, D16, D17 repaired).  The spec string also names the defect classes
   the definition falls into (":d12" as above; ":d16" = a negative number on a field that is not int; ":d17" = a
   number outside the signed repr of an int field), so that the check can say WHICH defect came back. *)
Definition c15_result_repaired (d : device) : string :=
  match enum_values_check_repaired d with
  | VOk => "ok#" ++ String.concat ";" (map show_eenum (emitted_enums d))
  | v => show_verdict v
  end.

(* the present pass with the name-sensitive duplicate test of before 3c1cc51: only used by the check when a D12
   entry of KNOWN_FINDINGS.jsonl is `open` again (no theorem speaks about it) *)
Definition c15_result_repaired_d12_open (d : device) : string :=
  match first_verdict (map (fun s => enum_check_gen seen_eqb
                                       (repr_mid (f_base (s_field s)) (s_obj s) (f_name (s_field s)) (s_width s) (s_enum s))
                                       (s_obj s) (f_name (s_field s)) (s_width s) (s_enum s) (s_try s)) (enum_sites d)) with
  | VOk => "ok#" ++ String.concat ";" (map show_eenum (emitted_enums d))
  | v => show_verdict v
  end.

Definition s_base (s : site) : base_type := f_base (s_field s).
Definition is_int (b : base_type) : bool := match b with BInt => true | _ => false end.

Definition c15_spec_repaired (d : device) : string :=
  (if existsb (fun s => spec_reject_repaired_b (s_base s) (s_width s) (s_variants s) (s_try s)) (enum_sites d)
   then "reject" else "accept")
  ++ (if existsb (fun s => d12_class_b (s_variants s)) (enum_sites d) then ":d12" else "")
  ++ (if existsb (fun s => negb (is_int (s_base s)) && spec_unrepresentable_b (s_base s) (s_width s) (s_variants s))
                 (enum_sites d) then ":d16" else "")
  ++ (if existsb (fun s => is_int (s_base s) && spec_unrepresentable_b (s_base s) (s_width s) (s_variants s))
                 (enum_sites d) then ":d17" else "").

(* ---- C07: run-length encoded tables over all raw values ---- *)

Inductive token :=
| TUnit (name : string)        (* Ok / value: unit variant *)
| TCatchRaw (name : string)    (* catch-all carrying exactly the raw value *)
| TCatch (name : string) (p : Z)
| TErrRaw (target : string)    (* Err {source = raw, target} *)
| TErr (source : Z) (target : string)
| TPlain                       (* the raw value itself *)
| TNum (z : Z)                 (* a number different from the raw value *)
| TUB | TNoCompile.

Definition token_of_value (raw : Z) (x : evalue) : token :=
  match x with
  | VUnit v => TUnit (ev_name v)
  | VCatch v p => if p =? raw then TCatchRaw (ev_name v) else TCatch (ev_name v) p
  end.

Definition token_of_conv (raw : Z) (r : conv_result) : token :=
  match r with
  | CVal x => token_of_value raw x
  | CErr s t => if s =? raw then TErrRaw t else TErr s t
  end.

Definition show_token (t : token) : string :=
  match t with
  | TUnit n => n
  | TCatchRaw n => n ++ "(raw)"
  | TCatch n p => n ++ "(" ++ show_Z p ++ ")"
  | TErrRaw t => "Err(raw," ++ t ++ ")"
  | TErr s t => "Err(" ++ show_Z s ++ "," ++ t ++ ")"
  | TPlain => "raw"
  | TNum z => show_Z z
  | TUB => "UB"
  | TNoCompile => "nocompile"
  end.

Definition token_eqb (a b : token) : bool := String.eqb (show_token a) (show_token b).

(* run-length encoding of f over lo, lo+1, ..., lo+n-1 as "first..last:token" runs.  Iterated with N.iter
   (binary recursion on the count) so that 2^16 values need no deep recursion and no large nat. *)
Definition rle_state : Type := Z * option (Z * token) * list (Z * Z * token).

Definition rle_step (f : Z -> token) (st : rle_state) : rle_state :=
  match st with
  | (x, cur, acc) =>
    let t := f x in
    match cur with
    | None => (x + 1, Some (x, t), acc)
    | Some (s, t0) => if token_eqb t0 t then (x + 1, cur, acc)
                      else (x + 1, Some (x, t), (s, x - 1, t0) :: acc)
    end
  end.

Definition rle_runs (lo n : Z) (f : Z -> token) : list (Z * Z * token) :=
  match N.iter (Z.to_N n) (rle_step f) (lo, None, []) with
  | (x, Some (s, t), acc) => rev ((s, x - 1, t) :: acc)
  | (_, None, acc) => rev acc
  end.

Definition show_run (r : Z * Z * token) : string :=
  match r with (s, e, t) => show_Z s ++ ".." ++ show_Z e ++ ":" ++ show_token t end.

Definition rle (lo : Z) (n : Z) (f : Z -> token) : string :=
  String.concat "," (map show_run (rle_runs lo n f)).

(* all raw values of the enum's base type that a field of width w can deliver *)
Definition lo_of (signed_full : bool) (w : Z) : Z := if signed_full then - 2 ^ (w - 1) else 0.

Definition show_roundtrip (e : eenum) : string :=
  (* for every unit variant: from_num (to_num v) *)
  show_list (fun v => ev_name v ++ "->" ++
                      (if ev_catch_all v then "-" else show_token (token_of_conv (ev_num v) (from_num e (to_num (VUnit v))))))
            (ee_variants e).

Definition token_of_getter (raw : Z) (o : outcome getter_value) : token :=
  match o with
  | Ok (GPlain _) => TPlain
  | Ok (GEnum x) => token_of_value raw x
  | Ok (GResult r) => token_of_conv raw r
  | Fail OOB => TUB
  | Fail _ => TNoCompile
  end.

Definition show_method (m : conv_method) : string :=
  match m with
  | CMNone => "none" | CMBool => "bool" | CMInto n => "into:" ++ n
  | CMUnsafeInto n => "unsafe_into:" ++ n | CMTryInto n => "try_into:" ++ n
  end.

(* one line per field that has a conversion: object.field method | getter table over all bit patterns *)
Definition c07_field_line (enums : list (enum_def * base_type * Z)) (emitted : list eenum)
           (obj : string) (f : field) : list string :=
  match f_conv f with
  | None => []
  | Some _ =>
    let w := field_width f in
    [obj ++ "." ++ f_name f ++ " " ++ show_method (conv_choice enums f) ++ " | " ++
     rle 0 (2 ^ w) (fun p => token_of_getter (raw_of_pattern (f_base f) w p) (getter_with enums emitted f p))]
  end.

(* one line per emitted enum: the From/TryFrom table over every raw value of a w-bit field, the number Into gives
   back for each of these results ("raw" = the value converted from; "nocompile" marks an Err, which has no
   Into), the Default, and the Into -> From round trip of every unit variant *)
Definition c07_enum_line (t : enum_def * base_type * Z) : string :=
  match t with
  | (e, b, w) =>
    let ee := transform_enum e b w in
    let full := match b with BInt => w =? carrier_bits w | _ => false end in
    "enum " ++ show_eenum ee ++ " | " ++
    rle (lo_of full w) (2 ^ w) (fun raw => token_of_conv raw (from_num ee raw)) ++
    " | into: " ++
    rle (lo_of full w) (2 ^ w) (fun raw => match from_num ee raw with
                                           | CVal x => if to_num x =? raw then TPlain else TNum (to_num x)
                                           | CErr _ _ => TNoCompile
                                           end) ++
    " | default=" ++ match enum_default ee with Some x => show_token (token_of_value (-1) x) | None => "-" end ++
    " | " ++ show_roundtrip ee
  end.

(* the getter tables in the build where exactly the cfg predicates in [on] hold *)
Definition c07_env_result (on : list string) (d : device) : string :=
  let env := fun c => existsb (String.eqb c) on in
  match enum_values_check_repaired d with
  | VOk =>
    let enums := collect_enums d in
    let emitted := emitted_enums_env env d in
    String.concat (String (ascii_of_nat 10) "")
      (flat_map (fun o => if cfg_on env (object_cfg o)
                          then flat_map (fun f => if cfg_on env (f_cfg f) then c07_field_line enums emitted (object_name o) f else [])
                                        (List.concat (object_field_sets o))
                          else [])
                (preorder_objects (d_objects d)))
  | v => show_verdict v
  end.

Definition c07_result (d : device) : string :=
  match enum_values_check_repaired d with
  | VOk =>
    let enums := collect_enums d in
    let emitted := emitted_enums d in
    String.concat (String (ascii_of_nat 10) "")
      (map c07_enum_line enums ++
       flat_map (fun o => flat_map (c07_field_line enums emitted (object_name o)) (List.concat (object_field_sets o)))
                (preorder_objects (d_objects d)))
  | v => show_verdict v
  end.
