(* Bits.v — executable model of device-driver/src/ops.rs.
   Transcribed statement by statement; machine behaviour (usize underflow, shift
   overflow, get_unchecked outside the slice) is explicit through [outcome].
   The four Rust functions load_lsb0/load_msb0/store_lsb0/store_msb0 differ from each
   other only in (a) the bit looked at inside the byte and (b) the target position
   (identity vs pivot_msb0); the model takes the bit order as a parameter and
   [load_lsb0] etc. are its instances.  No proofs in this file. *)
From Coq Require Import ZArith List Bool Lia.
From DD Require Import Common Carrier.
From DDGen Require Import Dedup.
Import ListNotations.
Open Scope Z_scope.

Inductive byte_order := LE | BE.
Inductive bit_order := LSB0 | MSB0.

(* ByteOrder::get_byte_index — BE is `data_len - (bit_index / 8) - 1` in usize *)
Definition get_byte_index (bo : byte_order) (len k : Z) : outcome Z :=
  match bo with
  | LE => Ok (k / 8)
  | BE => let r := len - k / 8 - 1 in if r <? 0 then Fail Underflow else Ok r
  end.

(* get_byte_from_index: *data.get_unchecked(idx) *)
Definition get_byte (bo : byte_order) (data : list Z) (k : Z) : outcome Z :=
  do idx <- get_byte_index bo (Z.of_nat (length data)) k;
  match nth_error data (Z.to_nat idx) with
  | Some b => Ok b
  | None => Fail OOB
  end.

(* get_byte_from_index_mut followed by a write of the new byte *)
Definition put_byte (bo : byte_order) (data : list Z) (k : Z) (b : Z) : outcome (list Z) :=
  do idx <- get_byte_index bo (Z.of_nat (length data)) k;
  if idx <? Z.of_nat (length data) then Ok (set_nth (Z.to_nat idx) b data) else Fail OOB.

(* usize::next_multiple_of(8) *)
Definition next_mult8 (x : Z) : Z := if x mod 8 =? 0 then x else x + (8 - x mod 8).
Definition b2z (b : bool) : Z := if b then 1 else 0.

(* fn pivot_msb0(start, end, i) -> usize, including the isize detour *)
Definition pivot_msb0 (s e i : Z) : outcome Z :=
  do np <-
    (if i / 8 =? s / 8 then
       let nb := Z.min (next_mult8 (s + 1)) e - s in
       Ok (nb, s + nb / 2)
     else
       if e - 8 <? 0 then Fail Underflow else
       let nb := e - next_mult8 (e - 8) in
       if nb <? 0 then Fail Underflow else
       Ok (nb, e - (nb + 1) / 2));
  let '(nb, pv) := np in
  let even := b2z (nb mod 2 =? 0) in
  let diff := pv - i in
  let diff := if diff <=? 0 then diff - even else diff in
  let j := i + diff * 2 in
  let j := if 0 <? diff then j - even else j + even in
  if j <? 0 then Fail Underflow else Ok j.

(* `x << n` on a DedupType of [wd] bits holding a non-negative bit pattern *)
Definition shl (wd x n : Z) : outcome Z :=
  if (n <? 0) || (wd <=? n) then Fail ShiftOvf
  else Ok (Z.land (Z.shiftl x n) (Z.ones wd)).

(* `x >> n` : arithmetic for signed, logical for unsigned; on the mathematical value
   both are floor division by 2^n *)
Definition shr (wd x n : Z) : outcome Z :=
  if (n <? 0) || (wd <=? n) then Fail ShiftOvf
  else Ok (Z.shiftr x n).

Definition bit_in_byte (bito : bit_order) (i : Z) : Z :=
  match bito with LSB0 => i mod 8 | MSB0 => 7 - i mod 8 end.

Definition target_pos (bito : bit_order) (s e i : Z) : outcome Z :=
  match bito with LSB0 => Ok i | MSB0 => pivot_msb0 s e i end.

(* load_*::inner — [out] is the bit pattern of the DedupType accumulator *)
Fixpoint load_loop (fuel : nat) (bo : byte_order) (bito : bit_order) (wd : Z)
         (data : list Z) (s e i out : Z) : outcome Z :=
  if i <? e then
    match fuel with
    | O => Fail OutOfFuel
    | S f =>
      do byte <- get_byte bo data i;
      if (i mod 8 =? 0) && (i + 8 <=? e) then
        do x <- shl wd byte (i - s);
        load_loop f bo bito wd data s e (i + 8) (Z.lor out x)
      else
        do j <- target_pos bito s e i;
        let bit := Z.land (Z.shiftr byte (bit_in_byte bito i)) 1 in
        do x <- shl wd bit (j - s);
        load_loop f bo bito wd data s e (i + 1) (Z.lor out x)
    end
  else Ok out.

(* store_*::inner — [v] is the mathematical value held by the DedupType *)
Fixpoint store_loop (fuel : nat) (bo : byte_order) (bito : bit_order) (wd : Z)
         (v s e i : Z) (data : list Z) : outcome (list Z) :=
  if i <? e then
    match fuel with
    | O => Fail OutOfFuel
    | S f =>
      do byte <- get_byte bo data i;
      if (i mod 8 =? 0) && (i + 8 <=? e) then
        do x <- shr wd v (i - s);
        do data' <- put_byte bo data i (x mod 256);
        store_loop f bo bito wd v s e (i + 8) data'
      else
        do j <- target_pos bito s e i;
        do x <- shr wd v (j - s);
        let bit := Z.land (x mod 256) 1 in
        let b := bit_in_byte bito i in
        let cleared := Z.land byte (255 - Z.shiftl 1 b) in
        let newbyte := Z.lor cleared (Z.shiftl bit b) in
        do data' <- put_byte bo data i newbyte;
        store_loop f bo bito wd v s e (i + 1) data'
    end
  else Ok data.

(* The DedupCast table is translated from the source (gen/Dedup.v). Exactly one row
   must apply for a given pointer width; anything else is a compile error in Rust. *)
Definition dedup_of (ptrw : Z) (c : cty) : option cty :=
  match dedup_lookup dedup_rows ptrw c with
  | [d] => Some d
  | _ => None
  end.

Definition fuel_for (s e : Z) : nat := Z.to_nat (e - s).

(* load_xxx::<T, ByteO>(data, start, end) -> T ; result is T's mathematical value.
   None = no (unique) DedupCast impl: does not compile. *)
Definition load (ptrw : Z) (bo : byte_order) (bito : bit_order) (c : cty)
           (data : list Z) (s e : Z) : option (outcome Z) :=
  match dedup_of ptrw c with
  | None => None
  | Some d =>
    let dt := cty_ity ptrw d in
    Some (do p <- load_loop (fuel_for s e) bo bito (bits dt) data s e s 0;
          (* the accumulator's value as DedupType, then `as T` (cast_back) *)
          Ok (wrap (cty_ity ptrw c) (wrap dt p)))
  end.

(* store_xxx::<T, ByteO>(value, start, end, data) ; [v] is T's mathematical value *)
Definition store (ptrw : Z) (bo : byte_order) (bito : bit_order) (c : cty)
           (v s e : Z) (data : list Z) : option (outcome (list Z)) :=
  match dedup_of ptrw c with
  | None => None
  | Some d =>
    let dt := cty_ity ptrw d in
    Some (store_loop (fuel_for s e) bo bito (bits dt) (wrap dt v) s e s data)
  end.

Definition load_lsb0 ptrw bo := load ptrw bo LSB0.
Definition load_msb0 ptrw bo := load ptrw bo MSB0.
Definition store_lsb0 ptrw bo := store ptrw bo LSB0.
Definition store_msb0 ptrw bo := store ptrw bo MSB0.
