(* ModifyField.v — composition of the register protocol (Proto.v, C05) with the generated field setters
   (FieldSetGen.v, C06) and the layout theorems of the bit operations (C01/C02):
   `reg.modify(|r| r.set_x(v))` reads once, then writes back — to the same address, with the same size —
   exactly the bytes the device returned with the set-bits of field x replaced by v's and every other
   set-bit untouched; a failed read writes nothing. *)
From Coq Require Import ZArith List Bool String Lia ZifyBool.
From DD Require Import Common Carrier Bits BitsSpec BitsProofs BitsRoundtrip Mir GenErr Layout LayoutProofs
  FieldSetGen FieldSetGenProofs Proto ProtoSpec ProtoCases ProtoProofs.
Import ListNotations.
Open Scope Z_scope.
Ltac Zify.zify_post_hook ::= Z.div_mod_to_equations.

(* the closure `|r| r.set_x(v)` over the register's byte array *)
Definition field_setter_closure (ptrw : Z) (bo : byte_ord) (bi : bit_ord) (f : field) (v : Z) : closure unit :=
  fun reg => match setter_call ptrw (setter_of bo bi (widen f)) v reg with
             | Some (Ok b) => (b, tt)
             | _ => (reg, tt)          (* excluded by the theorem: the setter of an accepted field returns *)
             end.

Lemma nbytes_div_ceil8 size : 0 <= size -> Z.of_nat (nbytes size) = div_ceil8 size.
Proof. intros H. unfold nbytes, div_ceil8. rewrite Z2Nat.id by lia. reflexivity. Qed.

Theorem modify_sets_only_the_field ptrw bo bi size f v orc h a :
  In ptrw ptr_widths -> 0 < size ->
  field_ok size f -> 0 <= f_start f -> field_end f - f_start f <= 128 ->
  let c1 := RegRead a size (zeros (nbytes size)) in
  let r1 := orc h c1 in
  let reg := overlay (r_data r1) (zeros (nbytes size)) in
  bytes_ok reg ->
  exists data,
    store_post (to_byte_order bo) (to_bit_order bi) v (f_start f) (field_end f) reg data /\
    run orc (reg_modify a size (field_setter_closure ptrw bo bi f v)) h =
      match r_res r1 with
      | RErr e => ([(c1, r1)], Done (RErr e))
      | ROk _ => let c2 := RegWrite a size data in
                 let r2 := orc (h ++ [(c1, r1)])%list c2 in
                 ([(c1, r1); (c2, r2)], Done (match r_res r2 with ROk _ => ROk tt | RErr e => RErr e end))
      end.
Proof.
  intros Hp Hsz Hf Hf0 Hfw c1 r1 reg Hreg.
  assert (Hlen : Z.of_nat (List.length reg) = div_ceil8 size).
  { unfold reg. rewrite overlay_length. unfold zeros. rewrite repeat_length. apply nbytes_div_ceil8. lia. }
  destruct (setter_writes_declared_range ptrw bo bi size f v reg) as (data & Hset & Hpost);
    try assumption; try lia.
  exists data. split; [exact Hpost|].
  pose proof (reg_modify_spec unit orc h a size (field_setter_closure ptrw bo bi f v)) as H.
  cbv zeta in H. destruct H as [_ H]. fold c1 in H. fold r1 in H. fold reg in H.
  assert (Hcc : call_closure (field_setter_closure ptrw bo bi f v) reg = (data, tt)).
  { unfold call_closure, field_setter_closure. rewrite Hset.
    destruct Hpost as (Hl & _). rewrite overlay_same_length by exact Hl. reflexivity. }
  rewrite Hcc in H. cbn [fst snd] in H. exact H.
Qed.

(* `reg.write(|r| r.set_x(v))`: exactly one write whose bytes are the RESET value with the set-bits of x's
   declared range replaced by v's (and with `write_with_zero`, the all-zero array instead of the reset value). *)
Theorem write_sets_only_the_field ptrw bo bi size f v orc h a reset :
  In ptrw ptr_widths -> 0 < size ->
  field_ok size f -> 0 <= f_start f -> field_end f - f_start f <= 128 ->
  List.length reset = nbytes size -> bytes_ok reset ->
  exists data,
    store_post (to_byte_order bo) (to_bit_order bi) v (f_start f) (field_end f) reset data /\
    run orc (reg_write a size reset (field_setter_closure ptrw bo bi f v)) h =
      let c := RegWrite a size data in
      let r := orc h c in
      ([(c, r)], Done (match r_res r with ROk _ => ROk tt | RErr e => RErr e end)).
Proof.
  intros Hp Hsz Hf Hf0 Hfw Hlr Hreset.
  assert (Hlen : Z.of_nat (List.length reset) = div_ceil8 size).
  { rewrite Hlr. apply nbytes_div_ceil8. lia. }
  destruct (setter_writes_declared_range ptrw bo bi size f v reset) as (data & Hset & Hpost);
    try assumption; try lia.
  exists data. split; [exact Hpost|].
  pose proof (reg_write_spec unit orc h a size reset (field_setter_closure ptrw bo bi f v) Hlr) as H.
  cbv zeta in H. destruct H as [_ H].
  assert (Hcc : call_closure (field_setter_closure ptrw bo bi f v) reset = (data, tt)).
  { unfold call_closure, field_setter_closure. rewrite Hset.
    destruct Hpost as (Hl & _). rewrite overlay_same_length by exact Hl. reflexivity. }
  rewrite Hcc in H. cbn [fst snd] in H. exact H.
Qed.
