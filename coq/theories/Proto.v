(* Proto.v — executable model of the three protocol layers of the runtime:
     device-driver/src/register.rs   RegisterOperation::{write, write_with_zero, read, modify} (+ *_async)
     device-driver/src/command.rs    the four CommandOperation::dispatch shapes (+ dispatch_async)
     device-driver/src/buffer.rs     BufferOperation::{write, write_all, flush, read, read_exact} (+ *_async)
                                     and the embedded-io / embedded-io-async trait impls.
   Definitions only (no proofs): this file must compile and extract even if a proof breaks.

   Shape of the model
   * A blocking function is a `prog R`: a tree of interface calls (free monad).  `run` executes it
     against an ARBITRARY interface `orc : list event -> call -> resp` (a function of everything
     that happened before) and returns the events it caused and its outcome.
   * An async function is an `aprog R`: interface calls are awaits on leaf futures (`ACall`), an
     `.await` on another async fn of the crate is `ABind`.  `poll` is one call of `Future::poll` on
     the outermost future; a leaf future answers Pending as many times as the schedule says (one
     entry per await, missing entries = 0) before it is Ready; `exec` is the executor loop.
   * The blocking and the async functions are transcribed separately, line by line, from the two
     separately written halves of each Rust file.
   * Bytes are uninterpreted (the protocol layers never compute with them): `byte := Z`.
   * A `&mut [u8]` handed to foreign code (interface, user closure) can be overwritten but not
     resized: `overlay src dst`.
   * Panics are `Stop`; loops use fuel and `StopOutOfFuel` (excluded by lemmas, not by definition). *)
From Coq Require Import ZArith List Bool.
Import ListNotations.

Definition byte := Z.
Definition bytes := list byte.

Definition zeros (n : nat) : bytes := repeat 0%Z n.

(* number of bytes of a field set of `size_bits` bits: the `[u8; N]` of a generated FieldSet *)
Definition nbytes (size_bits : Z) : nat := Z.to_nat ((size_bits + 7) / 8).

(* what a `&mut [u8]` currently holding `dst` holds after foreign code stored `src` through it *)
Definition overlay (src dst : bytes) : bytes :=
  firstn (length dst) src ++ skipn (length src) dst.

(* Result<A, Interface::Error>; the error type is uninterpreted (Z) *)
Inductive result (A : Type) : Type :=
| ROk (a : A)
| RErr (e : Z).
Arguments ROk {A} a.
Arguments RErr {A} e.

(* embedded_io::ReadExactError<E> *)
Inductive rx_error := RxUnexpectedEof | RxOther (e : Z).
Inductive rx_result := RxOk | RxErr (e : rx_error).

(* One interface call with everything the interface gets to see.  Mutable buffers are given with
   their contents at the time of the call. *)
Inductive call :=
| RegWrite (addr size_bits : Z) (data : bytes)
| RegRead (addr size_bits : Z) (buf : bytes)
| CmdDispatch (addr size_bits_in : Z) (input : bytes) (size_bits_out : Z) (output : bytes)
| BufWrite (addr : Z) (data : bytes)
| BufFlush (addr : Z)
| BufRead (addr : Z) (buf : bytes).

(* Everything an interface can answer: Ok(n) / Err(e), plus what it stored through the mutable
   slice it was given (ignored for calls without one; `n` ignored where the Rust type is
   Result<(), _>). *)
Record resp := mkResp { r_res : result nat; r_data : bytes }.

Notation event := (call * resp)%type (only parsing).
Definition oracle := list event -> call -> resp.

Definition res_unit (r : resp) : result unit :=
  match r_res r with ROk _ => ROk tt | RErr e => RErr e end.

(* ---------------------------------------------------------------- programs, blocking *)

Inductive pstop :=
| StopWriteZero      (* panic!("write() returned Ok(0)") *)
| StopSliceIndex     (* &buf[n..] with n > buf.len(): slice index panic *)
| StopOutOfFuel.     (* model artefact *)

Inductive pout (R : Type) : Type :=
| Done (r : R)
| Stopped (s : pstop).
Arguments Done {R} r.
Arguments Stopped {R} s.

Inductive prog (R : Type) : Type :=
| Ret (r : R)
| Stop (s : pstop)
| Call (c : call) (k : resp -> prog R).
Arguments Ret {R} r.
Arguments Stop {R} s.
Arguments Call {R} c k.

(* calling another blocking function of the crate and continuing with its value *)
Fixpoint pbind {S R : Type} (p : prog S) (k : S -> prog R) : prog R :=
  match p with
  | Ret s => k s
  | Stop st => Stop st
  | Call c k' => Call c (fun r => pbind (k' r) k)
  end.

Fixpoint run {R : Type} (orc : oracle) (p : prog R) (h : list event) : list event * pout R :=
  match p with
  | Ret r => ([], Done r)
  | Stop s => ([], Stopped s)
  | Call c k =>
      let r := orc h c in
      let '(t, o) := run orc (k r) (h ++ [(c, r)]) in
      ((c, r) :: t, o)
  end.

(* ---------------------------------------------------------------- programs, async *)

Inductive aprog (R : Type) : Type :=
| ARet (r : R)
| AStop (s : pstop)
| ACall (c : call) (k : resp -> aprog R)            (* interface.method(args).await, future not yet polled *)
| AWait (n : nat) (r : resp) (k : resp -> aprog R)  (* leaf future in flight: n more Pending, then Ready r *)
| ABind (S : Type) (sub : aprog S) (k : S -> aprog R). (* sub.await for an async fn of the crate *)
Arguments ARet {R} r.
Arguments AStop {R} s.
Arguments ACall {R} c k.
Arguments AWait {R} n r k.
Arguments ABind {R S} sub k.

(* Poll::Pending (with the suspended state machine) / Poll::Ready *)
Inductive pres (R : Type) : Type :=
| Pend (p : aprog R)
| Rdy (o : pout R).
Arguments Pend {R} p.
Arguments Rdy {R} o.

(* One Future::poll of the outermost future.  Returns the events caused during this poll, the
   unconsumed part of the schedule, and Pending/Ready.  The leaf future of an interface call
   performs the call when first polled (the event is logged then, the interface sees the history
   up to that moment) and then reports Pending `hd 0 sched` times. *)
Fixpoint poll {R : Type} (orc : oracle) (p : aprog R) (sc : list nat) (h : list event)
  : (list event * list nat) * pres R :=
  match p with
  | ARet r => (([], sc), Rdy (Done r))
  | AStop s => (([], sc), Rdy (Stopped s))
  | ACall c k =>
      let r := orc h c in
      match hd O sc with
      | O => let '((t, sc'), x) := poll orc (k r) (tl sc) (h ++ [(c, r)]) in
             (((c, r) :: t, sc'), x)
      | S m => (([(c, r)], tl sc), Pend (AWait m r k))
      end
  | AWait O r k => poll orc (k r) sc h
  | AWait (S m) r k => (([], sc), Pend (AWait m r k))
  | ABind sub k =>
      match poll orc sub sc h with
      | ((t, sc'), Pend sub') => ((t, sc'), Pend (ABind sub' k))
      | ((t, sc'), Rdy (Stopped st)) => ((t, sc'), Rdy (Stopped st))
      | ((t, sc'), Rdy (Done s)) =>
          let '((t', sc''), x) := poll orc (k s) sc' (h ++ t) in
          ((t ++ t', sc''), x)
      end
  end.

(* The executor: poll until Ready.  Returns events, number of polls, outcome. *)
Fixpoint exec {R : Type} (orc : oracle) (fuel : nat) (p : aprog R) (sc : list nat) (h : list event)
  : list event * nat * pout R :=
  match fuel with
  | O => ([], O, Stopped StopOutOfFuel)
  | S fuel' =>
      match poll orc p sc h with
      | ((t, _), Rdy o) => (t, 1, o)
      | ((t, sc'), Pend p') =>
          let '(t', n, o) := exec orc fuel' p' sc' (h ++ t) in
          (t ++ t', S n, o)
      end
  end.

(* fuel that always suffices for `exec` (ProtoProofs.exec_fuel_suffices) *)
Definition exec_fuel (sc : list nat) : nat := S (list_sum sc).

(* ---------------------------------------------------------------- user closures *)

(* `impl FnOnce(&mut Register) -> R`: sees the register bytes, stores bytes, returns R.
   It is a total function here (a closure that panics or diverges is outside the model). *)
Definition closure (R : Type) := bytes -> bytes * R.

Definition call_closure {R : Type} (f : closure R) (reg : bytes) : bytes * R :=
  let '(b, r) := f reg in (overlay b reg, r).

(* `impl FnOnce(&mut InFieldSet)` of the command layer *)
Definition cmd_closure := bytes -> bytes.
Definition call_cmd_closure (f : cmd_closure) (reg : bytes) : bytes := overlay (f reg) reg.

(* ================================================================ register.rs, blocking (83-162) *)

(* `reset` is what (self.register_new_with_reset)() returns: a Register, i.e. nbytes sz bytes *)
Definition reg_write {R : Type} (a sz : Z) (reset : bytes) (f : closure R) : prog (result R) :=
  let register := reset in                                   (* line 94 *)
  let '(register, returned) := call_closure f register in    (* 95 *)
  Call (RegWrite a sz register) (fun r =>                    (* 97-101 *)
    match r_res r with
    | RErr e => Ret (RErr e)                                 (* ? *)
    | ROk _ => Ret (ROk returned)                            (* 102 *)
    end).

Definition reg_write_with_zero {R : Type} (a sz : Z) (f : closure R) : prog (result R) :=
  let register := zeros (nbytes sz) in                       (* 112 *)
  let '(register, returned) := call_closure f register in    (* 113 *)
  Call (RegWrite a sz register) (fun r =>                    (* 114-118 *)
    match r_res r with
    | RErr e => Ret (RErr e)
    | ROk _ => Ret (ROk returned)                            (* 119 *)
    end).

Definition reg_read (a sz : Z) : prog (result bytes) :=
  let register := zeros (nbytes sz) in                       (* 131 *)
  Call (RegRead a sz register) (fun r =>                     (* 133-137 *)
    let register := overlay (r_data r) register in
    match r_res r with
    | RErr e => Ret (RErr e)
    | ROk _ => Ret (ROk register)                            (* 138 *)
    end).

Definition reg_modify {R : Type} (a sz : Z) (f : closure R) : prog (result R) :=
  pbind (reg_read a sz) (fun rd =>                           (* 153: self.read()? *)
    match rd with
    | RErr e => Ret (RErr e)
    | ROk register =>
        let '(register, returned) := call_closure f register in   (* 154 *)
        Call (RegWrite a sz register) (fun r =>              (* 155-159 *)
          match r_res r with
          | RErr e => Ret (RErr e)
          | ROk _ => Ret (ROk returned)                      (* 160 *)
          end)
    end).

(* ================================================================ register.rs, async (164-257) *)

Definition reg_write_async {R : Type} (a sz : Z) (reset : bytes) (f : closure R) : aprog (result R) :=
  let register := reset in                                   (* 178 *)
  let '(register, returned) := call_closure f register in    (* 179 *)
  ACall (RegWrite a sz register) (fun r =>                   (* 181-187: .await? *)
    match r_res r with
    | RErr e => ARet (RErr e)
    | ROk _ => ARet (ROk returned)                           (* 188 *)
    end).

Definition reg_write_with_zero_async {R : Type} (a sz : Z) (f : closure R) : aprog (result R) :=
  let register := zeros (nbytes sz) in                       (* 198 *)
  let '(register, returned) := call_closure f register in    (* 199 *)
  ACall (RegWrite a sz register) (fun r =>                   (* 200-206 *)
    match r_res r with
    | RErr e => ARet (RErr e)
    | ROk _ => ARet (ROk returned)                           (* 207 *)
    end).

Definition reg_read_async (a sz : Z) : aprog (result bytes) :=
  let register := zeros (nbytes sz) in                       (* 219 *)
  ACall (RegRead a sz register) (fun r =>                    (* 221-227 *)
    let register := overlay (r_data r) register in
    match r_res r with
    | RErr e => ARet (RErr e)
    | ROk _ => ARet (ROk register)                           (* 228 *)
    end).

Definition reg_modify_async {R : Type} (a sz : Z) (f : closure R) : aprog (result R) :=
  ABind (reg_read_async a sz) (fun rd =>                     (* 246: self.read_async().await? *)
    match rd with
    | RErr e => ARet (RErr e)
    | ROk register =>
        let '(register, returned) := call_closure f register in   (* 247 *)
        ACall (RegWrite a sz register) (fun r =>             (* 248-254 *)
          match r_res r with
          | RErr e => ARet (RErr e)
          | ROk _ => ARet (ROk returned)                     (* 255 *)
          end)
    end).

(* ================================================================ command.rs, blocking (75-156) *)

Definition cmd_dispatch_none (a : Z) : prog (result unit) :=
  Call (CmdDispatch a 0 [] 0 []) (fun r => Ret (res_unit r)).        (* 82-83 *)

Definition cmd_dispatch_in (a szi : Z) (f : cmd_closure) : prog (result unit) :=
  let in_fields := zeros (nbytes szi) in                     (* 95 *)
  let in_fields := call_cmd_closure f in_fields in           (* 96 *)
  Call (CmdDispatch a szi in_fields 0 []) (fun r => Ret (res_unit r)).  (* 98-104 *)

Definition cmd_dispatch_out (a szo : Z) : prog (result bytes) :=
  let out_fields := zeros (nbytes szo) in                    (* 116 *)
  Call (CmdDispatch a 0 [] szo out_fields) (fun r =>         (* 118-124 *)
    let out_fields := overlay (r_data r) out_fields in
    match r_res r with
    | RErr e => Ret (RErr e)
    | ROk _ => Ret (ROk out_fields)                          (* 126 *)
    end).

Definition cmd_dispatch_inout (a szi szo : Z) (f : cmd_closure) : prog (result bytes) :=
  let in_fields := zeros (nbytes szi) in                     (* 141 *)
  let in_fields := call_cmd_closure f in_fields in           (* 142 *)
  let out_fields := zeros (nbytes szo) in                    (* 144 *)
  Call (CmdDispatch a szi in_fields szo out_fields) (fun r =>   (* 146-152 *)
    let out_fields := overlay (r_data r) out_fields in
    match r_res r with
    | RErr e => Ret (RErr e)
    | ROk _ => Ret (ROk out_fields)                          (* 154 *)
    end).

(* ================================================================ command.rs, async (158-249) *)

Definition cmd_dispatch_none_async (a : Z) : aprog (result unit) :=
  ACall (CmdDispatch a 0 [] 0 []) (fun r => ARet (res_unit r)).      (* 165-167 *)

Definition cmd_dispatch_in_async (a szi : Z) (f : cmd_closure) : aprog (result unit) :=
  let in_fields := zeros (nbytes szi) in                     (* 182 *)
  let in_fields := call_cmd_closure f in_fields in           (* 183 *)
  ACall (CmdDispatch a szi in_fields 0 []) (fun r => ARet (res_unit r)).  (* 185-193 *)

Definition cmd_dispatch_out_async (a szo : Z) : aprog (result bytes) :=
  let out_fields := zeros (nbytes szo) in                    (* 205 *)
  ACall (CmdDispatch a 0 [] szo out_fields) (fun r =>        (* 207-215 *)
    let out_fields := overlay (r_data r) out_fields in
    match r_res r with
    | RErr e => ARet (RErr e)
    | ROk _ => ARet (ROk out_fields)                         (* 217 *)
    end).

Definition cmd_dispatch_inout_async (a szi szo : Z) (f : cmd_closure) : aprog (result bytes) :=
  let in_fields := zeros (nbytes szi) in                     (* 232 *)
  let in_fields := call_cmd_closure f in_fields in           (* 233 *)
  let out_fields := zeros (nbytes szo) in                    (* 235 *)
  ACall (CmdDispatch a szi in_fields szo out_fields) (fun r =>  (* 237-245 *)
    let out_fields := overlay (r_data r) out_fields in
    match r_res r with
    | RErr e => ARet (RErr e)
    | ROk _ => ARet (ROk out_fields)                         (* 247 *)
    end).

(* ================================================================ buffer.rs, blocking (78-147) *)

Definition buf_write (a : Z) (buf : bytes) : prog (result nat) :=
  Call (BufWrite a buf) (fun r => Ret (r_res r)).            (* 87 *)

Definition buf_flush (a : Z) : prog (result unit) :=
  Call (BufFlush a) (fun r => Ret (res_unit r)).             (* 110 *)

(* the caller's slice is part of the result: it was handed out mutably *)
Definition buf_read (a : Z) (buf : bytes) : prog (result nat * bytes) :=
  Call (BufRead a buf) (fun r => Ret (r_res r, overlay (r_data r) buf)).   (* 123 *)

(* `buf` is the not yet written remainder; fuel: one unit per loop iteration *)
Fixpoint buf_write_all (fuel : nat) (a : Z) (buf : bytes) : prog (result unit) :=
  match buf with
  | [] => Ret (ROk tt)                                       (* 96, 103 *)
  | _ :: _ =>
      match fuel with
      | O => Stop StopOutOfFuel
      | S fuel' =>
          pbind (buf_write a buf) (fun w =>                  (* 97 *)
            match w with
            | ROk O => Stop StopWriteZero                    (* 98 *)
            | ROk n =>                                       (* 99: buf = &buf[n..] *)
                if Nat.ltb (length buf) n then Stop StopSliceIndex
                else buf_write_all fuel' a (skipn n buf)
            | RErr e => Ret (RErr e)                         (* 100 *)
            end)
      end
  end.

(* lines 141-145, after the loop: `buf` is the unfilled remainder *)
Definition rx_after_loop (buf : bytes) : rx_result :=
  match buf with [] => RxOk | _ :: _ => RxErr RxUnexpectedEof end.

(* `filled` = the part of the caller's slice already left behind by `buf = &mut buf[n..]`;
   the result carries the caller's whole slice as it is when read_exact returns *)
Fixpoint buf_read_exact_loop (fuel : nat) (a : Z) (filled buf : bytes) : prog (rx_result * bytes) :=
  match buf with
  | [] => Ret (rx_after_loop buf, filled ++ buf)             (* 134, 141-145 *)
  | _ :: _ =>
      match fuel with
      | O => Stop StopOutOfFuel
      | S fuel' =>
          pbind (buf_read a buf) (fun rb =>                  (* 135 *)
            let '(res, buf) := rb in
            match res with
            | ROk O => Ret (rx_after_loop buf, filled ++ buf)        (* 136: break *)
            | ROk n =>                                       (* 137: buf = &mut buf[n..] *)
                if Nat.ltb (length buf) n then Stop StopSliceIndex
                else buf_read_exact_loop fuel' a (filled ++ firstn n buf) (skipn n buf)
            | RErr e => Ret (RxErr (RxOther e), filled ++ buf)       (* 138 *)
            end)
      end
  end.

Definition buf_read_exact (a : Z) (buf : bytes) : prog (rx_result * bytes) :=
  buf_read_exact_loop (length buf) a [] buf.

(* ================================================================ buffer.rs, async (149-219) *)

Definition buf_write_async (a : Z) (buf : bytes) : aprog (result nat) :=
  ACall (BufWrite a buf) (fun r => ARet (r_res r)).          (* 158 *)

Definition buf_flush_async (a : Z) : aprog (result unit) :=
  ACall (BufFlush a) (fun r => ARet (res_unit r)).           (* 181 *)

Definition buf_read_async (a : Z) (buf : bytes) : aprog (result nat * bytes) :=
  ACall (BufRead a buf) (fun r => ARet (r_res r, overlay (r_data r) buf)).   (* 194 *)

Fixpoint buf_write_all_async (fuel : nat) (a : Z) (buf : bytes) : aprog (result unit) :=
  match buf with
  | [] => ARet (ROk tt)                                      (* 167, 174 *)
  | _ :: _ =>
      match fuel with
      | O => AStop StopOutOfFuel
      | S fuel' =>
          ABind (buf_write_async a buf) (fun w =>            (* 168: self.write_async(buf).await *)
            match w with
            | ROk O => AStop StopWriteZero                   (* 169 *)
            | ROk n =>                                       (* 170 *)
                if Nat.ltb (length buf) n then AStop StopSliceIndex
                else buf_write_all_async fuel' a (skipn n buf)
            | RErr e => ARet (RErr e)                        (* 171 *)
            end)
      end
  end.

Fixpoint buf_read_exact_loop_async (fuel : nat) (a : Z) (filled buf : bytes) : aprog (rx_result * bytes) :=
  match buf with
  | [] => ARet (rx_after_loop buf, filled ++ buf)            (* 206, 213-217 *)
  | _ :: _ =>
      match fuel with
      | O => AStop StopOutOfFuel
      | S fuel' =>
          ABind (buf_read_async a buf) (fun rb =>            (* 207: self.read_async(buf).await *)
            let '(res, buf) := rb in
            match res with
            | ROk O => ARet (rx_after_loop buf, filled ++ buf)       (* 208 *)
            | ROk n =>                                       (* 209 *)
                if Nat.ltb (length buf) n then AStop StopSliceIndex
                else buf_read_exact_loop_async fuel' a (filled ++ firstn n buf) (skipn n buf)
            | RErr e => ARet (RxErr (RxOther e), filled ++ buf)      (* 210 *)
            end)
      end
  end.

Definition buf_read_exact_async (a : Z) (buf : bytes) : aprog (rx_result * bytes) :=
  buf_read_exact_loop_async (length buf) a [] buf.

(* ================================================================ buffer.rs, trait impls (223-286) *)

(* embedded_io::Write / Read for BufferOperation: required methods, as written in buffer.rs *)
Definition eio_write (a : Z) (buf : bytes) : prog (result nat) := buf_write a buf.          (* 240 *)
Definition eio_flush (a : Z) : prog (result unit) := buf_flush a.                           (* 244 *)
Definition eio_read (a : Z) (buf : bytes) : prog (result nat * bytes) := buf_read a buf.    (* 256 *)

(* embedded_io_async::Write / Read for BufferOperation *)
Definition eioa_write (a : Z) (buf : bytes) : aprog (result nat) :=
  ABind (buf_write_async a buf) (fun r => ARet r).           (* 268: self.write_async(buf).await *)
Definition eioa_flush (a : Z) : aprog (result unit) :=
  ABind (buf_flush_async a) (fun r => ARet r).               (* 272 *)
Definition eioa_read (a : Z) (buf : bytes) : aprog (result nat * bytes) :=
  ABind (buf_read_async a buf) (fun r => ARet r).            (* 284 *)

(* The PROVIDED trait methods write_all / read_exact are code of the embedded-io(-async) 0.6.1
   crates, not of /repo; they run on top of the required methods above.  Transcribed from
   embedded-io-0.6.1/src/lib.rs:326-339,394-403 and embedded-io-async-0.6.1/src/lib.rs:59-72,134-144. *)
Fixpoint eio_write_all (fuel : nat) (a : Z) (buf : bytes) : prog (result unit) :=
  match buf with
  | [] => Ret (ROk tt)
  | _ :: _ =>
      match fuel with
      | O => Stop StopOutOfFuel
      | S fuel' =>
          pbind (eio_write a buf) (fun w =>
            match w with
            | ROk O => Stop StopWriteZero
            | ROk n =>
                if Nat.ltb (length buf) n then Stop StopSliceIndex
                else eio_write_all fuel' a (skipn n buf)
            | RErr e => Ret (RErr e)
            end)
      end
  end.

Fixpoint eio_read_exact_loop (fuel : nat) (a : Z) (filled buf : bytes) : prog (rx_result * bytes) :=
  match buf with
  | [] => Ret (rx_after_loop buf, filled ++ buf)
  | _ :: _ =>
      match fuel with
      | O => Stop StopOutOfFuel
      | S fuel' =>
          pbind (eio_read a buf) (fun rb =>
            let '(res, buf) := rb in
            match res with
            | ROk O => Ret (rx_after_loop buf, filled ++ buf)
            | ROk n =>
                if Nat.ltb (length buf) n then Stop StopSliceIndex
                else eio_read_exact_loop fuel' a (filled ++ firstn n buf) (skipn n buf)
            | RErr e => Ret (RxErr (RxOther e), filled ++ buf)
            end)
      end
  end.

Definition eio_read_exact (a : Z) (buf : bytes) : prog (rx_result * bytes) :=
  eio_read_exact_loop (length buf) a [] buf.

Fixpoint eioa_write_all (fuel : nat) (a : Z) (buf : bytes) : aprog (result unit) :=
  match buf with
  | [] => ARet (ROk tt)
  | _ :: _ =>
      match fuel with
      | O => AStop StopOutOfFuel
      | S fuel' =>
          ABind (eioa_write a buf) (fun w =>
            match w with
            | ROk O => AStop StopWriteZero
            | ROk n =>
                if Nat.ltb (length buf) n then AStop StopSliceIndex
                else eioa_write_all fuel' a (skipn n buf)
            | RErr e => ARet (RErr e)
            end)
      end
  end.

Fixpoint eioa_read_exact_loop (fuel : nat) (a : Z) (filled buf : bytes) : aprog (rx_result * bytes) :=
  match buf with
  | [] => ARet (rx_after_loop buf, filled ++ buf)
  | _ :: _ =>
      match fuel with
      | O => AStop StopOutOfFuel
      | S fuel' =>
          ABind (eioa_read a buf) (fun rb =>
            let '(res, buf) := rb in
            match res with
            | ROk O => ARet (rx_after_loop buf, filled ++ buf)
            | ROk n =>
                if Nat.ltb (length buf) n then AStop StopSliceIndex
                else eioa_read_exact_loop fuel' a (filled ++ firstn n buf) (skipn n buf)
            | RErr e => ARet (RxErr (RxOther e), filled ++ buf)
            end)
      end
  end.

Definition eioa_read_exact (a : Z) (buf : bytes) : aprog (rx_result * bytes) :=
  eioa_read_exact_loop (length buf) a [] buf.
