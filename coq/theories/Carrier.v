(* Carrier.v — the integer carrier types of ops.rs and the shape of the
   impl_dedup_cast! table (the table itself is TRANSLATED from the source into
   gen/Dedup.v on every run). *)
From Coq Require Import ZArith List Bool.
From DD Require Import Common.
Import ListNotations.
Open Scope Z_scope.

Inductive cty := U8 | U16 | U32 | U64 | U128 | USIZE | I8 | I16 | I32 | I64 | I128 | ISIZE.

Definition cty_eqb (a b : cty) : bool :=
  match a, b with
  | U8,U8 | U16,U16 | U32,U32 | U64,U64 | U128,U128 | USIZE,USIZE
  | I8,I8 | I16,I16 | I32,I32 | I64,I64 | I128,I128 | ISIZE,ISIZE => true
  | _, _ => false
  end.

(* cfg(target_pointer_width = ..) condition on a table row *)
Inductive pcond := PAny | PIs (w : Z) | PNot (w : Z).

Definition pcond_holds (ptrw : Z) (c : pcond) : bool :=
  match c with PAny => true | PIs w => ptrw =? w | PNot w => negb (ptrw =? w) end.

Definition cty_ity (ptrw : Z) (c : cty) : ity :=
  match c with
  | U8 => {| signed := false; bits := 8 |}
  | U16 => {| signed := false; bits := 16 |}
  | U32 => {| signed := false; bits := 32 |}
  | U64 => {| signed := false; bits := 64 |}
  | U128 => {| signed := false; bits := 128 |}
  | USIZE => {| signed := false; bits := ptrw |}
  | I8 => {| signed := true; bits := 8 |}
  | I16 => {| signed := true; bits := 16 |}
  | I32 => {| signed := true; bits := 32 |}
  | I64 => {| signed := true; bits := 64 |}
  | I128 => {| signed := true; bits := 128 |}
  | ISIZE => {| signed := true; bits := ptrw |}
  end.

(* the ten carrier types the generator can emit (lir_transform: u/i x 8..128) *)
Definition carriers : list cty := [U8; U16; U32; U64; U128; I8; I16; I32; I64; I128].
Definition ptr_widths : list Z := [16; 32; 64].

Definition dedup_lookup (rows : list (cty * cty * pcond)) (ptrw : Z) (c : cty) : list cty :=
  map (fun r => snd (fst r))
      (filter (fun r => cty_eqb (fst (fst r)) c && pcond_holds ptrw (snd r)) rows).
