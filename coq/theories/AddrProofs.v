(* AddrProofs.v — proofs about Addr.v (C12, C13). *)
From Coq Require Import ZArith List Bool String Lia ZifyBool Arith.
From DD Require Import Common Mir GenErr Addr.
Import ListNotations.
Open Scope Z_scope.

(* ================================================================================================ *)
(** * 0. Utilities *)

(* induction principle for the nested object tree *)
Fixpoint object_ind' (P : object -> Prop)
  (Hblock : forall c n off rep objs, Forall P objs -> P (OBlock c n off rep objs))
  (Hreg : forall r, P (ORegister r)) (Hcmd : forall c, P (OCommand c)) (Hbuf : forall b, P (OBuffer b))
  (Href : forall c n ov, P (ORef c n ov)) (o : object) : P o :=
  match o with
  | OBlock c n off rep objs =>
      Hblock c n off rep objs
        ((fix go (l : list object) : Forall P l :=
            match l with
            | [] => Forall_nil P
            | x :: t => Forall_cons x (object_ind' P Hblock Hreg Hcmd Hbuf Href x) (go t)
            end) objs)
  | ORegister r => Hreg r
  | OCommand c => Hcmd c
  | OBuffer b => Hbuf b
  | ORef c n ov => Href c n ov
  end.

Lemma find_some_some {A B} (f : A -> option B) l b :
  find_some f l = Some b -> exists a, In a l /\ f a = Some b.
Proof.
  induction l as [|a t IH]; cbn; [discriminate|].
  destruct (f a) eqn:E.
  - intros H; inversion H; subst. exists a; auto.
  - intros H. destruct (IH H) as (x & Hx & Hf). exists x; auto.
Qed.

Lemma zrange_In n i : In i (zrange n) <-> 0 <= i < n.
Proof.
  unfold zrange. rewrite in_map_iff. split.
  - intros (k & <- & Hk). apply in_seq in Hk. lia.
  - intros H. exists (Z.to_nat i). split; [lia|]. apply in_seq. lia.
Qed.

Lemma zrange_1 : zrange 1 = [0].
Proof. reflexivity. Qed.

Lemma ocat_ok {A} (l : list (outcome (list A))) r :
  ocat l = Ok r -> exists rs, Forall2 (fun x y => x = Ok y) l rs /\ r = List.concat rs.
Proof.
  revert r; induction l as [|x t IH]; cbn; intros r H.
  - inversion H; subst. exists []; split; [constructor|reflexivity].
  - destruct x as [a|k]; [|discriminate].
    destruct (ocat t) as [b|k] eqn:E; [|discriminate].
    inversion H; subst. destruct (IH b eq_refl) as (rs & HF & ->).
    exists (a :: rs). split; [constructor; auto|reflexivity].
Qed.

Lemma ocat_map_ok {A B} (f : A -> outcome (list B)) l r :
  ocat (map f l) = Ok r -> exists rs, Forall2 (fun x y => f x = Ok y) l rs /\ r = List.concat rs.
Proof.
  intros H. apply ocat_ok in H. destruct H as (rs & HF & ->). exists rs. split; [|reflexivity].
  clear -HF. revert rs HF. induction l as [|a t IH]; intros rs HF; inversion HF; subst; constructor; auto.
Qed.

Lemma ocat_cons_ok {A} (x : outcome (list A)) t r :
  ocat (x :: t) = Ok r -> exists a b, x = Ok a /\ ocat t = Ok b /\ r = (a ++ b)%list.
Proof.
  cbn. destruct x as [a|k]; [|discriminate]. destruct (ocat t) as [b|k]; [|discriminate].
  intros H; inversion H; subst. eauto.
Qed.

Lemma Forall2_in_r {A B} (R : A -> B -> Prop) l l' (H : Forall2 R l l') y :
  In y l' -> exists x, In x l /\ R x y.
Proof.
  induction H as [|a b l l' Hab HF IH]; cbn; [tauto|].
  intros [<-|Hy]; [exists a; auto|]. destruct (IH Hy) as (x & Hx & Hr). exists x; auto.
Qed.

Lemma Forall2_in_l {A B} (R : A -> B -> Prop) l l' (H : Forall2 R l l') x :
  In x l -> exists y, In y l' /\ R x y.
Proof.
  induction H as [|a b l l' Hab HF IH]; cbn; [tauto|].
  intros [<-|Hx]; [exists b; auto|]. destruct (IH Hx) as (y & Hy & Hr). exists y; auto.
Qed.

Lemma first_error_none {A} (f : A -> option gen_error) l :
  first_error (map f l) = None <-> Forall (fun x => f x = None) l.
Proof.
  induction l as [|a t IH]; cbn.
  - split; auto.
  - destruct (f a) eqn:E.
    + split; [discriminate|]. intros H. inversion H; subst. congruence.
    + rewrite IH. split; intros H; [constructor; auto|inversion H; auto].
Qed.

Lemma first_error_some_in {A} (f : A -> option gen_error) l e :
  first_error (map f l) = Some e -> exists x, In x l /\ f x = Some e.
Proof.
  induction l as [|a t IH]; cbn; [discriminate|].
  destruct (f a) eqn:E.
  - intros H; inversion H; subst. exists a; auto.
  - intros H. destruct (IH H) as (x & Hin & Hx). exists x; auto.
Qed.

(* ---- the pre-order object list without depths ---- *)

Fixpoint flat (o : object) : list object :=
  o :: match o with
       | OBlock _ _ _ _ objs => flat_map flat objs
       | _ => []
       end.

Lemma flatten_depth_flat o : forall d, map fst (flatten_depth d o) = flat o.
Proof.
  induction o using object_ind'; intros d; cbn; try reflexivity.
  f_equal. induction H as [|x t Hx Ht IH]; cbn; [reflexivity|].
  rewrite map_app, Hx, IH. reflexivity.
Qed.

Lemma preorder_objects_flat objs : preorder_objects objs = flat_map flat objs.
Proof.
  unfold preorder_objects, preorder. induction objs as [|o t IH]; cbn; [reflexivity|].
  rewrite map_app, flatten_depth_flat, IH. reflexivity.
Qed.

Lemma flat_self o : In o (flat o).
Proof. destruct o; cbn; auto. Qed.

Lemma flat_trans b : forall a x, In a (flat b) -> In x (flat a) -> In x (flat b).
Proof.
  induction b using object_ind'; intros a x Ha Hx; cbn in Ha;
    try (destruct Ha as [<-|[]]; assumption).
  destruct Ha as [<-|Ha]; [assumption|].
  cbn. right. apply in_flat_map in Ha. destruct Ha as (y & Hy & Hay).
  apply in_flat_map. exists y. split; [assumption|].
  rewrite Forall_forall in H. eapply H; eauto.
Qed.

Lemma flat_objs_trans objs a x : In a (flat_map flat objs) -> In x (flat a) -> In x (flat_map flat objs).
Proof.
  intros Ha Hx. apply in_flat_map in Ha. destruct Ha as (b & Hb & Hab).
  apply in_flat_map. exists b. split; [assumption|]. eapply flat_trans; eauto.
Qed.

Lemma flat_children objs c n off rep ch x :
  In (OBlock c n off rep ch) (flat_map flat objs) -> In x ch -> In x (flat_map flat objs).
Proof.
  intros Hb Hx. eapply flat_objs_trans; [exact Hb|]. cbn. right.
  apply in_flat_map. exists x. split; [assumption|apply flat_self].
Qed.

Lemma in_objs_flat objs x : In x objs -> In x (flat_map flat objs).
Proof. intros H. apply in_flat_map. exists x. split; [assumption|apply flat_self]. Qed.

Lemma search_obj_in name o : forall t, search_obj name o = Some t -> In t (flat o) /\ object_name t = name.
Proof.
  induction o using object_ind'; intros t; cbn;
    try (destruct (String.eqb _ name) eqn:E; [|discriminate]; intros Ht; inversion Ht; subst;
         apply String.eqb_eq in E; split; [left; reflexivity|exact E]).
  destruct (String.eqb n name) eqn:E.
  - intros Ht; inversion Ht; subst. apply String.eqb_eq in E. split; [left; reflexivity|exact E].
  - intros Ht. apply find_some_some in Ht. destruct Ht as (a & Ha & Hs).
    rewrite Forall_forall in H. destruct (H a Ha t Hs) as [Hin Hn]. split; [|exact Hn].
    right. apply in_flat_map. exists a; auto.
Qed.

Lemma search_object_in name objs t :
  search_object name objs = Some t -> In t (flat_map flat objs) /\ object_name t = name.
Proof.
  unfold search_object. intros H. apply find_some_some in H. destruct H as (a & Ha & Hs).
  apply search_obj_in in Hs. destruct Hs as [Hin Hn]. split; [|exact Hn].
  apply in_flat_map. exists a; auto.
Qed.

(* ================================================================================================ *)
(** * 1. The pairwise loop (C12) *)

Definition conflict_pair (l : list claimed) : Prop :=
  exists i j a b, (i < j)%nat /\ nth_error l i = Some a /\ nth_error l j = Some b /\ conflict a b = true.

Lemma first_conflict_none a rest :
  first_conflict a rest = None <-> Forall (fun b => conflict a b = false) rest.
Proof.
  induction rest as [|b t IH]; cbn.
  - split; auto.
  - destruct (conflict a b) eqn:E.
    + split; [discriminate|]. intros H; inversion H; congruence.
    + rewrite IH. split; intros H; [constructor; auto|inversion H; auto].
Qed.

Lemma first_conflict_some a rest e :
  first_conflict a rest = Some e ->
  exists j b, nth_error rest j = Some b /\ conflict a b = true /\ e = overlap_error a b /\
              (forall j' b', (j' < j)%nat -> nth_error rest j' = Some b' -> conflict a b' = false).
Proof.
  induction rest as [|b t IH]; cbn; [discriminate|].
  destruct (conflict a b) eqn:E.
  - intros H; inversion H; subst. exists O, b. repeat split; auto. intros j' b' Hlt; lia.
  - intros H. destruct (IH H) as (j & b0 & Hn & Hc & He & Hmin).
    exists (S j), b0. repeat split; auto.
    intros j' b' Hlt Hn'. destruct j' as [|j']; cbn in Hn'.
    + inversion Hn'; subst; assumption.
    + eapply Hmin; [|exact Hn']. lia.
Qed.

Lemma conflict_pair_cons a t :
  conflict_pair (a :: t) <-> (exists b, In b t /\ conflict a b = true) \/ conflict_pair t.
Proof.
  split.
  - intros (i & j & x & y & Hlt & Hi & Hj & Hc).
    destruct j as [|j]; [lia|]. cbn in Hj.
    destruct i as [|i]; cbn in Hi.
    + inversion Hi; subst. left. exists y. split; [eapply nth_error_In; eauto|assumption].
    + right. exists i, j, x, y. repeat split; auto. lia.
  - intros [(b & Hb & Hc)|(i & j & x & y & Hlt & Hi & Hj & Hc)].
    + apply In_nth_error in Hb. destruct Hb as [j Hj]. exists O, (S j), a, b. repeat split; auto. lia.
    + exists (S i), (S j), x, y. repeat split; auto. lia.
Qed.

(* the i < j double loop rejects <-> some pair of claimed entries conflicts *)
Lemma pairwise_complete l : pairwise_check l <> None <-> conflict_pair l.
Proof.
  induction l as [|a t IH]; cbn.
  - split; [congruence|]. intros (i & j & x & y & _ & Hi & _). destruct i; discriminate.
  - rewrite conflict_pair_cons. destruct (first_conflict a t) eqn:E.
    + split; [|congruence]. intros _. left.
      apply first_conflict_some in E. destruct E as (j & b & Hn & Hc & _). exists b. split; [eapply nth_error_In; eauto|auto].
    + rewrite IH. split; [auto|]. intros [(b & Hb & Hc)|H]; [|assumption].
      apply first_conflict_none in E. rewrite Forall_forall in E. rewrite (E b Hb) in Hc. discriminate.
Qed.

(* the reported error is built from the FIRST conflicting pair in (i, j) lexicographic order *)
Lemma pairwise_error l e :
  pairwise_check l = Some e ->
  exists i j a b, (i < j)%nat /\ nth_error l i = Some a /\ nth_error l j = Some b /\ conflict a b = true /\
    e = overlap_error a b /\
    (forall i' j' a' b', (i' < j')%nat -> nth_error l i' = Some a' -> nth_error l j' = Some b' ->
       (i' < i)%nat \/ (i' = i /\ (j' < j)%nat) -> conflict a' b' = false).
Proof.
  induction l as [|a t IH]; cbn; [discriminate|].
  destruct (first_conflict a t) eqn:E.
  - intros H; inversion H; subst. apply first_conflict_some in E.
    destruct E as (j & b & Hn & Hc & He & Hmin).
    exists O, (S j), a, b. repeat split; auto; [lia|].
    intros i' j' a' b' Hlt Hi Hj [Hlt'|[-> Hlt']]; [lia|].
    cbn in Hi. inversion Hi; subst. destruct j' as [|j']; [lia|]. cbn in Hj.
    eapply Hmin; [|exact Hj]. lia.
  - intros H. destruct (IH H) as (i & j & x & y & Hlt & Hi & Hj & Hc & He & Hmin).
    exists (S i), (S j), x, y. repeat split; auto; [lia|].
    intros i' j' a' b' Hlt' Hi' Hj' Hord.
    destruct j' as [|j']; [lia|]. cbn in Hj'.
    destruct i' as [|i']; cbn in Hi'.
    + inversion Hi'; subst. apply first_conflict_none in E. rewrite Forall_forall in E.
      apply E. eapply nth_error_In; eauto.
    + eapply Hmin; [| exact Hi' | exact Hj' |]; lia.
Qed.

Lemma akind_eqb_eq a b : akind_eqb a b = true <-> a = b.
Proof. destruct a, b; cbn; split; congruence. Qed.

Lemma conflict_spec a b :
  conflict a b = true <-> c_address a = c_address b /\ c_kind a = c_kind b /\ ~ (c_allow a = true /\ c_allow b = true).
Proof.
  unfold conflict. rewrite !andb_true_iff, Z.eqb_eq, akind_eqb_eq, negb_true_iff, andb_false_iff.
  split.
  - intros [[H1 H2] H3]. repeat split; auto. intros [Ha Hb]. destruct H3; congruence.
  - intros (H1 & H2 & H3). repeat split; auto.
    destruct (c_allow a); [|auto]. destruct (c_allow b); [|auto]. exfalso; apply H3; auto.
Qed.

Lemma kinds_never_conflict a b : c_kind a <> c_kind b -> conflict a b = false.
Proof.
  intros H. destruct (conflict a b) eqn:E; [|reflexivity].
  apply conflict_spec in E. destruct E as (_ & Hk & _). contradiction.
Qed.

(* ================================================================================================ *)
(** * 2. address_types_specified (C13_missing_type_rejected) *)

Definition object_kind (o : object) : option akind :=
  match o with
  | ORegister _ => Some KRegister | OCommand _ => Some KCommand | OBuffer _ => Some KBuffer
  | _ => None
  end.

Lemma missing_type_rejected d o k :
  In o (preorder_objects (d_objects d)) -> object_kind o = Some k ->
  address_type_of (d_config d) k = None ->
  exists e, address_types_specified d = Some e /\ e_kind e = "no_address_type"%string.
Proof.
  intros Hin Hk Hty. unfold address_types_specified.
  destruct (first_error _) eqn:E.
  - apply first_error_some_in in E. destruct E as (x & _ & Hx). exists g. split; [reflexivity|].
    unfold specified_check in Hx.
    destruct x; try discriminate;
      [destruct (g_register_address_type _)|destruct (g_command_address_type _)|destruct (g_buffer_address_type _)];
      try discriminate; inversion Hx; reflexivity.
  - exfalso. rewrite first_error_none, Forall_forall in E. specialize (E o Hin).
    destruct o; cbn in Hk; try discriminate; inversion Hk; subst; cbn in Hty; cbn in E; rewrite Hty in E; discriminate.
Qed.

(* every instance of the spec comes from a register / command / buffer object of the tree *)
Lemma instance_has_object dev : forall fuel objs bl path tags l i,
  (forall x, In x objs -> In x (flat_map flat dev)) ->
  instances_objs fuel dev objs bl path tags = Ok l -> In i l ->
  exists o, In o (flat_map flat dev) /\ object_kind o = Some (i_kind i).
Proof.
  induction fuel as [|f IH]; intros objs bl path tags l i Hsub H Hin; cbn in H; [discriminate|].
  apply ocat_map_ok in H. destruct H as (rs & HF & ->).
  apply in_concat in Hin. destruct Hin as (r & Hr & Hir).
  assert (Hblock : forall name off rep ch tg r0,
            (forall x, In x ch -> In x (flat_map flat dev)) ->
            ocat (map (fun i0 => instances_objs f dev ch (bl ++ [(name, i0)])
                                   (path ++ [{| s_addr := off; s_rep := rep; s_idx := i0 |}])
                                   (tg ++ opt_tag (rep_is rep) TRepBlock)) (zrange (rep_count rep))) = Ok r0 ->
            In i r0 -> exists o, In o (flat_map flat dev) /\ object_kind o = Some (i_kind i)).
  { intros name off rep ch tg r0 Hch Hb Hi0. apply ocat_map_ok in Hb. destruct Hb as (rs0 & HF0 & ->).
    apply in_concat in Hi0. destruct Hi0 as (r1 & Hr1 & Hi1).
    destruct (Forall2_in_r _ _ _ HF0 _ Hr1) as (i0 & _ & Hcall).
    eapply IH; eauto. }
  destruct (Forall2_in_r _ _ _ HF _ Hr) as (o & Ho & Hcall).
  destruct o as [c n off rep ch|rg|cm|bf|c n ov].
  - eapply Hblock; eauto. intros x Hx. eapply flat_children; eauto.
  - inversion Hcall; subst. unfold leaf_instances in Hir. apply in_map_iff in Hir. destruct Hir as (k & <- & _).
    exists (ORegister rg). split; [apply Hsub; assumption|reflexivity].
  - inversion Hcall; subst. unfold leaf_instances in Hir. apply in_map_iff in Hir. destruct Hir as (k & <- & _).
    exists (OCommand cm). split; [apply Hsub; assumption|reflexivity].
  - inversion Hcall; subst. unfold leaf_instances in Hir. apply in_map_iff in Hir. destruct Hir as (k & <- & _).
    exists (OBuffer bf). split; [apply Hsub; assumption|reflexivity].
  - destruct ov as [tgt off rep|tgt acc addr allow reset rep|tgt addr allow rep].
    + destruct (search_object tgt dev) as [t|] eqn:Es; [|discriminate].
      destruct t; try discriminate. apply search_object_in in Es. destruct Es as [Es _].
      eapply Hblock; eauto. intros x Hx. eapply flat_children; eauto.
    + destruct (search_object tgt dev) as [t|] eqn:Es; [|discriminate].
      destruct t; try discriminate. apply search_object_in in Es. destruct Es as [Es _].
      inversion Hcall; subst. unfold leaf_instances in Hir. apply in_map_iff in Hir. destruct Hir as (k & <- & _).
      exists (ORegister r0). split; [assumption|reflexivity].
    + destruct (search_object tgt dev) as [t|] eqn:Es; [|discriminate].
      destruct t; try discriminate. apply search_object_in in Es. destruct Es as [Es _].
      inversion Hcall; subst. unfold leaf_instances in Hir. apply in_map_iff in Hir. destruct Hir as (k & <- & _).
      exists (OCommand c0). split; [assumption|reflexivity].
Qed.
