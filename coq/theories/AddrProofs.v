(* AddrProofs.v — proofs about Addr.v (C12, C13). *)
From Coq Require Import ZArith List Bool String Lia ZifyBool Arith.
From DD Require Import Common Mir GenErr Addr.
Import ListNotations.
Local Open Scope Z_scope.
Local Open Scope list_scope.

(* ================================================================================================ *)
(** * 0. Utilities *)

Arguments leaf_instances : simpl never.
Arguments zrange : simpl never.
Arguments rep_count : simpl never.
Arguments rep_stride : simpl never.
Arguments rep_is : simpl never.

(* induction principle for the nested object tree *)
Fixpoint object_ind' (P : object -> Prop)
  (Hblock : forall c n off rep objs, Forall P objs -> P (OBlock c n off rep objs))
  (Hreg : forall r, P (ORegister r)) (Hcmd : forall c, P (OCommand c)) (Hbuf : forall b, P (OBuffer b))
  (Href : forall c n ov, P (ORef c n ov)) (o : object) : P o :=
  match o with
  | OBlock c n off rep objs =>
      Hblock c n off rep objs
        ((fix go (l : list object) : Forall P l :=
            match l with
            | [] => Forall_nil P
            | x :: t => Forall_cons x (object_ind' P Hblock Hreg Hcmd Hbuf Href x) (go t)
            end) objs)
  | ORegister r => Hreg r
  | OCommand c => Hcmd c
  | OBuffer b => Hbuf b
  | ORef c n ov => Href c n ov
  end.

Lemma find_some_some {A B} (f : A -> option B) l b :
  find_some f l = Some b -> exists a, In a l /\ f a = Some b.
Proof.
  induction l as [|a t IH]; cbn; [discriminate|].
  destruct (f a) eqn:E.
  - intros H; inversion H; subst. exists a; auto.
  - intros H. destruct (IH H) as (x & Hx & Hf). exists x; auto.
Qed.

Lemma zrange_In n i : In i (zrange n) <-> 0 <= i < n.
Proof.
  unfold zrange. rewrite in_map_iff. split.
  - intros (k & <- & Hk). apply in_seq in Hk. lia.
  - intros H. exists (Z.to_nat i). split; [lia|]. apply in_seq. lia.
Qed.

Lemma zrange_1 : zrange 1 = [0].
Proof. reflexivity. Qed.

Lemma ocat_ok {A} (l : list (outcome (list A))) r :
  ocat l = Ok r -> exists rs, Forall2 (fun x y => x = Ok y) l rs /\ r = List.concat rs.
Proof.
  revert r; induction l as [|x t IH]; cbn; intros r H.
  - inversion H; subst. exists []; split; [constructor|reflexivity].
  - destruct x as [a|k]; [|discriminate].
    destruct (ocat t) as [b|k] eqn:E; [|discriminate].
    inversion H; subst. destruct (IH b eq_refl) as (rs & HF & ->).
    exists (a :: rs). split; [constructor; auto|reflexivity].
Qed.

Lemma ocat_map_ok {A B} (f : A -> outcome (list B)) l r :
  ocat (map f l) = Ok r -> exists rs, Forall2 (fun x y => f x = Ok y) l rs /\ r = List.concat rs.
Proof.
  intros H. apply ocat_ok in H. destruct H as (rs & HF & ->). exists rs. split; [|reflexivity].
  clear -HF. revert rs HF. induction l as [|a t IH]; intros rs HF; inversion HF; subst; constructor; auto.
Qed.

Lemma ocat_cons_ok {A} (x : outcome (list A)) t r :
  ocat (x :: t) = Ok r -> exists a b, x = Ok a /\ ocat t = Ok b /\ r = (a ++ b)%list.
Proof.
  cbn. destruct x as [a|k]; [|discriminate]. destruct (ocat t) as [b|k]; [|discriminate].
  intros H; inversion H; subst. eauto.
Qed.

Lemma Forall2_in_r {A B} (R : A -> B -> Prop) l l' (H : Forall2 R l l') y :
  In y l' -> exists x, In x l /\ R x y.
Proof.
  induction H as [|a b l l' Hab HF IH]; cbn; [tauto|].
  intros [<-|Hy]; [exists a; auto|]. destruct (IH Hy) as (x & Hx & Hr). exists x; auto.
Qed.

Lemma Forall2_in_l {A B} (R : A -> B -> Prop) l l' (H : Forall2 R l l') x :
  In x l -> exists y, In y l' /\ R x y.
Proof.
  induction H as [|a b l l' Hab HF IH]; cbn; [tauto|].
  intros [<-|Hx]; [exists b; auto|]. destruct (IH Hx) as (y & Hy & Hr). exists y; auto.
Qed.

Lemma first_error_none {A} (f : A -> option gen_error) l :
  first_error (map f l) = None <-> Forall (fun x => f x = None) l.
Proof.
  induction l as [|a t IH]; cbn.
  - split; auto.
  - destruct (f a) eqn:E.
    + split; [discriminate|]. intros H. inversion H; subst. congruence.
    + rewrite IH. split; intros H; [constructor; auto|inversion H; auto].
Qed.

Lemma first_error_some_in {A} (f : A -> option gen_error) l e :
  first_error (map f l) = Some e -> exists x, In x l /\ f x = Some e.
Proof.
  induction l as [|a t IH]; cbn; [discriminate|].
  destruct (f a) eqn:E.
  - intros H; inversion H; subst. exists a; auto.
  - intros H. destruct (IH H) as (x & Hin & Hx). exists x; auto.
Qed.

(* ---- the pre-order object list without depths ---- *)

Fixpoint flat (o : object) : list object :=
  o :: match o with
       | OBlock _ _ _ _ objs => flat_map flat objs
       | _ => []
       end.

Lemma flatten_depth_flat o : forall d, map fst (flatten_depth d o) = flat o.
Proof.
  induction o using object_ind'; intros d; cbn; try reflexivity.
  f_equal. induction H as [|x t Hx Ht IH]; cbn; [reflexivity|].
  rewrite map_app, Hx, IH. reflexivity.
Qed.

Lemma preorder_objects_flat objs : preorder_objects objs = flat_map flat objs.
Proof.
  unfold preorder_objects, preorder. induction objs as [|o t IH]; cbn; [reflexivity|].
  rewrite map_app, flatten_depth_flat, IH. reflexivity.
Qed.

Lemma flat_self o : In o (flat o).
Proof. destruct o; cbn; auto. Qed.

Lemma flat_trans b : forall a x, In a (flat b) -> In x (flat a) -> In x (flat b).
Proof.
  induction b using object_ind'; intros a x Ha Hx; cbn in Ha;
    try (destruct Ha as [<-|[]]; assumption).
  destruct Ha as [<-|Ha]; [assumption|].
  cbn. right. apply in_flat_map in Ha. destruct Ha as (y & Hy & Hay).
  apply in_flat_map. exists y. split; [assumption|].
  rewrite Forall_forall in H. eapply H; eauto.
Qed.

Lemma flat_objs_trans objs a x : In a (flat_map flat objs) -> In x (flat a) -> In x (flat_map flat objs).
Proof.
  intros Ha Hx. apply in_flat_map in Ha. destruct Ha as (b & Hb & Hab).
  apply in_flat_map. exists b. split; [assumption|]. eapply flat_trans; eauto.
Qed.

Lemma flat_children objs c n off rep ch x :
  In (OBlock c n off rep ch) (flat_map flat objs) -> In x ch -> In x (flat_map flat objs).
Proof.
  intros Hb Hx. eapply flat_objs_trans; [exact Hb|]. cbn. right.
  apply in_flat_map. exists x. split; [assumption|apply flat_self].
Qed.

Lemma in_objs_flat objs x : In x objs -> In x (flat_map flat objs).
Proof. intros H. apply in_flat_map. exists x. split; [assumption|apply flat_self]. Qed.

Lemma search_obj_in name o : forall t, search_obj name o = Some t -> In t (flat o) /\ object_name t = name.
Proof.
  induction o using object_ind'; intros t; cbn;
    try (destruct (String.eqb _ name) eqn:E; [|discriminate]; intros Ht; inversion Ht; subst;
         apply String.eqb_eq in E; split; [left; reflexivity|exact E]).
  destruct (String.eqb n name) eqn:E.
  - intros Ht; inversion Ht; subst. apply String.eqb_eq in E. split; [left; reflexivity|exact E].
  - intros Ht. apply find_some_some in Ht. destruct Ht as (a & Ha & Hs).
    rewrite Forall_forall in H. destruct (H a Ha t Hs) as [Hin Hn]. split; [|exact Hn].
    right. apply in_flat_map. exists a; auto.
Qed.

Lemma search_object_in name objs t :
  search_object name objs = Some t -> In t (flat_map flat objs) /\ object_name t = name.
Proof.
  unfold search_object. intros H. apply find_some_some in H. destruct H as (a & Ha & Hs).
  apply search_obj_in in Hs. destruct Hs as [Hin Hn]. split; [|exact Hn].
  apply in_flat_map. exists a; auto.
Qed.

(* ================================================================================================ *)
(** * 1. The pairwise loop (C12) *)

Definition conflict_pair (l : list claimed) : Prop :=
  exists i j a b, (i < j)%nat /\ nth_error l i = Some a /\ nth_error l j = Some b /\ conflict a b = true.

Lemma first_conflict_none a rest :
  first_conflict a rest = None <-> Forall (fun b => conflict a b = false) rest.
Proof.
  induction rest as [|b t IH]; cbn.
  - split; auto.
  - destruct (conflict a b) eqn:E.
    + split; [discriminate|]. intros H; inversion H; congruence.
    + rewrite IH. split; intros H; [constructor; auto|inversion H; auto].
Qed.

Lemma first_conflict_some a rest e :
  first_conflict a rest = Some e ->
  exists j b, nth_error rest j = Some b /\ conflict a b = true /\ e = overlap_error a b /\
              (forall j' b', (j' < j)%nat -> nth_error rest j' = Some b' -> conflict a b' = false).
Proof.
  induction rest as [|b t IH]; cbn; [discriminate|].
  destruct (conflict a b) eqn:E.
  - intros H; inversion H; subst. exists O, b. repeat split; auto. intros j' b' Hlt; lia.
  - intros H. destruct (IH H) as (j & b0 & Hn & Hc & He & Hmin).
    exists (S j), b0. repeat split; auto.
    intros j' b' Hlt Hn'. destruct j' as [|j']; cbn in Hn'.
    + inversion Hn'; subst; assumption.
    + eapply Hmin; [|exact Hn']. lia.
Qed.

Lemma conflict_pair_cons a t :
  conflict_pair (a :: t) <-> (exists b, In b t /\ conflict a b = true) \/ conflict_pair t.
Proof.
  split.
  - intros (i & j & x & y & Hlt & Hi & Hj & Hc).
    destruct j as [|j]; [lia|]. cbn in Hj.
    destruct i as [|i]; cbn in Hi.
    + inversion Hi; subst. left. exists y. split; [eapply nth_error_In; eauto|assumption].
    + right. exists i, j, x, y. repeat split; auto. lia.
  - intros [(b & Hb & Hc)|(i & j & x & y & Hlt & Hi & Hj & Hc)].
    + apply In_nth_error in Hb. destruct Hb as [j Hj]. exists O, (S j), a, b. repeat split; auto. lia.
    + exists (S i), (S j), x, y. repeat split; auto. lia.
Qed.

(* the i < j double loop rejects <-> some pair of claimed entries conflicts *)
Lemma pairwise_complete l : pairwise_check l <> None <-> conflict_pair l.
Proof.
  induction l as [|a t IH]; cbn.
  - split; [congruence|]. intros (i & j & x & y & _ & Hi & _). destruct i; discriminate.
  - rewrite conflict_pair_cons. destruct (first_conflict a t) eqn:E.
    + split; [|congruence]. intros _. left.
      apply first_conflict_some in E. destruct E as (j & b & Hn & Hc & _). exists b. split; [eapply nth_error_In; eauto|auto].
    + rewrite IH. split; [auto|]. intros [(b & Hb & Hc)|H]; [|assumption].
      apply first_conflict_none in E. rewrite Forall_forall in E. rewrite (E b Hb) in Hc. discriminate.
Qed.

(* the reported error is built from the FIRST conflicting pair in (i, j) lexicographic order *)
Lemma pairwise_error l e :
  pairwise_check l = Some e ->
  exists i j a b, (i < j)%nat /\ nth_error l i = Some a /\ nth_error l j = Some b /\ conflict a b = true /\
    e = overlap_error a b /\
    (forall i' j' a' b', (i' < j')%nat -> nth_error l i' = Some a' -> nth_error l j' = Some b' ->
       (i' < i)%nat \/ (i' = i /\ (j' < j)%nat) -> conflict a' b' = false).
Proof.
  induction l as [|a t IH]; cbn; [discriminate|].
  destruct (first_conflict a t) eqn:E.
  - intros H; inversion H; subst. apply first_conflict_some in E.
    destruct E as (j & b & Hn & Hc & He & Hmin).
    exists O, (S j), a, b. repeat split; auto; [lia|].
    intros i' j' a' b' Hlt Hi Hj [Hlt'|[-> Hlt']]; [lia|].
    cbn in Hi. inversion Hi; subst. destruct j' as [|j']; [lia|]. cbn in Hj.
    eapply Hmin; [|exact Hj]. lia.
  - intros H. destruct (IH H) as (i & j & x & y & Hlt & Hi & Hj & Hc & He & Hmin).
    exists (S i), (S j), x, y. repeat split; auto; [lia|].
    intros i' j' a' b' Hlt' Hi' Hj' Hord.
    destruct j' as [|j']; [lia|]. cbn in Hj'.
    destruct i' as [|i']; cbn in Hi'.
    + inversion Hi'; subst. apply first_conflict_none in E. rewrite Forall_forall in E.
      apply E. eapply nth_error_In; eauto.
    + eapply Hmin; [| exact Hi' | exact Hj' |]; lia.
Qed.

Lemma akind_eqb_eq a b : akind_eqb a b = true <-> a = b.
Proof. destruct a, b; cbn; split; congruence. Qed.

Lemma conflict_spec a b :
  conflict a b = true <-> c_address a = c_address b /\ c_kind a = c_kind b /\ ~ (c_allow a = true /\ c_allow b = true).
Proof.
  unfold conflict. rewrite !andb_true_iff, Z.eqb_eq, akind_eqb_eq, negb_true_iff, andb_false_iff.
  split.
  - intros [[H1 H2] H3]. repeat split; auto. intros [Ha Hb]. destruct H3; congruence.
  - intros (H1 & H2 & H3). repeat split; auto.
    destruct (c_allow a); [|auto]. destruct (c_allow b); [|auto]. exfalso; apply H3; auto.
Qed.

Lemma kinds_never_conflict a b : c_kind a <> c_kind b -> conflict a b = false.
Proof.
  intros H. destruct (conflict a b) eqn:E; [|reflexivity].
  apply conflict_spec in E. destruct E as (_ & Hk & _). contradiction.
Qed.

(* ================================================================================================ *)
(** * 2. address_types_specified (C13_missing_type_rejected) *)

Definition object_kind (o : object) : option akind :=
  match o with
  | ORegister _ => Some KRegister | OCommand _ => Some KCommand | OBuffer _ => Some KBuffer
  | _ => None
  end.

Lemma missing_type_rejected d o k :
  In o (preorder_objects (d_objects d)) -> object_kind o = Some k ->
  address_type_of (d_config d) k = None ->
  exists e, address_types_specified d = Some e /\ e_kind e = "no_address_type"%string.
Proof.
  intros Hin Hk Hty. unfold address_types_specified.
  destruct (first_error _) eqn:E.
  - apply first_error_some_in in E. destruct E as (x & _ & Hx). exists g. split; [reflexivity|].
    unfold specified_check in Hx.
    destruct x; try discriminate;
      [destruct (g_register_address_type _)|destruct (g_command_address_type _)|destruct (g_buffer_address_type _)];
      try discriminate; inversion Hx; reflexivity.
  - exfalso. rewrite first_error_none, Forall_forall in E. specialize (E o Hin).
    destruct o; cbn in Hk; try discriminate; inversion Hk; subst; cbn in Hty; cbn in E; rewrite Hty in E; discriminate.
Qed.

Lemma leaf_instances_in bl path tags lf i :
  In i (leaf_instances bl path tags lf) ->
  exists k, 0 <= k < rep_count (lf_rep lf) /\
    i = {| i_kind := lf_kind lf; i_blocks := bl; i_name := lf_name lf;
           i_index := if rep_is (lf_rep lf) then Some k else None;
           i_path := path ++ [{| s_addr := lf_addr lf; s_rep := lf_rep lf; s_idx := k |}];
           i_allow := lf_allow lf; i_tags := tags ++ lf_tags lf |}.
Proof.
  unfold leaf_instances. intros H. apply in_map_iff in H. destruct H as (k & <- & Hk).
  apply zrange_In in Hk. exists k. split; [assumption|reflexivity].
Qed.

(* every instance of the spec comes from a register / command / buffer object of the tree *)
Lemma instance_has_object dev : forall fuel objs bl path tags l i,
  (forall x, In x objs -> In x (flat_map flat dev)) ->
  instances_objs fuel dev objs bl path tags = Ok l -> In i l ->
  exists o, In o (flat_map flat dev) /\ object_kind o = Some (i_kind i).
Proof.
  induction fuel as [|f IH]; intros objs bl path tags l i Hsub H Hin; cbn in H; [discriminate|].
  apply ocat_map_ok in H. destruct H as (rs & HF & ->).
  apply in_concat in Hin. destruct Hin as (r & Hr & Hir).
  assert (Hblock : forall name off rep ch tg r0,
            (forall x, In x ch -> In x (flat_map flat dev)) ->
            ocat (map (fun i0 => instances_objs f dev ch (bl ++ [(name, i0)])
                                   (path ++ [{| s_addr := off; s_rep := rep; s_idx := i0 |}])
                                   (tg ++ opt_tag (rep_is rep) TRepBlock)) (zrange (rep_count rep))) = Ok r0 ->
            In i r0 -> exists o, In o (flat_map flat dev) /\ object_kind o = Some (i_kind i)).
  { intros name off rep ch tg r0 Hch Hb Hi0. apply ocat_map_ok in Hb. destruct Hb as (rs0 & HF0 & ->).
    apply in_concat in Hi0. destruct Hi0 as (r1 & Hr1 & Hi1).
    destruct (Forall2_in_r _ _ _ HF0 _ Hr1) as (i0 & _ & Hcall).
    eapply IH; eauto. }
  destruct (Forall2_in_r _ _ _ HF _ Hr) as (o & Ho & Hcall).
  destruct o as [c n off rep ch|rg|cm|bf|c n ov].
  - cbn beta iota in Hcall. eapply Hblock; [|exact Hcall|exact Hir].
    intros x Hx. eapply flat_children; [apply Hsub; exact Ho|exact Hx].
  - injection Hcall as <-. apply leaf_instances_in in Hir. destruct Hir as (k & _ & ->).
    exists (ORegister rg). split; [apply Hsub; assumption|reflexivity].
  - injection Hcall as <-. apply leaf_instances_in in Hir. destruct Hir as (k & _ & ->).
    exists (OCommand cm). split; [apply Hsub; assumption|reflexivity].
  - injection Hcall as <-. apply leaf_instances_in in Hir. destruct Hir as (k & _ & ->).
    exists (OBuffer bf). split; [apply Hsub; assumption|reflexivity].
  - destruct ov as [tgt off rep|tgt acc addr allow reset rep|tgt addr allow rep].
    + destruct (search_object tgt dev) as [t|] eqn:Es; [|discriminate].
      destruct t; try discriminate. apply search_object_in in Es. destruct Es as [Es _].
      eapply Hblock; [|exact Hcall|exact Hir]. intros x Hx. eapply flat_children; [exact Es|exact Hx].
    + destruct (search_object tgt dev) as [t|] eqn:Es; [|discriminate].
      destruct t; try discriminate. apply search_object_in in Es. destruct Es as [Es _].
      injection Hcall as <-. apply leaf_instances_in in Hir. destruct Hir as (k & _ & ->).
      exists (ORegister r0). split; [assumption|reflexivity].
    + destruct (search_object tgt dev) as [t|] eqn:Es; [|discriminate].
      destruct t; try discriminate. apply search_object_in in Es. destruct Es as [Es _].
      injection Hcall as <-. apply leaf_instances_in in Hir. destruct Hir as (k & _ & ->).
      exists (OCommand c0). split; [assumption|reflexivity].
Qed.

(* ================================================================================================ *)
(** * 3. find_min_max_addresses: the stack walk equals the structural recursion *)

Definition visit (filter : object -> bool) (S : Z) (o : object) (acc : Z * Z) : Z * Z :=
  if filter o then
    match object_address o with
    | None => acc
    | Some a =>
        let c0 := S + a in
        let cm := c0 + Z.max (rep_count (object_repeat o) - 1) 0 * rep_stride (object_repeat o) in
        (Z.min (Z.min (fst acc) c0) cm, Z.max (Z.max (snd acc) c0) cm)
    end
  else acc.

(* the natural recursion: [S] = sum of the enclosing blocks' offsets *)
Fixpoint mm_struct (filter : object -> bool) (S : Z) (o : object) (acc : Z * Z) {struct o} : Z * Z :=
  let acc1 := visit filter S o acc in
  match o with
  | OBlock _ _ off _ objs =>
      (fix go (l : list object) (a : Z * Z) : Z * Z :=
         match l with [] => a | x :: t => go t (mm_struct filter (S + off) x a) end) objs acc1
  | _ => acc1
  end.

Definition mm_struct_list (filter : object -> bool) (S : Z) (objs : list object) (acc : Z * Z) : Z * Z :=
  fold_left (fun a x => mm_struct filter S x a) objs acc.

Lemma mm_struct_block filter S c n off rep objs acc :
  mm_struct filter S (OBlock c n off rep objs) acc =
  mm_struct_list filter (S + off) objs (visit filter S (OBlock c n off rep objs) acc).
Proof.
  cbn [mm_struct]. unfold mm_struct_list. generalize (visit filter S (OBlock c n off rep objs) acc).
  induction objs as [|x t IH]; intros a; cbn; [reflexivity|apply IH].
Qed.

Definition filter_blocks (filter : object -> bool) : Prop :=
  forall c n off rep objs, filter (OBlock c n off rep objs) = true.

Definition proj (st : mm_state) : Z * Z := (mm_min st, mm_max st).

Definition at_depth (d : nat) (S : list Z) (st : mm_state) : Prop :=
  exists extra, mm_offsets st = (extra ++ S)%list /\ mm_last_depth st = (d + List.length extra)%nat.

Lemma mm_pop_spec : forall k st extra S d,
  mm_offsets st = (extra ++ S)%list -> List.length extra = k -> mm_last_depth st = (d + k)%nat ->
  mm_offsets (mm_pop k st) = S /\ mm_last_depth (mm_pop k st) = d /\ proj (mm_pop k st) = proj st.
Proof.
  induction k as [|k IH]; intros st extra S d Ho Hl Hd.
  - destruct extra; [|discriminate]. cbn in *. repeat split; auto. lia.
  - destruct extra as [|x extra]; [discriminate|]. cbn [mm_pop]. rewrite Ho. cbn [app tl].
    cbn in Hl.
    destruct (IH {| mm_min := mm_min st; mm_max := mm_max st; mm_last_depth := Nat.pred (mm_last_depth st);
                    mm_offsets := (extra ++ S)%list; mm_ok := mm_ok st |} extra S d) as (H1 & H2 & H3);
      [reflexivity|lia|cbn; lia|].
    repeat split; [exact H1|exact H2|exact H3].
Qed.

Lemma mm_step_spec filter d S st o :
  filter_blocks filter -> at_depth d S st ->
  let st' := mm_step filter st (o, d) in
  proj st' = visit filter (zsum S) o (proj st) /\
  match o with
  | OBlock _ _ off _ _ => mm_offsets st' = off :: S /\ mm_last_depth st' = Datatypes.S d
  | _ => mm_offsets st' = S /\ mm_last_depth st' = d
  end.
Proof.
  intros Hfb (extra & Ho & Hd). cbn zeta. unfold mm_step.
  replace (mm_last_depth st - d)%nat with (List.length extra) by lia.
  destruct (mm_pop_spec (List.length extra) st extra S d Ho eq_refl Hd) as (P1 & P2 & P3).
  set (st1 := mm_pop (List.length extra) st) in *.
  unfold visit. destruct (filter o) eqn:Ef; cbn [negb].
  - destruct (object_address o) as [a|] eqn:Ea.
    + destruct o; cbn; rewrite ?P1, ?P2; unfold proj in *; inversion P3; split; auto; try (rewrite H0, H1; reflexivity).
    + destruct o; cbn; rewrite ?P1, ?P2; split; auto; discriminate.
  - destruct o; try (split; [exact P3|split; assumption]).
    rewrite Hfb in Ef. discriminate.
Qed.

Lemma walk_obj filter (Hfb : filter_blocks filter) o : forall d S st,
  at_depth d S st ->
  at_depth d S (fold_left (mm_step filter) (flatten_depth d o) st) /\
  proj (fold_left (mm_step filter) (flatten_depth d o) st) = mm_struct filter (zsum S) o (proj st).
Proof.
  induction o using object_ind'; intros d S st Hat;
    try (match goal with |- context [flatten_depth d ?o] =>
           destruct (mm_step_spec filter d S st o Hfb Hat) as (Hp & Hrest) end;
         cbn [flatten_depth fold_left mm_struct]; cbn beta iota zeta in Hrest;
         destruct Hrest as (Ho & Hd);
         split; [exists []; split; [exact Ho|rewrite Hd; cbn; lia]|exact Hp]).
  rename H into IHch.
  rewrite mm_struct_block.
  cbn [flatten_depth fold_left].
  destruct (mm_step_spec filter d S st (OBlock c n off rep objs) Hfb Hat) as (Hp & Ho & Hd).
  set (st1 := mm_step filter st (OBlock c n off rep objs, d)) in *. clearbody st1.
  rewrite <- Hp.
  assert (Hat1 : at_depth (Datatypes.S d) (off :: S) st1) by (exists []; split; [exact Ho|rewrite Hd; cbn; lia]).
  replace (zsum S + off) with (zsum (off :: S)) by (unfold zsum; cbn [fold_right]; lia).
  clear Hp Ho Hd Hat st.
  assert (Hlist : at_depth (Datatypes.S d) (off :: S) (fold_left (mm_step filter) (flat_map (flatten_depth (Datatypes.S d)) objs) st1) /\
                  proj (fold_left (mm_step filter) (flat_map (flatten_depth (Datatypes.S d)) objs) st1) =
                  mm_struct_list filter (zsum (off :: S)) objs (proj st1)).
  { revert st1 Hat1. induction IHch as [|x t Hx Ht IHt]; intros st1 Hat1; cbn [flat_map].
    - split; [assumption|reflexivity].
    - rewrite fold_left_app. destruct (Hx (Datatypes.S d) (off :: S) st1 Hat1) as (A1 & A2).
      destruct (IHt _ A1) as (B1 & B2). split; [assumption|].
      rewrite B2, A2. reflexivity. }
  destruct Hlist as ((extra & E1 & E2) & Hpr). split; [|exact Hpr].
  exists (extra ++ [off])%list. rewrite <- app_assoc. cbn. split; [assumption|]. rewrite app_length. cbn. lia.
Qed.

Lemma walk_struct filter objs :
  filter_blocks filter ->
  find_min_max_addresses filter objs = mm_struct_list filter 0 objs (0, 0).
Proof.
  intros Hfb. unfold find_min_max_addresses, mm_walk, preorder.
  assert (H : forall st, at_depth 0 [] st ->
            at_depth 0 [] (fold_left (mm_step filter) (flat_map (flatten_depth 0) objs) st) /\
            proj (fold_left (mm_step filter) (flat_map (flatten_depth 0) objs) st) = mm_struct_list filter 0 objs (proj st)).
  { induction objs as [|x t IH]; intros st Hat; cbn [flat_map].
    - split; [assumption|reflexivity].
    - rewrite fold_left_app. destruct (walk_obj filter Hfb x 0%nat [] st Hat) as (A1 & A2).
      destruct (IH _ A1) as (B1 & B2). split; [assumption|]. rewrite B2, A2. reflexivity. }
  destruct (H mm_init) as (_ & Hp); [exists []; split; reflexivity|]. exact Hp.
Qed.

Lemma filter_all_blocks : filter_blocks filter_all.
Proof. intros c n off rep objs; reflexivity. Qed.
Lemma filter_kind_blocks k : filter_blocks (filter_kind k).
Proof. intros c n off rep objs; destruct k; reflexivity. Qed.

(* ================================================================================================ *)
(** * 4. Every untagged instance lies between the walk's minimum and maximum *)

Definition within (acc : Z * Z) (z : Z) : Prop := fst acc <= z <= snd acc.
Definition le_acc (a b : Z * Z) : Prop := fst b <= fst a /\ snd a <= snd b.

Lemma le_acc_refl a : le_acc a a.
Proof. unfold le_acc; lia. Qed.
Lemma le_acc_trans a b c : le_acc a b -> le_acc b c -> le_acc a c.
Proof. unfold le_acc; lia. Qed.
Lemma within_mono a b z : within a z -> le_acc a b -> within b z.
Proof. unfold within, le_acc; lia. Qed.

Lemma visit_mono filter S o acc : le_acc acc (visit filter S o acc).
Proof.
  unfold visit. destruct (filter o); [|apply le_acc_refl].
  destruct (object_address o); [|apply le_acc_refl]. unfold le_acc; cbn. lia.
Qed.

Lemma mm_struct_mono filter o : forall S acc, le_acc acc (mm_struct filter S o acc).
Proof.
  induction o using object_ind'; intros S acc; try (cbn [mm_struct]; apply visit_mono).
  rewrite mm_struct_block. apply le_acc_trans with (visit filter S (OBlock c n off rep objs) acc); [apply visit_mono|].
  generalize (visit filter S (OBlock c n off rep objs) acc). unfold mm_struct_list.
  induction H as [|x t Hx Ht IH]; intros a; cbn [fold_left]; [apply le_acc_refl|].
  apply le_acc_trans with (mm_struct filter (S + off) x a); [apply Hx|apply IH].
Qed.

Lemma mm_struct_list_mono filter S objs acc : le_acc acc (mm_struct_list filter S objs acc).
Proof.
  unfold mm_struct_list. revert acc. induction objs as [|x t IH]; intros acc; cbn [fold_left]; [apply le_acc_refl|].
  apply le_acc_trans with (mm_struct filter S x acc); [apply mm_struct_mono|apply IH].
Qed.

Lemma visit_within filter S o acc a k :
  filter o = true -> object_address o = Some a -> 0 <= k < rep_count (object_repeat o) ->
  within (visit filter S o acc) (S + a + k * rep_stride (object_repeat o)).
Proof.
  intros Hf Ha Hk. unfold visit. rewrite Hf, Ha. unfold within. cbn [fst snd].
  set (c := rep_count (object_repeat o)) in *. set (s := rep_stride (object_repeat o)) in *.
  replace (Z.max (c - 1) 0) with (c - 1) by lia.
  clearbody c s.
  assert (Hl : (0 <= k * s <= (c - 1) * s) \/ ((c - 1) * s <= k * s <= 0)).
  { destruct (Z_le_gt_dec 0 s); [left|right]; nia. }
  lia.
Qed.

Lemma visit_within0 filter S o acc a :
  filter o = true -> object_address o = Some a -> within (visit filter S o acc) (S + a).
Proof.
  intros Hf Ha. unfold visit. rewrite Hf, Ha. unfold within. cbn [fst snd]. lia.
Qed.

(* tags *)
Definition clean (ts : list tag) : Prop := forall t, In t ts -> t = TOwnFlag.

Lemma tag_eqb_eq a b : tag_eqb a b = true <-> a = b.
Proof. destruct a, b; cbn; split; congruence. Qed.

Lemma untagged_clean i : untagged i = true <-> clean (i_tags i).
Proof.
  unfold untagged, c13_tags, clean. generalize (i_tags i) as ts.
  induction ts as [|t ts IH]; cbn.
  - split; [tauto|reflexivity].
  - destruct (tag_eqb t TOwnFlag) eqn:E; cbn.
    + rewrite IH. apply tag_eqb_eq in E. subst. split; [intros H x [<-|Hx]; auto|intros H x Hx; apply H; auto].
    + split; [discriminate|]. intros H. specialize (H t (or_introl eq_refl)). apply tag_eqb_eq in H. congruence.
Qed.

Lemma clean_app a b : clean (a ++ b) <-> clean a /\ clean b.
Proof.
  unfold clean. split.
  - intros H; split; intros t Ht; apply H; apply in_or_app; auto.
  - intros [Ha Hb] t Ht. apply in_app_or in Ht. destruct Ht; auto.
Qed.

Lemma clean_opt_tag b t : t <> TOwnFlag -> clean (opt_tag b t) -> b = false.
Proof. destruct b; [|reflexivity]. intros Hne H. exfalso. apply Hne. apply H. left. reflexivity. Qed.

(* one object of instances_objs, with the recursive calls abstracted *)
Definition block_inst (rec : list object -> list (string * Z) -> list step -> list tag -> outcome (list instance))
           (bl : list (string * Z)) (path : list step) (name : string) (off : Z) (rep : option repeat)
           (children : list object) (tags' : list tag) : outcome (list instance) :=
  ocat (map (fun i => rec children (bl ++ [(name, i)])
                        (path ++ [{| s_addr := off; s_rep := rep; s_idx := i |}])
                        (tags' ++ opt_tag (rep_is rep) TRepBlock))
            (zrange (rep_count rep))).

Definition inst_one (rec : list object -> list (string * Z) -> list step -> list tag -> outcome (list instance))
           (dev : list object) (bl : list (string * Z)) (path : list step) (tags : list tag) (o : object)
  : outcome (list instance) :=
  match o with
  | ORegister r =>
      Ok (leaf_instances bl path tags
            {| lf_kind := KRegister; lf_name := rg_name r; lf_addr := rg_address r; lf_rep := rg_repeat r;
               lf_allow := rg_allow_address_overlap r; lf_tags := [] |})
  | OCommand c =>
      Ok (leaf_instances bl path tags
            {| lf_kind := KCommand; lf_name := cm_name c; lf_addr := cm_address c; lf_rep := cm_repeat c;
               lf_allow := cm_allow_address_overlap c; lf_tags := [] |})
  | OBuffer b =>
      Ok (leaf_instances bl path tags
            {| lf_kind := KBuffer; lf_name := bf_name b; lf_addr := bf_address b; lf_rep := None;
               lf_allow := false; lf_tags := [] |})
  | OBlock _ name off rep children => block_inst rec bl path name off rep children tags
  | ORef _ name (OvRegister tgt _ addr allow _ rep) =>
      match search_object tgt dev with
      | Some (ORegister r) =>
          Ok (leaf_instances bl path tags
                {| lf_kind := KRegister; lf_name := name; lf_addr := or_else addr (rg_address r);
                   lf_rep := or_else_opt rep (rg_repeat r);
                   lf_allow := rg_allow_address_overlap r || allow;
                   lf_tags := opt_tag (is_none addr) TRefNoAddr
                              ++ opt_tag (is_none rep && rep_is (rg_repeat r)) TRefKeepsRepeat
                              ++ opt_tag allow TOwnFlag |})
      | _ => Fail AssertFail
      end
  | ORef _ name (OvCommand tgt addr allow rep) =>
      match search_object tgt dev with
      | Some (OCommand c) =>
          Ok (leaf_instances bl path tags
                {| lf_kind := KCommand; lf_name := name; lf_addr := or_else addr (cm_address c);
                   lf_rep := or_else_opt rep (cm_repeat c);
                   lf_allow := cm_allow_address_overlap c || allow;
                   lf_tags := opt_tag (is_none addr) TRefNoAddr
                              ++ opt_tag (is_none rep && rep_is (cm_repeat c)) TRefKeepsRepeat
                              ++ opt_tag allow TOwnFlag |})
      | _ => Fail AssertFail
      end
  | ORef _ _ (OvBlock tgt off rep) =>
      match search_object tgt dev with
      | Some (OBlock _ tname toff trep children) =>
          block_inst rec bl path tname (or_else off toff) (or_else_opt rep trep) children (tags ++ [TBlockRef])
      | _ => Fail AssertFail
      end
  end.

Lemma instances_objs_S f dev objs bl path tags :
  instances_objs (S f) dev objs bl path tags = ocat (map (inst_one (instances_objs f dev) dev bl path tags) objs).
Proof. reflexivity. Qed.

Lemma block_inst_in rec bl path name off rep ch tg r i :
  block_inst rec bl path name off rep ch tg = Ok r -> In i r ->
  exists k r1, 0 <= k < rep_count rep /\
    rec ch (bl ++ [(name, k)]) (path ++ [{| s_addr := off; s_rep := rep; s_idx := k |}])
        (tg ++ opt_tag (rep_is rep) TRepBlock) = Ok r1 /\ In i r1.
Proof.
  unfold block_inst. intros H Hi. apply ocat_map_ok in H. destruct H as (rs & HF & ->).
  apply in_concat in Hi. destruct Hi as (r1 & Hr1 & Hi).
  destruct (Forall2_in_r _ _ _ HF _ Hr1) as (k & Hk & Hcall). apply zrange_In in Hk.
  exists k, r1. auto.
Qed.

(* the context tags are a prefix of every instance's tags *)
Lemma tags_prefix dev : forall fuel objs bl path tags l i,
  instances_objs fuel dev objs bl path tags = Ok l -> In i l -> exists rest, i_tags i = (tags ++ rest)%list.
Proof.
  induction fuel as [|f IH]; intros objs bl path tags l i H Hi; [discriminate|].
  rewrite instances_objs_S in H. apply ocat_map_ok in H. destruct H as (rs & HF & ->).
  apply in_concat in Hi. destruct Hi as (r & Hr & Hi).
  destruct (Forall2_in_r _ _ _ HF _ Hr) as (o & Ho & Hcall).
  assert (Hblock : forall name off rep ch tg, block_inst (instances_objs f dev) bl path name off rep ch tg = Ok r ->
                     exists rest, i_tags i = (tg ++ rest)%list).
  { intros name off rep ch tg Hb. destruct (block_inst_in _ _ _ _ _ _ _ _ _ _ Hb Hi) as (k & r1 & _ & Hrec & Hi1).
    destruct (IH _ _ _ _ _ _ Hrec Hi1) as (rest & ->). rewrite <- app_assoc. eauto. }
  destruct o as [c n off rep ch|rg|cm|bf|c n ov]; cbn [inst_one] in Hcall.
  - eauto.
  - injection Hcall as <-. apply leaf_instances_in in Hi. destruct Hi as (k & _ & ->). cbn. eauto.
  - injection Hcall as <-. apply leaf_instances_in in Hi. destruct Hi as (k & _ & ->). cbn. eauto.
  - injection Hcall as <-. apply leaf_instances_in in Hi. destruct Hi as (k & _ & ->). cbn. eauto.
  - destruct ov as [tgt off rep|tgt acc addr allow reset rep|tgt addr allow rep];
      (destruct (search_object _ dev) as [t|]; [|discriminate]); destruct t; try discriminate.
    + destruct (Hblock _ _ _ _ _ Hcall) as (rest & ->). rewrite <- app_assoc. eauto.
    + injection Hcall as <-. apply leaf_instances_in in Hi. destruct Hi as (k & _ & ->). cbn. eauto.
    + injection Hcall as <-. apply leaf_instances_in in Hi. destruct Hi as (k & _ & ->). cbn. eauto.
Qed.

Lemma zsum_app a b : zsum (a ++ b) = zsum a + zsum b.
Proof. unfold zsum. induction a as [|x t IH]; cbn [app fold_right]; [reflexivity|]. rewrite IH. lia. Qed.

Lemma addr_sem_app p s : addr_sem (p ++ [s]) = addr_sem p + step_sem s.
Proof. unfold addr_sem. rewrite map_app, zsum_app. unfold zsum. cbn [map fold_right]. lia. Qed.

(* a filter at least as permissive as the walk of the instance's kind *)
Definition filter_covers (filter : object -> bool) (k : akind) : Prop :=
  forall o, filter_kind k o = true -> filter o = true.

Lemma inst_bounded dev filter (Hfb : filter_blocks filter) : forall fuel objs bl path tags l i,
  instances_objs fuel dev objs bl path tags = Ok l -> In i l -> clean (i_tags i) ->
  filter_covers filter (i_kind i) ->
  forall acc, within (mm_struct_list filter (addr_sem path) objs acc) (i_addr i).
Proof.
  induction fuel as [|f IH]; intros objs bl path tags l i H Hi Hcl Hcov; [discriminate|].
  rewrite instances_objs_S in H.
  (* one object *)
  assert (Hone : forall o a acc, inst_one (instances_objs f dev) dev bl path tags o = Ok a -> In i a ->
                   within (mm_struct filter (addr_sem path) o acc) (i_addr i)).
  { intros o a acc Ho Hia.
    assert (Hleaf : forall lf, In i (leaf_instances bl path tags lf) ->
              filter o = true -> object_address o = Some (lf_addr lf) ->
              (rep_count (object_repeat o) = rep_count (lf_rep lf) /\ rep_stride (object_repeat o) = rep_stride (lf_rep lf)) ->
              within (visit filter (addr_sem path) o acc) (i_addr i)).
    { intros lf Hin Hf Ha (Hc & Hs). apply leaf_instances_in in Hin. destruct Hin as (k & Hk & ->).
      unfold i_addr. cbn [i_path]. rewrite addr_sem_app. unfold step_sem. cbn [s_addr s_idx s_rep].
      rewrite <- Hs, Z.add_assoc. apply visit_within; auto. rewrite Hc. assumption. }
    destruct o as [c n off rep ch|rg|cm|bf|c n ov]; cbn [inst_one] in Ho.
    - (* block *)
      destruct (block_inst_in _ _ _ _ _ _ _ _ _ _ Ho Hia) as (k & r1 & Hk & Hrec & Hi1).
      destruct (tags_prefix _ _ _ _ _ _ _ _ Hrec Hi1) as (rest & Ht).
      assert (Hrep : rep = None).
      { pose proof Hcl as Hc. rewrite Ht in Hc. apply clean_app in Hc. destruct Hc as [Hc _].
        apply clean_app in Hc. destruct Hc as [_ Hc]. apply clean_opt_tag in Hc; [|discriminate].
        destruct rep; [discriminate|reflexivity]. }
      subst rep. assert (k = 0) by (unfold rep_count in Hk; lia). subst k.
      rewrite mm_struct_block.
      pose proof (IH _ _ _ _ _ _ Hrec Hi1 Hcl Hcov) as Hb. rewrite addr_sem_app in Hb.
      unfold step_sem in Hb. cbn [s_addr s_idx s_rep] in Hb. unfold rep_stride in Hb.
      replace (addr_sem path + (off + 0 * 0)) with (addr_sem path + off) in Hb by lia. apply Hb.
    - injection Ho as <-. eapply Hleaf; [exact Hia| | reflexivity | split; reflexivity].
      apply leaf_instances_in in Hia. destruct Hia as (k & _ & ->). apply Hcov. reflexivity.
    - injection Ho as <-. eapply Hleaf; [exact Hia| | reflexivity | split; reflexivity].
      apply leaf_instances_in in Hia. destruct Hia as (k & _ & ->). apply Hcov. reflexivity.
    - injection Ho as <-. eapply Hleaf; [exact Hia| | reflexivity | split; reflexivity].
      apply leaf_instances_in in Hia. destruct Hia as (k & _ & ->). apply Hcov. reflexivity.
    - destruct ov as [tgt off rep|tgt acc0 addr allow reset rep|tgt addr allow rep];
        (destruct (search_object _ dev) as [t|]; [|discriminate]); destruct t; try discriminate.
      + (* block ref: tagged *)
        destruct (block_inst_in _ _ _ _ _ _ _ _ _ _ Ho Hia) as (k & r1 & Hk & Hrec & Hi1).
        destruct (tags_prefix _ _ _ _ _ _ _ _ Hrec Hi1) as (rest & Ht).
        exfalso. rewrite Ht in Hcl. apply clean_app in Hcl. destruct Hcl as [Hc _].
        apply clean_app in Hc. destruct Hc as [Hc _]. apply clean_app in Hc. destruct Hc as [_ Hc].
        specialize (Hc TBlockRef (or_introl eq_refl)). discriminate.
      + injection Ho as <-. pose proof Hia as Hia'. apply leaf_instances_in in Hia'. destruct Hia' as (k & _ & Hi').
        assert (Hc : clean (lf_tags {| lf_kind := KRegister; lf_name := n; lf_addr := or_else addr (rg_address r);
                   lf_rep := or_else_opt rep (rg_repeat r); lf_allow := rg_allow_address_overlap r || allow;
                   lf_tags := opt_tag (is_none addr) TRefNoAddr
                              ++ opt_tag (is_none rep && rep_is (rg_repeat r)) TRefKeepsRepeat
                              ++ opt_tag allow TOwnFlag |})).
        { rewrite Hi' in Hcl. cbn [i_tags] in Hcl. apply clean_app in Hcl. apply Hcl. }
        cbn [lf_tags] in Hc. apply clean_app in Hc. destruct Hc as [Hc1 Hc]. apply clean_app in Hc. destruct Hc as [Hc2 _].
        apply clean_opt_tag in Hc1; [|discriminate]. apply clean_opt_tag in Hc2; [|discriminate].
        destruct addr as [a0|]; [|discriminate].
        eapply Hleaf; [exact Hia| | reflexivity | ].
        * apply Hcov. rewrite Hi'. reflexivity.
        * cbn [lf_rep object_repeat]. destruct rep as [rp|]; [split; reflexivity|].
          cbn in Hc2. destruct (rg_repeat r); [discriminate|]. split; reflexivity.
      + injection Ho as <-. pose proof Hia as Hia'. apply leaf_instances_in in Hia'. destruct Hia' as (k & _ & Hi').
        assert (Hc : clean (lf_tags {| lf_kind := KCommand; lf_name := n; lf_addr := or_else addr (cm_address c0);
                   lf_rep := or_else_opt rep (cm_repeat c0); lf_allow := cm_allow_address_overlap c0 || allow;
                   lf_tags := opt_tag (is_none addr) TRefNoAddr
                              ++ opt_tag (is_none rep && rep_is (cm_repeat c0)) TRefKeepsRepeat
                              ++ opt_tag allow TOwnFlag |})).
        { rewrite Hi' in Hcl. cbn [i_tags] in Hcl. apply clean_app in Hcl. apply Hcl. }
        cbn [lf_tags] in Hc. apply clean_app in Hc. destruct Hc as [Hc1 Hc]. apply clean_app in Hc. destruct Hc as [Hc2 _].
        apply clean_opt_tag in Hc1; [|discriminate]. apply clean_opt_tag in Hc2; [|discriminate].
        destruct addr as [a0|]; [|discriminate].
        eapply Hleaf; [exact Hia| | reflexivity | ].
        * apply Hcov. rewrite Hi'. reflexivity.
        * cbn [lf_rep object_repeat]. destruct rep as [rp|]; [split; reflexivity|].
          cbn in Hc2. destruct (cm_repeat c0); [discriminate|]. split; reflexivity. }
  (* the list *)
  revert l H Hi. induction objs as [|o t IHt]; intros l H Hi acc.
  - cbn in H. injection H as <-. destruct Hi.
  - cbn [map] in H. apply ocat_cons_ok in H. destruct H as (a & b & Ha & Hb & ->).
    unfold mm_struct_list. cbn [fold_left]. apply in_app_or in Hi. destruct Hi as [Hi|Hi].
    + eapply within_mono; [eapply Hone; eauto|]. apply (mm_struct_list_mono filter (addr_sem path) t).
    + apply (IHt b Hb Hi).
Qed.
