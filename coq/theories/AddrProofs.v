(* AddrProofs.v — proofs about Addr.v (C12, C13). *)
From Coq Require Import ZArith List Bool String Lia ZifyBool.
From DD Require Import Common Mir GenErr Addr.
Import ListNotations.
Open Scope Z_scope.
