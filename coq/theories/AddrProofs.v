(* AddrProofs.v — proofs about Addr.v (C12, C13). *)
From Coq Require Import ZArith List Bool String Lia ZifyBool Arith.
From DD Require Import Common Mir GenErr Addr.
Import ListNotations.
Local Open Scope Z_scope.
Local Open Scope list_scope.

(* ================================================================================================ *)
(** * 0. Utilities *)

Arguments leaf_instances : simpl never.
Arguments zrange : simpl never.
Arguments rep_count : simpl never.
Arguments rep_stride : simpl never.
Arguments rep_is : simpl never.

(* induction principle for the nested object tree *)
Fixpoint object_ind' (P : object -> Prop)
  (Hblock : forall c n off rep objs, Forall P objs -> P (OBlock c n off rep objs))
  (Hreg : forall r, P (ORegister r)) (Hcmd : forall c, P (OCommand c)) (Hbuf : forall b, P (OBuffer b))
  (Href : forall c n ov, P (ORef c n ov)) (o : object) : P o :=
  match o with
  | OBlock c n off rep objs =>
      Hblock c n off rep objs
        ((fix go (l : list object) : Forall P l :=
            match l with
            | [] => Forall_nil P
            | x :: t => Forall_cons x (object_ind' P Hblock Hreg Hcmd Hbuf Href x) (go t)
            end) objs)
  | ORegister r => Hreg r
  | OCommand c => Hcmd c
  | OBuffer b => Hbuf b
  | ORef c n ov => Href c n ov
  end.

Lemma find_some_some {A B} (f : A -> option B) l b :
  find_some f l = Some b -> exists a, In a l /\ f a = Some b.
Proof.
  induction l as [|a t IH]; cbn; [discriminate|].
  destruct (f a) eqn:E.
  - intros H; inversion H; subst. exists a; auto.
  - intros H. destruct (IH H) as (x & Hx & Hf). exists x; auto.
Qed.

Lemma zrange_In n i : In i (zrange n) <-> 0 <= i < n.
Proof.
  unfold zrange. rewrite in_map_iff. split.
  - intros (k & <- & Hk). apply in_seq in Hk. lia.
  - intros H. exists (Z.to_nat i). split; [lia|]. apply in_seq. lia.
Qed.

Lemma zrange_1 : zrange 1 = [0].
Proof. reflexivity. Qed.

Lemma ocat_ok {A} (l : list (outcome (list A))) r :
  ocat l = Ok r -> exists rs, Forall2 (fun x y => x = Ok y) l rs /\ r = List.concat rs.
Proof.
  revert r; induction l as [|x t IH]; cbn; intros r H.
  - inversion H; subst. exists []; split; [constructor|reflexivity].
  - destruct x as [a|k]; [|discriminate].
    destruct (ocat t) as [b|k] eqn:E; [|discriminate].
    inversion H; subst. destruct (IH b eq_refl) as (rs & HF & ->).
    exists (a :: rs). split; [constructor; auto|reflexivity].
Qed.

Lemma ocat_map_ok {A B} (f : A -> outcome (list B)) l r :
  ocat (map f l) = Ok r -> exists rs, Forall2 (fun x y => f x = Ok y) l rs /\ r = List.concat rs.
Proof.
  intros H. apply ocat_ok in H. destruct H as (rs & HF & ->). exists rs. split; [|reflexivity].
  clear -HF. revert rs HF. induction l as [|a t IH]; intros rs HF; inversion HF; subst; constructor; auto.
Qed.

Lemma ocat_cons_ok {A} (x : outcome (list A)) t r :
  ocat (x :: t) = Ok r -> exists a b, x = Ok a /\ ocat t = Ok b /\ r = (a ++ b)%list.
Proof.
  cbn. destruct x as [a|k]; [|discriminate]. destruct (ocat t) as [b|k]; [|discriminate].
  intros H; inversion H; subst. eauto.
Qed.

Lemma Forall2_in_r {A B} (R : A -> B -> Prop) l l' (H : Forall2 R l l') y :
  In y l' -> exists x, In x l /\ R x y.
Proof.
  induction H as [|a b l l' Hab HF IH]; cbn; [tauto|].
  intros [<-|Hy]; [exists a; auto|]. destruct (IH Hy) as (x & Hx & Hr). exists x; auto.
Qed.

Lemma Forall2_in_l {A B} (R : A -> B -> Prop) l l' (H : Forall2 R l l') x :
  In x l -> exists y, In y l' /\ R x y.
Proof.
  induction H as [|a b l l' Hab HF IH]; cbn; [tauto|].
  intros [<-|Hx]; [exists b; auto|]. destruct (IH Hx) as (y & Hy & Hr). exists y; auto.
Qed.

Lemma first_error_none {A} (f : A -> option gen_error) l :
  first_error (map f l) = None <-> Forall (fun x => f x = None) l.
Proof.
  induction l as [|a t IH]; cbn.
  - split; auto.
  - destruct (f a) eqn:E.
    + split; [discriminate|]. intros H. inversion H; subst. congruence.
    + rewrite IH. split; intros H; [constructor; auto|inversion H; auto].
Qed.

Lemma first_error_some_in {A} (f : A -> option gen_error) l e :
  first_error (map f l) = Some e -> exists x, In x l /\ f x = Some e.
Proof.
  induction l as [|a t IH]; cbn; [discriminate|].
  destruct (f a) eqn:E.
  - intros H; inversion H; subst. exists a; auto.
  - intros H. destruct (IH H) as (x & Hin & Hx). exists x; auto.
Qed.

(* ---- the pre-order object list without depths ---- *)

Fixpoint flat (o : object) : list object :=
  o :: match o with
       | OBlock _ _ _ _ objs => flat_map flat objs
       | _ => []
       end.

Lemma flatten_depth_flat o : forall d, map fst (flatten_depth d o) = flat o.
Proof.
  induction o using object_ind'; intros d; cbn; try reflexivity.
  f_equal. induction H as [|x t Hx Ht IH]; cbn; [reflexivity|].
  rewrite map_app, Hx, IH. reflexivity.
Qed.

Lemma preorder_objects_flat objs : preorder_objects objs = flat_map flat objs.
Proof.
  unfold preorder_objects, preorder. induction objs as [|o t IH]; cbn; [reflexivity|].
  rewrite map_app, flatten_depth_flat, IH. reflexivity.
Qed.

Lemma flat_self o : In o (flat o).
Proof. destruct o; cbn; auto. Qed.

Lemma flat_trans b : forall a x, In a (flat b) -> In x (flat a) -> In x (flat b).
Proof.
  induction b using object_ind'; intros a x Ha Hx; cbn in Ha;
    try (destruct Ha as [<-|[]]; assumption).
  destruct Ha as [<-|Ha]; [assumption|].
  cbn. right. apply in_flat_map in Ha. destruct Ha as (y & Hy & Hay).
  apply in_flat_map. exists y. split; [assumption|].
  rewrite Forall_forall in H. eapply H; eauto.
Qed.

Lemma flat_objs_trans objs a x : In a (flat_map flat objs) -> In x (flat a) -> In x (flat_map flat objs).
Proof.
  intros Ha Hx. apply in_flat_map in Ha. destruct Ha as (b & Hb & Hab).
  apply in_flat_map. exists b. split; [assumption|]. eapply flat_trans; eauto.
Qed.

Lemma flat_children objs c n off rep ch x :
  In (OBlock c n off rep ch) (flat_map flat objs) -> In x ch -> In x (flat_map flat objs).
Proof.
  intros Hb Hx. eapply flat_objs_trans; [exact Hb|]. cbn. right.
  apply in_flat_map. exists x. split; [assumption|apply flat_self].
Qed.

Lemma in_objs_flat objs x : In x objs -> In x (flat_map flat objs).
Proof. intros H. apply in_flat_map. exists x. split; [assumption|apply flat_self]. Qed.

Lemma search_obj_in name o : forall t, search_obj name o = Some t -> In t (flat o) /\ object_name t = name.
Proof.
  induction o using object_ind'; intros t; cbn;
    try (destruct (String.eqb _ name) eqn:E; [|discriminate]; intros Ht; inversion Ht; subst;
         apply String.eqb_eq in E; split; [left; reflexivity|exact E]).
  destruct (String.eqb n name) eqn:E.
  - intros Ht; inversion Ht; subst. apply String.eqb_eq in E. split; [left; reflexivity|exact E].
  - intros Ht. apply find_some_some in Ht. destruct Ht as (a & Ha & Hs).
    rewrite Forall_forall in H. destruct (H a Ha t Hs) as [Hin Hn]. split; [|exact Hn].
    right. apply in_flat_map. exists a; auto.
Qed.

Lemma search_object_in name objs t :
  search_object name objs = Some t -> In t (flat_map flat objs) /\ object_name t = name.
Proof.
  unfold search_object. intros H. apply find_some_some in H. destruct H as (a & Ha & Hs).
  apply search_obj_in in Hs. destruct Hs as [Hin Hn]. split; [|exact Hn].
  apply in_flat_map. exists a; auto.
Qed.

(* ================================================================================================ *)
(** * 1. The pairwise loop (C12) *)

Definition conflict_pair (l : list claimed) : Prop :=
  exists i j a b, (i < j)%nat /\ nth_error l i = Some a /\ nth_error l j = Some b /\ conflict a b = true.

Lemma first_conflict_none a rest :
  first_conflict a rest = None <-> Forall (fun b => conflict a b = false) rest.
Proof.
  induction rest as [|b t IH]; cbn.
  - split; auto.
  - destruct (conflict a b) eqn:E.
    + split; [discriminate|]. intros H; inversion H; congruence.
    + rewrite IH. split; intros H; [constructor; auto|inversion H; auto].
Qed.

Lemma first_conflict_some a rest e :
  first_conflict a rest = Some e ->
  exists j b, nth_error rest j = Some b /\ conflict a b = true /\ e = overlap_error a b /\
              (forall j' b', (j' < j)%nat -> nth_error rest j' = Some b' -> conflict a b' = false).
Proof.
  induction rest as [|b t IH]; cbn; [discriminate|].
  destruct (conflict a b) eqn:E.
  - intros H; inversion H; subst. exists O, b. repeat split; auto. intros j' b' Hlt; lia.
  - intros H. destruct (IH H) as (j & b0 & Hn & Hc & He & Hmin).
    exists (S j), b0. repeat split; auto.
    intros j' b' Hlt Hn'. destruct j' as [|j']; cbn in Hn'.
    + inversion Hn'; subst; assumption.
    + eapply Hmin; [|exact Hn']. lia.
Qed.

Lemma conflict_pair_cons a t :
  conflict_pair (a :: t) <-> (exists b, In b t /\ conflict a b = true) \/ conflict_pair t.
Proof.
  split.
  - intros (i & j & x & y & Hlt & Hi & Hj & Hc).
    destruct j as [|j]; [lia|]. cbn in Hj.
    destruct i as [|i]; cbn in Hi.
    + inversion Hi; subst. left. exists y. split; [eapply nth_error_In; eauto|assumption].
    + right. exists i, j, x, y. repeat split; auto. lia.
  - intros [(b & Hb & Hc)|(i & j & x & y & Hlt & Hi & Hj & Hc)].
    + apply In_nth_error in Hb. destruct Hb as [j Hj]. exists O, (S j), a, b. repeat split; auto. lia.
    + exists (S i), (S j), x, y. repeat split; auto. lia.
Qed.

(* the i < j double loop rejects <-> some pair of claimed entries conflicts *)
Lemma pairwise_complete l : pairwise_check l <> None <-> conflict_pair l.
Proof.
  induction l as [|a t IH]; cbn.
  - split; [congruence|]. intros (i & j & x & y & _ & Hi & _). destruct i; discriminate.
  - rewrite conflict_pair_cons. destruct (first_conflict a t) eqn:E.
    + split; [|congruence]. intros _. left.
      apply first_conflict_some in E. destruct E as (j & b & Hn & Hc & _). exists b. split; [eapply nth_error_In; eauto|auto].
    + rewrite IH. split; [auto|]. intros [(b & Hb & Hc)|H]; [|assumption].
      apply first_conflict_none in E. rewrite Forall_forall in E. rewrite (E b Hb) in Hc. discriminate.
Qed.

(* the reported error is built from the FIRST conflicting pair in (i, j) lexicographic order *)
Lemma pairwise_error l e :
  pairwise_check l = Some e ->
  exists i j a b, (i < j)%nat /\ nth_error l i = Some a /\ nth_error l j = Some b /\ conflict a b = true /\
    e = overlap_error a b /\
    (forall i' j' a' b', (i' < j')%nat -> nth_error l i' = Some a' -> nth_error l j' = Some b' ->
       (i' < i)%nat \/ (i' = i /\ (j' < j)%nat) -> conflict a' b' = false).
Proof.
  induction l as [|a t IH]; cbn; [discriminate|].
  destruct (first_conflict a t) eqn:E.
  - intros H; inversion H; subst. apply first_conflict_some in E.
    destruct E as (j & b & Hn & Hc & He & Hmin).
    exists O, (S j), a, b. repeat split; auto; [lia|].
    intros i' j' a' b' Hlt Hi Hj [Hlt'|[-> Hlt']]; [lia|].
    cbn in Hi. inversion Hi; subst. destruct j' as [|j']; [lia|]. cbn in Hj.
    eapply Hmin; [|exact Hj]. lia.
  - intros H. destruct (IH H) as (i & j & x & y & Hlt & Hi & Hj & Hc & He & Hmin).
    exists (S i), (S j), x, y. repeat split; auto; [lia|].
    intros i' j' a' b' Hlt' Hi' Hj' Hord.
    destruct j' as [|j']; [lia|]. cbn in Hj'.
    destruct i' as [|i']; cbn in Hi'.
    + inversion Hi'; subst. apply first_conflict_none in E. rewrite Forall_forall in E.
      apply E. eapply nth_error_In; eauto.
    + eapply Hmin; [| exact Hi' | exact Hj' |]; lia.
Qed.

Lemma akind_eqb_eq a b : akind_eqb a b = true <-> a = b.
Proof. destruct a, b; cbn; split; congruence. Qed.

Lemma conflict_spec a b :
  conflict a b = true <-> c_address a = c_address b /\ c_kind a = c_kind b /\ ~ (c_allow a = true /\ c_allow b = true).
Proof.
  unfold conflict. rewrite !andb_true_iff, Z.eqb_eq, akind_eqb_eq, negb_true_iff, andb_false_iff.
  split.
  - intros [[H1 H2] H3]. repeat split; auto. intros [Ha Hb]. destruct H3; congruence.
  - intros (H1 & H2 & H3). repeat split; auto.
    destruct (c_allow a); [|auto]. destruct (c_allow b); [|auto]. exfalso; apply H3; auto.
Qed.

Lemma kinds_never_conflict a b : c_kind a <> c_kind b -> conflict a b = false.
Proof.
  intros H. destruct (conflict a b) eqn:E; [|reflexivity].
  apply conflict_spec in E. destruct E as (_ & Hk & _). contradiction.
Qed.

(* ================================================================================================ *)
(** * 2. address_types_specified (C13_missing_type_rejected) *)

Definition object_kind (o : object) : option akind :=
  match o with
  | ORegister _ => Some KRegister | OCommand _ => Some KCommand | OBuffer _ => Some KBuffer
  | _ => None
  end.

Lemma missing_type_rejected d o k :
  In o (preorder_objects (d_objects d)) -> object_kind o = Some k ->
  address_type_of (d_config d) k = None ->
  exists e, address_types_specified d = Some e /\ e_kind e = "no_address_type"%string.
Proof.
  intros Hin Hk Hty. unfold address_types_specified.
  destruct (first_error _) eqn:E.
  - apply first_error_some_in in E. destruct E as (x & _ & Hx). exists g. split; [reflexivity|].
    unfold specified_check in Hx.
    destruct x; try discriminate;
      [destruct (g_register_address_type _)|destruct (g_command_address_type _)|destruct (g_buffer_address_type _)];
      try discriminate; inversion Hx; reflexivity.
  - exfalso. rewrite first_error_none, Forall_forall in E. specialize (E o Hin).
    destruct o; cbn in Hk; try discriminate; inversion Hk; subst; cbn in Hty; cbn in E; rewrite Hty in E; discriminate.
Qed.

Lemma leaf_instances_in bl path tags lf i :
  In i (leaf_instances bl path tags lf) ->
  exists k, 0 <= k < rep_count (lf_rep lf) /\
    i = {| i_kind := lf_kind lf; i_blocks := bl; i_name := lf_name lf;
           i_index := if rep_is (lf_rep lf) then Some k else None;
           i_path := path ++ [{| s_addr := lf_addr lf; s_rep := lf_rep lf; s_idx := k |}];
           i_allow := lf_allow lf; i_tags := tags ++ lf_tags lf |}.
Proof.
  unfold leaf_instances. intros H. apply in_map_iff in H. destruct H as (k & <- & Hk).
  apply zrange_In in Hk. exists k. split; [assumption|reflexivity].
Qed.

(* every instance of the spec comes from a register / command / buffer object of the tree *)
Lemma instance_has_object dev : forall fuel objs bl path tags l i,
  (forall x, In x objs -> In x (flat_map flat dev)) ->
  instances_objs fuel dev objs bl path tags = Ok l -> In i l ->
  exists o, In o (flat_map flat dev) /\ object_kind o = Some (i_kind i).
Proof.
  induction fuel as [|f IH]; intros objs bl path tags l i Hsub H Hin; cbn in H; [discriminate|].
  apply ocat_map_ok in H. destruct H as (rs & HF & ->).
  apply in_concat in Hin. destruct Hin as (r & Hr & Hir).
  assert (Hblock : forall name off rep ch tg r0,
            (forall x, In x ch -> In x (flat_map flat dev)) ->
            ocat (map (fun i0 => instances_objs f dev ch (bl ++ [(name, i0)])
                                   (path ++ [{| s_addr := off; s_rep := rep; s_idx := i0 |}])
                                   (tg ++ opt_tag (rep_is rep) TRepBlock)) (zrange (rep_count rep))) = Ok r0 ->
            In i r0 -> exists o, In o (flat_map flat dev) /\ object_kind o = Some (i_kind i)).
  { intros name off rep ch tg r0 Hch Hb Hi0. apply ocat_map_ok in Hb. destruct Hb as (rs0 & HF0 & ->).
    apply in_concat in Hi0. destruct Hi0 as (r1 & Hr1 & Hi1).
    destruct (Forall2_in_r _ _ _ HF0 _ Hr1) as (i0 & _ & Hcall).
    eapply IH; eauto. }
  destruct (Forall2_in_r _ _ _ HF _ Hr) as (o & Ho & Hcall).
  destruct o as [c n off rep ch|rg|cm|bf|c n ov].
  - cbn beta iota in Hcall. eapply Hblock; [|exact Hcall|exact Hir].
    intros x Hx. eapply flat_children; [apply Hsub; exact Ho|exact Hx].
  - injection Hcall as <-. apply leaf_instances_in in Hir. destruct Hir as (k & _ & ->).
    exists (ORegister rg). split; [apply Hsub; assumption|reflexivity].
  - injection Hcall as <-. apply leaf_instances_in in Hir. destruct Hir as (k & _ & ->).
    exists (OCommand cm). split; [apply Hsub; assumption|reflexivity].
  - injection Hcall as <-. apply leaf_instances_in in Hir. destruct Hir as (k & _ & ->).
    exists (OBuffer bf). split; [apply Hsub; assumption|reflexivity].
  - destruct ov as [tgt off rep|tgt acc addr allow reset rep|tgt addr allow rep].
    + destruct (search_object tgt dev) as [t|] eqn:Es; [|discriminate].
      destruct t; try discriminate. apply search_object_in in Es. destruct Es as [Es _].
      eapply Hblock; [|exact Hcall|exact Hir]. intros x Hx. eapply flat_children; [exact Es|exact Hx].
    + destruct (search_object tgt dev) as [t|] eqn:Es; [|discriminate].
      destruct t; try discriminate. apply search_object_in in Es. destruct Es as [Es _].
      injection Hcall as <-. apply leaf_instances_in in Hir. destruct Hir as (k & _ & ->).
      exists (ORegister r0). split; [assumption|reflexivity].
    + destruct (search_object tgt dev) as [t|] eqn:Es; [|discriminate].
      destruct t; try discriminate. apply search_object_in in Es. destruct Es as [Es _].
      injection Hcall as <-. apply leaf_instances_in in Hir. destruct Hir as (k & _ & ->).
      exists (OCommand c0). split; [assumption|reflexivity].
Qed.

(* ================================================================================================ *)
(** * 3. Intervals *)

Definition within (acc : Z * Z) (z : Z) : Prop := fst acc <= z <= snd acc.
Definition le_acc (a b : Z * Z) : Prop := fst b <= fst a /\ snd a <= snd b.

Lemma le_acc_refl a : le_acc a a.
Proof. unfold le_acc; lia. Qed.
Lemma le_acc_trans a b c : le_acc a b -> le_acc b c -> le_acc a c.
Proof. unfold le_acc; lia. Qed.
Lemma within_mono a b z : within a z -> le_acc a b -> within b z.
Proof. unfold within, le_acc; lia. Qed.
Lemma Forall_within_mono a b l : Forall (within a) l -> le_acc a b -> Forall (within b) l.
Proof. intros H Hle. eapply Forall_impl; [|exact H]. intros z Hz. eapply within_mono; eauto. Qed.

(* ================================================================================================ *)
(** * 4. Tags and the shape of [instances_objs] *)

(* tags *)
Definition clean (ts : list tag) : Prop := forall t, In t ts -> t = TOwnFlag.

Lemma tag_eqb_eq a b : tag_eqb a b = true <-> a = b.
Proof. destruct a, b; cbn; split; congruence. Qed.

Lemma untagged_clean i : untagged i = true <-> clean (i_tags i).
Proof.
  unfold untagged, c13_tags, clean. generalize (i_tags i) as ts.
  induction ts as [|t ts IH]; cbn.
  - split; [tauto|reflexivity].
  - destruct (tag_eqb t TOwnFlag) eqn:E; cbn.
    + rewrite IH. apply tag_eqb_eq in E. subst. split; [intros H x [<-|Hx]; auto|intros H x Hx; apply H; auto].
    + split; [discriminate|]. intros H. specialize (H t (or_introl eq_refl)). apply tag_eqb_eq in H. congruence.
Qed.

Lemma clean_app a b : clean (a ++ b) <-> clean a /\ clean b.
Proof.
  unfold clean. split.
  - intros H; split; intros t Ht; apply H; apply in_or_app; auto.
  - intros [Ha Hb] t Ht. apply in_app_or in Ht. destruct Ht; auto.
Qed.

Lemma clean_opt_tag b t : t <> TOwnFlag -> clean (opt_tag b t) -> b = false.
Proof. destruct b; [|reflexivity]. intros Hne H. exfalso. apply Hne. apply H. left. reflexivity. Qed.

(* one object of instances_objs, with the recursive calls abstracted *)
Definition block_inst (rec : list object -> list (string * Z) -> list step -> list tag -> outcome (list instance))
           (bl : list (string * Z)) (path : list step) (name : string) (off : Z) (rep : option repeat)
           (children : list object) (tags' : list tag) : outcome (list instance) :=
  ocat (map (fun i => rec children (bl ++ [(name, i)])
                        (path ++ [{| s_addr := off; s_rep := rep; s_idx := i |}])
                        (tags' ++ opt_tag (rep_is rep) TRepBlock))
            (zrange (rep_count rep))).

Definition inst_one (rec : list object -> list (string * Z) -> list step -> list tag -> outcome (list instance))
           (dev : list object) (bl : list (string * Z)) (path : list step) (tags : list tag) (o : object)
  : outcome (list instance) :=
  match o with
  | ORegister r =>
      Ok (leaf_instances bl path tags
            {| lf_kind := KRegister; lf_name := rg_name r; lf_addr := rg_address r; lf_rep := rg_repeat r;
               lf_allow := rg_allow_address_overlap r; lf_tags := [] |})
  | OCommand c =>
      Ok (leaf_instances bl path tags
            {| lf_kind := KCommand; lf_name := cm_name c; lf_addr := cm_address c; lf_rep := cm_repeat c;
               lf_allow := cm_allow_address_overlap c; lf_tags := [] |})
  | OBuffer b =>
      Ok (leaf_instances bl path tags
            {| lf_kind := KBuffer; lf_name := bf_name b; lf_addr := bf_address b; lf_rep := None;
               lf_allow := false; lf_tags := [] |})
  | OBlock _ name off rep children => block_inst rec bl path name off rep children tags
  | ORef _ name (OvRegister tgt _ addr allow _ rep) =>
      match search_object tgt dev with
      | Some (ORegister r) =>
          Ok (leaf_instances bl path tags
                {| lf_kind := KRegister; lf_name := name; lf_addr := or_else addr (rg_address r);
                   lf_rep := or_else_opt rep (rg_repeat r);
                   lf_allow := rg_allow_address_overlap r || allow;
                   lf_tags := opt_tag (is_none addr) TRefNoAddr
                              ++ opt_tag (is_none rep && rep_is (rg_repeat r)) TRefKeepsRepeat
                              ++ opt_tag allow TOwnFlag |})
      | _ => Fail AssertFail
      end
  | ORef _ name (OvCommand tgt addr allow rep) =>
      match search_object tgt dev with
      | Some (OCommand c) =>
          Ok (leaf_instances bl path tags
                {| lf_kind := KCommand; lf_name := name; lf_addr := or_else addr (cm_address c);
                   lf_rep := or_else_opt rep (cm_repeat c);
                   lf_allow := cm_allow_address_overlap c || allow;
                   lf_tags := opt_tag (is_none addr) TRefNoAddr
                              ++ opt_tag (is_none rep && rep_is (cm_repeat c)) TRefKeepsRepeat
                              ++ opt_tag allow TOwnFlag |})
      | _ => Fail AssertFail
      end
  | ORef _ _ (OvBlock tgt off rep) =>
      match search_object tgt dev with
      | Some (OBlock _ tname toff trep children) =>
          block_inst rec bl path tname (or_else off toff) (or_else_opt rep trep) children (tags ++ [TBlockRef])
      | _ => Fail AssertFail
      end
  end.

Lemma instances_objs_S f dev objs bl path tags :
  instances_objs (S f) dev objs bl path tags = ocat (map (inst_one (instances_objs f dev) dev bl path tags) objs).
Proof. reflexivity. Qed.

Lemma block_inst_in rec bl path name off rep ch tg r i :
  block_inst rec bl path name off rep ch tg = Ok r -> In i r ->
  exists k r1, 0 <= k < rep_count rep /\
    rec ch (bl ++ [(name, k)]) (path ++ [{| s_addr := off; s_rep := rep; s_idx := k |}])
        (tg ++ opt_tag (rep_is rep) TRepBlock) = Ok r1 /\ In i r1.
Proof.
  unfold block_inst. intros H Hi. apply ocat_map_ok in H. destruct H as (rs & HF & ->).
  apply in_concat in Hi. destruct Hi as (r1 & Hr1 & Hi).
  destruct (Forall2_in_r _ _ _ HF _ Hr1) as (k & Hk & Hcall). apply zrange_In in Hk.
  exists k, r1. auto.
Qed.

(* the context tags are a prefix of every instance's tags *)
Lemma tags_prefix dev : forall fuel objs bl path tags l i,
  instances_objs fuel dev objs bl path tags = Ok l -> In i l -> exists rest, i_tags i = (tags ++ rest)%list.
Proof.
  induction fuel as [|f IH]; intros objs bl path tags l i H Hi; [discriminate|].
  rewrite instances_objs_S in H. apply ocat_map_ok in H. destruct H as (rs & HF & ->).
  apply in_concat in Hi. destruct Hi as (r & Hr & Hi).
  destruct (Forall2_in_r _ _ _ HF _ Hr) as (o & Ho & Hcall).
  assert (Hblock : forall name off rep ch tg, block_inst (instances_objs f dev) bl path name off rep ch tg = Ok r ->
                     exists rest, i_tags i = (tg ++ rest)%list).
  { intros name off rep ch tg Hb. destruct (block_inst_in _ _ _ _ _ _ _ _ _ _ Hb Hi) as (k & r1 & _ & Hrec & Hi1).
    destruct (IH _ _ _ _ _ _ Hrec Hi1) as (rest & ->). rewrite <- app_assoc. eauto. }
  destruct o as [c n off rep ch|rg|cm|bf|c n ov]; cbn [inst_one] in Hcall.
  - eauto.
  - injection Hcall as <-. apply leaf_instances_in in Hi. destruct Hi as (k & _ & ->). cbn. eauto.
  - injection Hcall as <-. apply leaf_instances_in in Hi. destruct Hi as (k & _ & ->). cbn. eauto.
  - injection Hcall as <-. apply leaf_instances_in in Hi. destruct Hi as (k & _ & ->). cbn. eauto.
  - destruct ov as [tgt off rep|tgt acc addr allow reset rep|tgt addr allow rep];
      (destruct (search_object _ dev) as [t|]; [|discriminate]); destruct t; try discriminate.
    + destruct (Hblock _ _ _ _ _ Hcall) as (rest & ->). rewrite <- app_assoc. eauto.
    + injection Hcall as <-. apply leaf_instances_in in Hi. destruct Hi as (k & _ & ->). cbn. eauto.
    + injection Hcall as <-. apply leaf_instances_in in Hi. destruct Hi as (k & _ & ->). cbn. eauto.
Qed.

Lemma zsum_app a b : zsum (a ++ b) = zsum a + zsum b.
Proof. unfold zsum. induction a as [|x t IH]; cbn [app fold_right]; [reflexivity|]. rewrite IH. lia. Qed.

Lemma addr_sem_app p s : addr_sem (p ++ [s]) = addr_sem p + step_sem s.
Proof. unfold addr_sem. rewrite map_app, zsum_app. unfold zsum. cbn [map fold_right]. lia. Qed.

(* ================================================================================================ *)
(** * 5. find_min_max_addresses (the repaired walk) bounds every instance *)

Definition filter_blocks (filter : object -> bool) : Prop :=
  forall c n off rep objs, filter (OBlock c n off rep objs) = true.
Definition filter_block_refs (filter : object -> bool) : Prop :=
  forall c n t off rep, filter (ORef c n (OvBlock t off rep)) = true.

(* a filter at least as permissive as the walk of the instance's kind *)
Definition filter_covers (filter : object -> bool) (k : akind) : Prop :=
  forall o, filter_kind k o = true -> filter o = true.

Lemma filter_all_blocks : filter_blocks filter_all.
Proof. intros c n off rep objs; reflexivity. Qed.
Lemma filter_all_block_refs : filter_block_refs filter_all.
Proof. intros c n t off rep; reflexivity. Qed.
Lemma filter_kind_blocks k : filter_blocks (filter_kind k).
Proof. intros c n off rep objs; destruct k; reflexivity. Qed.
Lemma filter_covers_kind k : filter_covers (filter_kind k) k.
Proof. intros o H; exact H. Qed.
Lemma filter_covers_all k : filter_covers filter_all k.
Proof. intros o H; reflexivity. Qed.

Lemma walk_objs_S f dev filter objs lo hi acc :
  walk_objs (S f) dev filter objs lo hi acc = walk_list (walk_one (walk_objs f dev filter) dev filter lo hi) objs acc.
Proof. reflexivity. Qed.

Lemma widen_mono acc mn mx : le_acc acc (widen acc mn mx).
Proof. unfold le_acc, widen; cbn [fst snd]; lia. Qed.

Lemma widen_within acc mn mx z : mn <= z <= mx -> within (widen acc mn mx) z.
Proof. unfold within, widen; cbn [fst snd]; lia. Qed.

(* the own interval of an object: [lo, hi] + address + [min(0, last), max(0, last)] *)
Definition own_lo (lo a : Z) (rep : option repeat) : Z := lo + a + Z.min (Z.max (rep_count rep - 1) 0 * rep_stride rep) 0.
Definition own_hi (hi a : Z) (rep : option repeat) : Z := hi + a + Z.max (Z.max (rep_count rep - 1) 0 * rep_stride rep) 0.

(* what a successful visit of one object did *)
Lemma walk_one_inv rec dev filter lo hi o acc r :
  walk_one rec dev filter lo hi o acc = Ok r ->
  match eff_address o (ref_target dev o) with
  | None => r = acc
  | Some a =>
      let rep := eff_repeat o (ref_target dev o) in
      let acc1 := if filter o then widen acc (own_lo lo a rep) (own_hi hi a rep) else acc in
      match walk_children o (ref_target dev o) with
      | None => r = acc1
      | Some ch => rec ch (own_lo lo a rep) (own_hi hi a rep) acc1 = Ok r
      end
  end.
Proof.
  unfold walk_one, own_lo, own_hi. destruct (eff_address o (ref_target dev o)) as [a|]; [|intros H; injection H as <-; reflexivity].
  cbn zeta. destruct (negb _); [discriminate|].
  destruct (walk_children o (ref_target dev o)) as [ch|]; [auto|]. intros H; injection H as <-; reflexivity.
Qed.

Definition rec_mono (rec : list object -> Z -> Z -> Z * Z -> outcome (Z * Z)) : Prop :=
  forall ch lo hi acc r, rec ch lo hi acc = Ok r -> le_acc acc r.

Lemma walk_one_mono rec dev filter lo hi o acc r :
  rec_mono rec -> walk_one rec dev filter lo hi o acc = Ok r -> le_acc acc r.
Proof.
  intros Hrec H. apply walk_one_inv in H.
  destruct (eff_address o (ref_target dev o)) as [a|]; [|subst; apply le_acc_refl].
  cbn zeta in H.
  assert (H1 : le_acc acc (if filter o then widen acc (own_lo lo a (eff_repeat o (ref_target dev o)))
                                                  (own_hi hi a (eff_repeat o (ref_target dev o))) else acc)).
  { destruct (filter o); [apply widen_mono|apply le_acc_refl]. }
  destruct (walk_children o (ref_target dev o)) as [ch|]; [|subst; exact H1].
  eapply le_acc_trans; [exact H1|]. eapply Hrec; exact H.
Qed.

Lemma walk_list_mono one :
  (forall o acc r, one o acc = Ok r -> le_acc acc r) ->
  forall l acc r, walk_list one l acc = Ok r -> le_acc acc r.
Proof.
  intros Hone. induction l as [|o t IH]; intros acc r H; cbn [walk_list] in H.
  - injection H as <-. apply le_acc_refl.
  - destruct (one o acc) as [a|k] eqn:E; [|discriminate].
    eapply le_acc_trans; [eapply Hone; exact E|apply IH; exact H].
Qed.

Lemma walk_objs_mono dev filter : forall f, rec_mono (walk_objs f dev filter).
Proof.
  induction f as [|f IH]; intros ch lo hi acc r H; [discriminate|].
  rewrite walk_objs_S in H. eapply walk_list_mono; [|exact H].
  intros o a r0 Ho. eapply walk_one_mono; [exact IH|exact Ho].
Qed.

(* more fuel never changes a result *)
Lemma walk_one_ext rec rec' dev filter lo hi o acc r :
  (forall ch l h a r0, rec ch l h a = Ok r0 -> rec' ch l h a = Ok r0) ->
  walk_one rec dev filter lo hi o acc = Ok r -> walk_one rec' dev filter lo hi o acc = Ok r.
Proof.
  intros Hext. unfold walk_one. destruct (eff_address o (ref_target dev o)); [|auto].
  cbn zeta. destruct (negb _); [discriminate|].
  destruct (walk_children o (ref_target dev o)); [apply Hext|auto].
Qed.

Lemma walk_objs_fuel_S dev filter : forall f objs lo hi acc r,
  walk_objs f dev filter objs lo hi acc = Ok r -> walk_objs (S f) dev filter objs lo hi acc = Ok r.
Proof.
  induction f as [|f IH]; intros objs lo hi acc r H; [discriminate|].
  rewrite walk_objs_S in *. revert acc H. induction objs as [|o t IHt]; intros acc H; cbn [walk_list] in *; [exact H|].
  destruct (walk_one (walk_objs f dev filter) dev filter lo hi o acc) as [a|k] eqn:E; [|discriminate].
  rewrite (walk_one_ext _ (walk_objs (S f) dev filter) _ _ _ _ _ _ _ IH E). apply IHt. exact H.
Qed.

Lemma walk_objs_fuel_le dev filter f f' objs lo hi acc r :
  (f <= f')%nat -> walk_objs f dev filter objs lo hi acc = Ok r -> walk_objs f' dev filter objs lo hi acc = Ok r.
Proof. intros Hle H. induction Hle as [|m Hle IH]; [exact H|]. apply walk_objs_fuel_S. exact IH. Qed.

Lemma internal_type_at_fuel_le f f' d it :
  (f <= f')%nat -> internal_type_at f d = Ok it -> internal_type_at f' d = Ok it.
Proof.
  intros Hle. unfold internal_type_at, internal_range_at, find_min_max_addresses.
  destruct (walk_objs f (d_objects d) filter_all (d_objects d) 0 0 (0, 0)) as [[mn mx]|k] eqn:E; [|discriminate].
  rewrite (walk_objs_fuel_le _ _ _ _ _ _ _ _ _ Hle E). auto.
Qed.

(* the walk's result contains 0 *)
Lemma walk_contains_zero fuel filter objs mn mx :
  find_min_max_addresses fuel filter objs = Ok (mn, mx) -> mn <= 0 <= mx.
Proof.
  unfold find_min_max_addresses. intros H. apply walk_objs_mono in H. unfold le_acc in H. cbn [fst snd] in H. lia.
Qed.

(* an instance address of an object lies in the object's own interval *)
Lemma own_interval lo hi base a rep k :
  lo <= base <= hi -> 0 <= k < rep_count rep ->
  own_lo lo a rep <= base + (a + k * rep_stride rep) <= own_hi hi a rep.
Proof.
  intros Hb Hk. unfold own_lo, own_hi. set (c := rep_count rep) in *. set (s := rep_stride rep). clearbody c s.
  replace (Z.max (c - 1) 0) with (c - 1) by lia.
  assert (Hl : (0 <= k * s <= (c - 1) * s) \/ ((c - 1) * s <= k * s <= 0)).
  { destruct (Z_le_gt_dec 0 s); [left|right]; nia. }
  lia.
Qed.

(* so does its index-0 address, whatever the count *)
Lemma own_interval0 lo hi base a rep :
  lo <= base <= hi -> own_lo lo a rep <= base + a <= own_hi hi a rep.
Proof. intros Hb. unfold own_lo, own_hi. lia. Qed.

Definition idx_ok (s : step) : Prop := 0 <= s_idx s < rep_count (s_rep s).

(* THE KEY LEMMA.  Whatever [lo, hi] contains the address of the enclosing block instance, a successful walk of a
   list of objects ends with a range that contains the address of every instance the spec enumerates below that
   list whose kind the filter lets through — and, for a filter that lets block refs through too (|_| true), every
   intermediate value on the way: base + ADDR and the block instance address of every enclosing step. *)
Lemma walk_covers dev filter (Hfb : filter_blocks filter) : forall fi objs bl path tags l i,
  instances_objs fi dev objs bl path tags = Ok l -> In i l ->
  filter_covers filter (i_kind i) ->
  forall fw lo hi acc r,
    lo <= addr_sem path <= hi ->
    walk_objs fw dev filter objs lo hi acc = Ok r ->
    exists rest, i_path i = path ++ rest /\ Forall idx_ok rest /\
      within r (i_addr i) /\
      (filter_block_refs filter -> Forall (within r) (checkpoints (addr_sem path) rest)).
Proof.
  induction fi as [|f IH]; intros objs bl path tags l i H Hi Hcov fw lo hi acc r Hb Hw; [discriminate|].
  destruct fw as [|fw]; [discriminate|].
  rewrite instances_objs_S in H. rewrite walk_objs_S in Hw.
  set (base := addr_sem path) in *.
  (* one object *)
  assert (Hone : forall o a acc0 r0, inst_one (instances_objs f dev) dev bl path tags o = Ok a -> In i a ->
                   walk_one (walk_objs fw dev filter) dev filter lo hi o acc0 = Ok r0 ->
                   exists rest, i_path i = path ++ rest /\ Forall idx_ok rest /\
                     within r0 (i_addr i) /\
                     (filter_block_refs filter -> Forall (within r0) (checkpoints base rest))).
  { intros o a acc0 r0 Ho Hia Hwo. apply walk_one_inv in Hwo.
    (* a leaf of the spec: the walk sees the same address and repeat, nothing below *)
    assert (Hleaf : forall lf, In i (leaf_instances bl path tags lf) ->
              filter o = true ->
              eff_address o (ref_target dev o) = Some (lf_addr lf) ->
              eff_repeat o (ref_target dev o) = lf_rep lf ->
              walk_children o (ref_target dev o) = None ->
              exists rest, i_path i = path ++ rest /\ Forall idx_ok rest /\
                within r0 (i_addr i) /\
                (filter_block_refs filter -> Forall (within r0) (checkpoints base rest))).
    { intros lf Hin Hf Ha Hr Hc. rewrite Ha, Hc, Hr, Hf in Hwo. cbn zeta in Hwo. subst r0.
      apply leaf_instances_in in Hin. destruct Hin as (k & Hk & ->).
      eexists. split; [reflexivity|]. split; [constructor; [exact Hk|constructor]|].
      assert (Hfin : within (widen acc0 (own_lo lo (lf_addr lf) (lf_rep lf)) (own_hi hi (lf_addr lf) (lf_rep lf)))
                            (base + (lf_addr lf + k * rep_stride (lf_rep lf)))).
      { apply widen_within. apply own_interval; assumption. }
      split.
      - unfold i_addr. cbn [i_path]. rewrite addr_sem_app. unfold step_sem. cbn [s_addr s_idx s_rep]. exact Hfin.
      - intros _. cbn [checkpoints]. unfold step_sem. cbn [s_addr s_idx s_rep].
        constructor; [apply widen_within; apply own_interval0; assumption|]. constructor; [exact Hfin|constructor]. }
    (* a block of the spec (a block, or a block ref expanded at its place) *)
    assert (Hblock : forall name off rep ch tg,
              block_inst (instances_objs f dev) bl path name off rep ch tg = Ok a ->
              eff_address o (ref_target dev o) = Some off ->
              eff_repeat o (ref_target dev o) = rep ->
              walk_children o (ref_target dev o) = Some ch ->
              (filter_block_refs filter -> filter o = true) ->
              exists rest, i_path i = path ++ rest /\ Forall idx_ok rest /\
                within r0 (i_addr i) /\
                (filter_block_refs filter -> Forall (within r0) (checkpoints base rest))).
    { intros name off rep ch tg Hbi Ha Hr Hc Hf. rewrite Ha, Hc, Hr in Hwo. cbn zeta in Hwo.
      destruct (block_inst_in _ _ _ _ _ _ _ _ _ _ Hbi Hia) as (k & r1 & Hk & Hrec & Hi1).
      set (s := {| s_addr := off; s_rep := rep; s_idx := k |}) in *.
      assert (Hs : own_lo lo off rep <= addr_sem (path ++ [s]) <= own_hi hi off rep).
      { rewrite addr_sem_app. unfold step_sem, s. cbn [s_addr s_idx s_rep]. apply own_interval; assumption. }
      destruct (IH _ _ _ _ _ _ Hrec Hi1 Hcov _ _ _ _ _ Hs Hwo) as (rest & Hp & Hidx & Hfin & Hcp).
      exists (s :: rest). split; [rewrite Hp, <- app_assoc; reflexivity|].
      split; [constructor; [exact Hk|exact Hidx]|]. split; [exact Hfin|].
      intros Hbr. specialize (Hcp Hbr). rewrite addr_sem_app in Hcp. fold base in Hcp.
      cbn [checkpoints].
      assert (Hmono : le_acc (widen acc0 (own_lo lo off rep) (own_hi hi off rep)) r0).
      { rewrite (Hf Hbr) in Hwo. eapply walk_objs_mono; exact Hwo. }
      constructor.
      - eapply within_mono; [|exact Hmono]. apply widen_within. unfold s; cbn [s_addr]. apply own_interval0; assumption.
      - constructor; [|exact Hcp].
        eapply within_mono; [|exact Hmono]. apply widen_within. unfold step_sem, s. cbn [s_addr s_idx s_rep].
        apply own_interval; assumption. }
    destruct o as [c n off rep ch|rg|cm|bf|c n ov]; cbn [inst_one] in Ho.
    - eapply Hblock; [exact Ho|reflexivity|unfold eff_repeat, object_repeat; destruct rep; reflexivity|reflexivity|]. intros _. apply Hfb.
    - injection Ho as <-. eapply Hleaf; [exact Hia| |reflexivity|unfold eff_repeat, object_repeat, ref_target; destruct (rg_repeat rg); reflexivity|reflexivity].
      apply leaf_instances_in in Hia. destruct Hia as (k & _ & ->). apply Hcov. reflexivity.
    - injection Ho as <-. eapply Hleaf; [exact Hia| |reflexivity|unfold eff_repeat, object_repeat, ref_target; destruct (cm_repeat cm); reflexivity|reflexivity].
      apply leaf_instances_in in Hia. destruct Hia as (k & _ & ->). apply Hcov. reflexivity.
    - injection Ho as <-. eapply Hleaf; [exact Hia| |reflexivity|reflexivity|reflexivity].
      apply leaf_instances_in in Hia. destruct Hia as (k & _ & ->). apply Hcov. reflexivity.
    - destruct ov as [tgt off rep|tgt acc1 addr allow reset rep|tgt addr allow rep];
        (destruct (search_object tgt dev) as [t|] eqn:Es; [|discriminate]); destruct t; try discriminate.
      + eapply Hblock; [exact Ho| | | |].
        * cbn [ref_target override_target]. rewrite Es. destruct off; reflexivity.
        * cbn [ref_target override_target]. rewrite Es. destruct rep; reflexivity.
        * cbn [ref_target override_target]. rewrite Es. reflexivity.
        * intros Hbr. apply Hbr.
      + injection Ho as <-. eapply Hleaf; [exact Hia| | | |].
        * apply leaf_instances_in in Hia. destruct Hia as (k & _ & ->). apply Hcov. reflexivity.
        * cbn [ref_target override_target]. rewrite Es. destruct addr; reflexivity.
        * cbn [ref_target override_target]. rewrite Es. destruct rep; reflexivity.
        * cbn [ref_target override_target]. rewrite Es. reflexivity.
      + injection Ho as <-. eapply Hleaf; [exact Hia| | | |].
        * apply leaf_instances_in in Hia. destruct Hia as (k & _ & ->). apply Hcov. reflexivity.
        * cbn [ref_target override_target]. rewrite Es. destruct addr; reflexivity.
        * cbn [ref_target override_target]. rewrite Es. destruct rep; reflexivity.
        * cbn [ref_target override_target]. rewrite Es. reflexivity. }
  (* the list *)
  clear Hb. revert l H Hi acc Hw. induction objs as [|o t IHt]; intros l H Hi acc Hw.
  - cbn in H. injection H as <-. destruct Hi.
  - cbn [map] in H. apply ocat_cons_ok in H. destruct H as (a & b & Ha & Hb & ->).
    cbn [walk_list] in Hw. destruct (walk_one (walk_objs fw dev filter) dev filter lo hi o acc) as [a1|k] eqn:Eo; [|discriminate].
    apply in_app_or in Hi. destruct Hi as [Hi|Hi].
    + destruct (Hone o a acc a1 Ha Hi Eo) as (rest & Hp & Hidx & Hfin & Hcp).
      assert (Hm : le_acc a1 r).
      { eapply walk_list_mono; [|exact Hw]. intros o0 a0 r0 Ho0. eapply walk_one_mono; [apply walk_objs_mono|exact Ho0]. }
      exists rest. split; [exact Hp|]. split; [exact Hidx|]. split; [eapply within_mono; eauto|].
      intros Hbr. eapply Forall_within_mono; [apply Hcp; exact Hbr|exact Hm].
    + apply (IHt b Hb Hi a1 Hw).
Qed.

Lemma addr_sem_nil : addr_sem [] = 0.
Proof. reflexivity. Qed.

(* the min/max walk of a kind bounds every instance of that kind: ANY tree, ANY construct *)
Theorem walk_bounds_instances fuel fi objs k mn mx l i :
  find_min_max_addresses fuel (filter_kind k) objs = Ok (mn, mx) ->
  instances fi objs = Ok l -> In i l -> i_kind i = k -> mn <= i_addr i <= mx.
Proof.
  intros Hw H Hi Hk. subst k.
  destruct (walk_covers objs _ (filter_kind_blocks _) fi objs [] [] [] l i H Hi (filter_covers_kind _)
              fuel 0 0 (0, 0) (mn, mx)) as (rest & _ & _ & Hfin & _); [rewrite addr_sem_nil; lia|exact Hw|].
  exact Hfin.
Qed.

(* the walk with `|_| true` bounds every value on the way to every instance *)
Theorem walk_bounds_checkpoints fuel fi objs mn mx l i :
  find_min_max_addresses fuel filter_all objs = Ok (mn, mx) ->
  instances fi objs = Ok l -> In i l ->
  Forall idx_ok (i_path i) /\ Forall (fun z => mn <= z <= mx) (checkpoints 0 (i_path i)).
Proof.
  intros Hw H Hi.
  destruct (walk_covers objs _ filter_all_blocks fi objs [] [] [] l i H Hi (filter_covers_all _)
              fuel 0 0 (0, 0) (mn, mx)) as (rest & Hp & Hidx & _ & Hcp); [rewrite addr_sem_nil; lia|exact Hw|].
  cbn [app] in Hp. rewrite Hp. split; [exact Hidx|]. rewrite addr_sem_nil in Hcp. exact (Hcp filter_all_block_refs).
Qed.

(* the final address is the last checkpoint *)
Lemma checkpoints_final : forall path base, path <> [] -> In (base + addr_sem path) (checkpoints base path).
Proof.
  induction path as [|s t IH]; intros base Hne; [congruence|].
  cbn [checkpoints]. destruct t as [|s' t'].
  - right. left. unfold addr_sem, zsum. cbn [map fold_right]. lia.
  - right. right. replace (base + addr_sem (s :: s' :: t')) with (base + step_sem s + addr_sem (s' :: t')).
    + apply IH. discriminate.
    + unfold addr_sem, zsum. cbn [map fold_right]. lia.
Qed.

(* ---- the walk computes EXACTLY the minimum and the maximum of 0 and the [points] of its filter ---- *)

Definition own_points (base a : Z) (rep : option repeat) : list Z :=
  map (fun k => base + a + k * rep_stride rep) (zrange (Z.max (rep_count rep) 1)).

Definition pts_one (rec : list object -> Z -> outcome (list Z)) (dev : list object) (filter : object -> bool)
           (base : Z) (o : object) : outcome (list Z) :=
  let tgt := ref_target dev o in
  match eff_address o tgt with
  | None => Ok []
  | Some a =>
      let own := own_points base a (eff_repeat o tgt) in
      let listed := if filter o then own else [] in
      match walk_children o tgt with
      | None => Ok listed
      | Some ch => match ocat (map (rec ch) own) with
                   | Fail k => Fail k
                   | Ok below => Ok (listed ++ below)
                   end
      end
  end.

Lemma points_objs_S f dev filter objs base :
  points_objs (S f) dev filter objs base = ocat (map (pts_one (points_objs f dev filter) dev filter base) objs).
Proof. reflexivity. Qed.

Lemma own_points_in base a rep p :
  In p (own_points base a rep) <-> exists k, 0 <= k < Z.max (rep_count rep) 1 /\ p = base + a + k * rep_stride rep.
Proof.
  unfold own_points. rewrite in_map_iff. split.
  - intros (k & <- & Hk). apply zrange_In in Hk. eauto.
  - intros (k & Hk & ->). exists k. split; [reflexivity|apply zrange_In; exact Hk].
Qed.

Lemma own_interval_max lo hi base a rep k :
  lo <= base <= hi -> 0 <= k < Z.max (rep_count rep) 1 ->
  own_lo lo a rep <= base + a + k * rep_stride rep <= own_hi hi a rep.
Proof.
  intros Hb Hk. unfold own_lo, own_hi. set (c := rep_count rep) in *. set (s := rep_stride rep). clearbody c s.
  replace (Z.max (c - 1) 0) with (Z.max c 1 - 1) by lia. set (m := Z.max c 1) in *. clearbody m.
  assert (Hl : (0 <= k * s <= (m - 1) * s) \/ ((m - 1) * s <= k * s <= 0)).
  { destruct (Z_le_gt_dec 0 s); [left|right]; nia. }
  lia.
Qed.

(* the ends of an object's own interval are addresses of the object: at index 0 or at the last index *)
Lemma own_lo_in lo a rep : In (own_lo lo a rep) (own_points lo a rep).
Proof.
  apply own_points_in. unfold own_lo. set (c := rep_count rep). set (s := rep_stride rep).
  destruct (Z_lt_le_dec (Z.max (c - 1) 0 * s) 0) as [Hn|Hn].
  - exists (Z.max (c - 1) 0). split; [lia|]. rewrite Z.min_l by lia. reflexivity.
  - exists 0. split; [lia|]. rewrite Z.min_r by lia. lia.
Qed.

Lemma own_hi_in hi a rep : In (own_hi hi a rep) (own_points hi a rep).
Proof.
  apply own_points_in. unfold own_hi. set (c := rep_count rep). set (s := rep_stride rep).
  destruct (Z_lt_le_dec 0 (Z.max (c - 1) 0 * s)) as [Hn|Hn].
  - exists (Z.max (c - 1) 0). split; [lia|]. rewrite Z.max_l by lia. reflexivity.
  - exists 0. split; [lia|]. rewrite Z.max_r by lia. lia.
Qed.

(* every point lies in the walk's result *)
Lemma points_bounded dev filter : forall fp objs base ps p,
  points_objs fp dev filter objs base = Ok ps -> In p ps ->
  forall fw lo hi acc r, lo <= base <= hi -> walk_objs fw dev filter objs lo hi acc = Ok r -> within r p.
Proof.
  induction fp as [|f IH]; intros objs base ps p H Hp fw lo hi acc r Hb Hw; [discriminate|].
  destruct fw as [|fw]; [discriminate|].
  rewrite points_objs_S in H. rewrite walk_objs_S in Hw.
  assert (Hone : forall o a acc0 r0, pts_one (points_objs f dev filter) dev filter base o = Ok a -> In p a ->
                   walk_one (walk_objs fw dev filter) dev filter lo hi o acc0 = Ok r0 -> within r0 p).
  { intros o a acc0 r0 Ho Hpa Hwo. apply walk_one_inv in Hwo. unfold pts_one in Ho.
    destruct (eff_address o (ref_target dev o)) as [a0|]; [|injection Ho as <-; destruct Hpa].
    cbn zeta in Ho, Hwo. set (rep := eff_repeat o (ref_target dev o)) in *.
    assert (Hown : forall q, In q (own_points base a0 rep) -> own_lo lo a0 rep <= q <= own_hi hi a0 rep).
    { intros q Hq. apply own_points_in in Hq. destruct Hq as (k & Hk & ->). apply own_interval_max; assumption. }
    assert (Hlisted : In p (if filter o then own_points base a0 rep else []) ->
                      within (if filter o then widen acc0 (own_lo lo a0 rep) (own_hi hi a0 rep) else acc0) p).
    { destruct (filter o); [|intros []]. intros Hq. apply widen_within. apply Hown. exact Hq. }
    destruct (walk_children o (ref_target dev o)) as [ch|].
    - destruct (ocat (map (points_objs f dev filter ch) (own_points base a0 rep))) as [below|k] eqn:Eb; [|discriminate].
      injection Ho as <-. apply in_app_or in Hpa. destruct Hpa as [Hpa|Hpa].
      + eapply within_mono; [apply Hlisted; exact Hpa|]. eapply walk_objs_mono; exact Hwo.
      + apply ocat_map_ok in Eb. destruct Eb as (rs & HF & ->). apply in_concat in Hpa. destruct Hpa as (pl & Hpl & Hppl).
        destruct (Forall2_in_r _ _ _ HF _ Hpl) as (q & Hq & Hcall).
        eapply (IH _ _ _ _ Hcall Hppl); [apply Hown; exact Hq|exact Hwo].
    - injection Ho as <-. subst r0. apply Hlisted. exact Hpa. }
  clear Hb. revert ps H Hp acc Hw. induction objs as [|o t IHt]; intros ps H Hp acc Hw.
  - cbn in H. injection H as <-. destruct Hp.
  - cbn [map] in H. apply ocat_cons_ok in H. destruct H as (a & b & Ha & Hb & ->).
    cbn [walk_list] in Hw. destruct (walk_one (walk_objs fw dev filter) dev filter lo hi o acc) as [a1|k] eqn:Eo; [|discriminate].
    apply in_app_or in Hp. destruct Hp as [Hp|Hp].
    + eapply within_mono; [eapply Hone; eauto|].
      eapply walk_list_mono; [|exact Hw]. intros o0 a0 r0 Ho0. eapply walk_one_mono; [apply walk_objs_mono|exact Ho0].
    + apply (IHt b Hb Hp a1 Hw).
Qed.

(* the lower end of the result is the lower end it started from, or a point below the lowest enclosing instance *)
Lemma points_attained_lo dev filter : forall fw objs lo hi acc r,
  walk_objs fw dev filter objs lo hi acc = Ok r ->
  forall fp ps, points_objs fp dev filter objs lo = Ok ps -> fst r = fst acc \/ In (fst r) ps.
Proof.
  induction fw as [|fw IH]; intros objs lo hi acc r Hw fp ps H; [discriminate|].
  destruct fp as [|f]; [discriminate|].
  rewrite points_objs_S in H. rewrite walk_objs_S in Hw.
  assert (Hone : forall o a acc0 r0, pts_one (points_objs f dev filter) dev filter lo o = Ok a ->
                   walk_one (walk_objs fw dev filter) dev filter lo hi o acc0 = Ok r0 ->
                   fst r0 = fst acc0 \/ In (fst r0) a).
  { intros o a acc0 r0 Ho Hwo. apply walk_one_inv in Hwo. unfold pts_one in Ho.
    destruct (eff_address o (ref_target dev o)) as [a0|]; [|subst r0; left; reflexivity].
    cbn zeta in Ho, Hwo. set (rep := eff_repeat o (ref_target dev o)) in *.
    pose proof (own_lo_in lo a0 rep) as Hin.
    set (acc1 := if filter o then widen acc0 (own_lo lo a0 rep) (own_hi hi a0 rep) else acc0) in *.
    assert (Hacc1 : fst acc1 = fst acc0 \/ In (fst acc1) (if filter o then own_points lo a0 rep else [])).
    { unfold acc1. destruct (filter o); [|left; reflexivity]. unfold widen. cbn [fst].
      destruct (Z_le_gt_dec (fst acc0) (own_lo lo a0 rep)); [left; lia|right]. rewrite Z.min_r by lia. exact Hin. }
    destruct (walk_children o (ref_target dev o)) as [ch|].
    - destruct (ocat (map (points_objs f dev filter ch) (own_points lo a0 rep))) as [below|k] eqn:Eb; [|discriminate].
      injection Ho as <-. apply ocat_map_ok in Eb. destruct Eb as (rs & HF & ->).
      destruct (Forall2_in_l _ _ _ HF _ Hin) as (pl & Hpl & Hcall).
      destruct (IH _ _ _ _ _ Hwo _ _ Hcall) as [He|Hi].
      + rewrite He. destruct Hacc1 as [H0|H1]; [left; exact H0|right; apply in_or_app; left; exact H1].
      + right. apply in_or_app. right. apply in_concat. exists pl. split; assumption.
    - injection Ho as <-. subst r0. exact Hacc1. }
  revert ps H acc Hw. induction objs as [|o t IHt]; intros ps H acc Hw.
  - cbn [walk_list] in Hw. injection Hw as <-. left; reflexivity.
  - cbn [map] in H. apply ocat_cons_ok in H. destruct H as (a & b & Ha & Hb & ->).
    cbn [walk_list] in Hw. destruct (walk_one (walk_objs fw dev filter) dev filter lo hi o acc) as [a1|k] eqn:Eo; [|discriminate].
    destruct (IHt b Hb a1 Hw) as [He|Hi].
    + rewrite He. destruct (Hone o a acc a1 Ha Eo) as [H0|H1]; [left; exact H0|right; apply in_or_app; left; exact H1].
    + right. apply in_or_app. right. exact Hi.
Qed.

Lemma points_attained_hi dev filter : forall fw objs lo hi acc r,
  walk_objs fw dev filter objs lo hi acc = Ok r ->
  forall fp ps, points_objs fp dev filter objs hi = Ok ps -> snd r = snd acc \/ In (snd r) ps.
Proof.
  induction fw as [|fw IH]; intros objs lo hi acc r Hw fp ps H; [discriminate|].
  destruct fp as [|f]; [discriminate|].
  rewrite points_objs_S in H. rewrite walk_objs_S in Hw.
  assert (Hone : forall o a acc0 r0, pts_one (points_objs f dev filter) dev filter hi o = Ok a ->
                   walk_one (walk_objs fw dev filter) dev filter lo hi o acc0 = Ok r0 ->
                   snd r0 = snd acc0 \/ In (snd r0) a).
  { intros o a acc0 r0 Ho Hwo. apply walk_one_inv in Hwo. unfold pts_one in Ho.
    destruct (eff_address o (ref_target dev o)) as [a0|]; [|subst r0; left; reflexivity].
    cbn zeta in Ho, Hwo. set (rep := eff_repeat o (ref_target dev o)) in *.
    pose proof (own_hi_in hi a0 rep) as Hin.
    set (acc1 := if filter o then widen acc0 (own_lo lo a0 rep) (own_hi hi a0 rep) else acc0) in *.
    assert (Hacc1 : snd acc1 = snd acc0 \/ In (snd acc1) (if filter o then own_points hi a0 rep else [])).
    { unfold acc1. destruct (filter o); [|left; reflexivity]. unfold widen. cbn [snd].
      destruct (Z_le_gt_dec (own_hi hi a0 rep) (snd acc0)); [left; lia|right]. rewrite Z.max_r by lia. exact Hin. }
    destruct (walk_children o (ref_target dev o)) as [ch|].
    - destruct (ocat (map (points_objs f dev filter ch) (own_points hi a0 rep))) as [below|k] eqn:Eb; [|discriminate].
      injection Ho as <-. apply ocat_map_ok in Eb. destruct Eb as (rs & HF & ->).
      destruct (Forall2_in_l _ _ _ HF _ Hin) as (pl & Hpl & Hcall).
      destruct (IH _ _ _ _ _ Hwo _ _ Hcall) as [He|Hi].
      + rewrite He. destruct Hacc1 as [H0|H1]; [left; exact H0|right; apply in_or_app; left; exact H1].
      + right. apply in_or_app. right. apply in_concat. exists pl. split; assumption.
    - injection Ho as <-. subst r0. exact Hacc1. }
  revert ps H acc Hw. induction objs as [|o t IHt]; intros ps H acc Hw.
  - cbn [walk_list] in Hw. injection Hw as <-. left; reflexivity.
  - cbn [map] in H. apply ocat_cons_ok in H. destruct H as (a & b & Ha & Hb & ->).
    cbn [walk_list] in Hw. destruct (walk_one (walk_objs fw dev filter) dev filter lo hi o acc) as [a1|k] eqn:Eo; [|discriminate].
    destruct (IHt b Hb a1 Hw) as [He|Hi].
    + rewrite He. destruct (Hone o a acc a1 Ha Eo) as [H0|H1]; [left; exact H0|right; apply in_or_app; left; exact H1].
    + right. apply in_or_app. right. exact Hi.
Qed.

(* THE EXACT CHARACTERISATION: (min, max) of the walk = (minimum, maximum) of 0 and the points of the filter *)
Theorem walk_exact fuel fp filter objs mn mx ps :
  find_min_max_addresses fuel filter objs = Ok (mn, mx) -> points fp filter objs = Ok ps ->
  (forall p, In p (0 :: ps) -> mn <= p <= mx) /\ In mn (0 :: ps) /\ In mx (0 :: ps).
Proof.
  unfold find_min_max_addresses, points. intros Hw Hp. split; [|split].
  - intros p [<-|Hin].
    + apply walk_objs_mono in Hw. unfold le_acc in Hw. cbn [fst snd] in Hw. lia.
    + exact (points_bounded objs filter fp objs 0 ps p Hp Hin fuel 0 0 (0, 0) (mn, mx) ltac:(lia) Hw).
  - destruct (points_attained_lo objs filter fuel objs 0 0 (0, 0) (mn, mx) Hw fp ps Hp) as [H|H]; cbn [fst] in H.
    + left. symmetry. exact H.
    + right. exact H.
  - destruct (points_attained_hi objs filter fuel objs 0 0 (0, 0) (mn, mx) Hw fp ps Hp) as [H|H]; cbn [snd] in H.
    + left. symmetry. exact H.
    + right. exact H.
Qed.

(* the address of every instance the filter lets through is one of the points *)
Lemma instances_in_points dev filter : forall fi objs bl path tags l i,
  instances_objs fi dev objs bl path tags = Ok l -> In i l ->
  filter_covers filter (i_kind i) ->
  forall fp ps, points_objs fp dev filter objs (addr_sem path) = Ok ps -> In (i_addr i) ps.
Proof.
  induction fi as [|f IH]; intros objs bl path tags l i H Hi Hcov fp ps Hp; [discriminate|].
  destruct fp as [|fp]; [discriminate|].
  rewrite instances_objs_S in H. rewrite points_objs_S in Hp.
  set (base := addr_sem path) in *.
  assert (Hone : forall o a pa, inst_one (instances_objs f dev) dev bl path tags o = Ok a -> In i a ->
                   pts_one (points_objs fp dev filter) dev filter base o = Ok pa -> In (i_addr i) pa).
  { intros o a pa Ho Hia Hpo. unfold pts_one in Hpo.
    assert (Hleaf : forall lf, In i (leaf_instances bl path tags lf) ->
              filter o = true ->
              eff_address o (ref_target dev o) = Some (lf_addr lf) ->
              eff_repeat o (ref_target dev o) = lf_rep lf ->
              walk_children o (ref_target dev o) = None -> In (i_addr i) pa).
    { intros lf Hin Hf Ha Hr Hc. rewrite Ha, Hc, Hr, Hf in Hpo. cbn zeta in Hpo. injection Hpo as <-.
      apply leaf_instances_in in Hin. destruct Hin as (k & Hk & ->).
      unfold i_addr. cbn [i_path]. rewrite addr_sem_app. unfold step_sem. cbn [s_addr s_idx s_rep]. fold base.
      apply own_points_in. exists k. split; lia. }
    assert (Hblock : forall name off rep ch tg,
              block_inst (instances_objs f dev) bl path name off rep ch tg = Ok a ->
              eff_address o (ref_target dev o) = Some off ->
              eff_repeat o (ref_target dev o) = rep ->
              walk_children o (ref_target dev o) = Some ch -> In (i_addr i) pa).
    { intros name off rep ch tg Hbi Ha Hr Hc. rewrite Ha, Hc, Hr in Hpo. cbn zeta in Hpo.
      destruct (ocat (map (points_objs fp dev filter ch) (own_points base off rep))) as [below|k0] eqn:Eb; [|discriminate].
      injection Hpo as <-. apply in_or_app. right.
      destruct (block_inst_in _ _ _ _ _ _ _ _ _ _ Hbi Hia) as (k & r1 & Hk & Hrec & Hi1).
      apply ocat_map_ok in Eb. destruct Eb as (rs & HF & ->).
      assert (Hin : In (addr_sem (path ++ [{| s_addr := off; s_rep := rep; s_idx := k |}])) (own_points base off rep)).
      { rewrite addr_sem_app. unfold step_sem. cbn [s_addr s_idx s_rep]. fold base.
        apply own_points_in. exists k. split; lia. }
      destruct (Forall2_in_l _ _ _ HF _ Hin) as (pl & Hpl & Hcall).
      apply in_concat. exists pl. split; [exact Hpl|]. exact (IH _ _ _ _ _ _ Hrec Hi1 Hcov _ _ Hcall). }
    destruct o as [c n off rep ch|rg|cm|bf|c n ov]; cbn [inst_one] in Ho.
    - eapply Hblock; [exact Ho|reflexivity|unfold eff_repeat, object_repeat; destruct rep; reflexivity|reflexivity].
    - injection Ho as <-. eapply Hleaf; [exact Hia| |reflexivity|unfold eff_repeat, object_repeat, ref_target; destruct (rg_repeat rg); reflexivity|reflexivity].
      apply leaf_instances_in in Hia. destruct Hia as (k & _ & ->). apply Hcov. reflexivity.
    - injection Ho as <-. eapply Hleaf; [exact Hia| |reflexivity|unfold eff_repeat, object_repeat, ref_target; destruct (cm_repeat cm); reflexivity|reflexivity].
      apply leaf_instances_in in Hia. destruct Hia as (k & _ & ->). apply Hcov. reflexivity.
    - injection Ho as <-. eapply Hleaf; [exact Hia| |reflexivity|reflexivity|reflexivity].
      apply leaf_instances_in in Hia. destruct Hia as (k & _ & ->). apply Hcov. reflexivity.
    - destruct ov as [tgt off rep|tgt acc1 addr allow reset rep|tgt addr allow rep];
        (destruct (search_object tgt dev) as [t|] eqn:Es; [|discriminate]); destruct t; try discriminate.
      + eapply Hblock; [exact Ho| | |].
        * cbn [ref_target override_target]. rewrite Es. destruct off; reflexivity.
        * cbn [ref_target override_target]. rewrite Es. destruct rep; reflexivity.
        * cbn [ref_target override_target]. rewrite Es. reflexivity.
      + injection Ho as <-. eapply Hleaf; [exact Hia| | | |].
        * apply leaf_instances_in in Hia. destruct Hia as (k & _ & ->). apply Hcov. reflexivity.
        * cbn [ref_target override_target]. rewrite Es. destruct addr; reflexivity.
        * cbn [ref_target override_target]. rewrite Es. destruct rep; reflexivity.
        * cbn [ref_target override_target]. rewrite Es. reflexivity.
      + injection Ho as <-. eapply Hleaf; [exact Hia| | | |].
        * apply leaf_instances_in in Hia. destruct Hia as (k & _ & ->). apply Hcov. reflexivity.
        * cbn [ref_target override_target]. rewrite Es. destruct addr; reflexivity.
        * cbn [ref_target override_target]. rewrite Es. destruct rep; reflexivity.
        * cbn [ref_target override_target]. rewrite Es. reflexivity. }
  revert l H Hi ps Hp. induction objs as [|o t IHt]; intros l H Hi ps Hp.
  - cbn in H. injection H as <-. destruct Hi.
  - cbn [map] in H, Hp. apply ocat_cons_ok in H. destruct H as (a & b & Ha & Hb & ->).
    apply ocat_cons_ok in Hp. destruct Hp as (pa & pb & Hpa & Hpb & ->).
    apply in_or_app. apply in_app_or in Hi. destruct Hi as [Hi|Hi].
    + left. eapply Hone; eauto.
    + right. eapply IHt; eauto.
Qed.

Theorem instances_are_points fi fp objs l i ps :
  instances fi objs = Ok l -> In i l -> points fp (filter_kind (i_kind i)) objs = Ok ps -> In (i_addr i) ps.
Proof.
  intros H Hi Hp.
  exact (instances_in_points objs _ fi objs [] [] [] l i H Hi (filter_covers_kind _) fp ps Hp).
Qed.

Lemma range_error_none k t mn mx : range_error k t mn mx = None -> integer_min t <= mn /\ mx <= integer_max t.
Proof.
  unfold range_error. destruct (integer_min t <=? mn) eqn:E1; cbn [negb]; [|discriminate].
  destruct (mx <=? integer_max t) eqn:E2; cbn [negb]; [|discriminate]. lia.
Qed.

Lemma big_enough_kind_none fuel d k t :
  address_type_of (d_config d) k = Some t -> big_enough_kind fuel d k = Ok None ->
  exists mn mx, find_min_max_addresses fuel (filter_kind k) (d_objects d) = Ok (mn, mx) /\
                integer_min t <= mn /\ mx <= integer_max t.
Proof.
  unfold big_enough_kind. intros -> H.
  destruct (find_min_max_addresses fuel (filter_kind k) (d_objects d)) as [[mn mx]|f]; [|discriminate].
  injection H as H. exists mn, mx. split; [reflexivity|]. apply (range_error_none k). exact H.
Qed.

Lemma big_enough_seq_none fuel d : forall ks,
  big_enough_seq fuel d ks = Ok None -> Forall (fun k => big_enough_kind fuel d k = Ok None) ks.
Proof.
  induction ks as [|k t IH]; intros H; [constructor|]. cbn [big_enough_seq] in H.
  destruct (big_enough_kind fuel d k) as [[e|]|f] eqn:Ek; try discriminate. constructor; auto.
Qed.

Lemma big_enough_all_kinds fuel d k : address_types_big_enough fuel d = Ok None -> big_enough_kind fuel d k = Ok None.
Proof.
  unfold address_types_big_enough. intros H. apply big_enough_seq_none in H. rewrite Forall_forall in H.
  apply H. destruct k; cbn; auto.
Qed.

(* address_types_big_enough passes ==> every instance fits its kind's address type *)
Theorem all_fit fuel d fi l i t :
  instances fi (d_objects d) = Ok l -> In i l ->
  address_types_big_enough fuel d = Ok None ->
  address_type_of (d_config d) (i_kind i) = Some t ->
  in_range (integer_ity t) (i_addr i) = true.
Proof.
  intros H Hi Hbe Ht.
  destruct (big_enough_kind_none fuel d _ t Ht (big_enough_all_kinds fuel d _ Hbe)) as (mn & mx & Hw & Hlo & Hhi).
  pose proof (walk_bounds_instances _ _ _ _ _ _ _ _ Hw H Hi eq_refl) as Hb.
  unfold in_range, integer_min, integer_max in *. lia.
Qed.


(* trees in the class of C13_partial have only untagged instances *)
Definition simple_obj (dev : list object) (o : object) : bool :=
  obj_no_block_repeat o && obj_no_block_ref o && obj_ref_overrides_address o && obj_ref_repeat_known dev o.

Lemma simple_clean dev : forall fuel objs bl path tags l i,
  (forall o, In o (flat_map flat objs) -> simple_obj dev o = true) -> clean tags ->
  instances_objs fuel dev objs bl path tags = Ok l -> In i l -> clean (i_tags i).
Proof.
  induction fuel as [|f IH]; intros objs bl path tags l i Hs Hct H Hi; [discriminate|].
  rewrite instances_objs_S in H. apply ocat_map_ok in H. destruct H as (rs & HF & ->).
  apply in_concat in Hi. destruct Hi as (r & Hr & Hi).
  destruct (Forall2_in_r _ _ _ HF _ Hr) as (o & Ho & Hcall).
  pose proof (Hs o (in_objs_flat _ _ Ho)) as Hso.
  assert (Hnil : clean (tags ++ [])) by (rewrite app_nil_r; assumption).
  destruct o as [c n off rep ch|rg|cm|bf|c n ov]; cbn [inst_one] in Hcall.
  - destruct (block_inst_in _ _ _ _ _ _ _ _ _ _ Hcall Hi) as (k & r1 & Hk & Hrec & Hi1).
    destruct rep as [rp|]; [discriminate|].
    eapply IH; [|exact Hnil|exact Hrec|exact Hi1].
    intros x Hx. apply Hs. apply in_flat_map in Hx. destruct Hx as (y & Hy & Hxy).
    apply in_flat_map. exists (OBlock c n off None ch). split; [assumption|]. cbn. right.
    apply in_flat_map. exists y; auto.
  - injection Hcall as <-. apply leaf_instances_in in Hi. destruct Hi as (k & _ & ->). exact Hnil.
  - injection Hcall as <-. apply leaf_instances_in in Hi. destruct Hi as (k & _ & ->). exact Hnil.
  - injection Hcall as <-. apply leaf_instances_in in Hi. destruct Hi as (k & _ & ->). exact Hnil.
  - destruct ov as [tgt off rep|tgt acc0 addr allow reset rep|tgt addr allow rep]; [discriminate| |].
    + destruct (search_object tgt dev) as [t|] eqn:Es; [|discriminate]. destruct t; try discriminate.
      injection Hcall as <-. apply leaf_instances_in in Hi. destruct Hi as (k & _ & ->). cbn [i_tags lf_tags].
      unfold simple_obj in Hso. cbn in Hso. destruct addr as [a0|]; [|discriminate].
      apply clean_app; split; [assumption|]. cbn [is_none opt_tag app].
      assert (Hr0 : is_none rep && rep_is (rg_repeat r0) = false).
      { destruct rep as [rp|]; [reflexivity|]. cbn in Hso. rewrite Es in Hso. cbn in Hso.
        destruct (rg_repeat r0); [discriminate|reflexivity]. }
      rewrite Hr0. cbn [opt_tag app]. intros t Ht. destruct allow; [destruct Ht as [<-|[]]; reflexivity|destruct Ht].
    + destruct (search_object tgt dev) as [t|] eqn:Es; [|discriminate]. destruct t; try discriminate.
      injection Hcall as <-. apply leaf_instances_in in Hi. destruct Hi as (k & _ & ->). cbn [i_tags lf_tags].
      unfold simple_obj in Hso. cbn in Hso. destruct addr as [a0|]; [|discriminate].
      apply clean_app; split; [assumption|]. cbn [is_none opt_tag app].
      assert (Hr0 : is_none rep && rep_is (cm_repeat c0) = false).
      { destruct rep as [rp|]; [reflexivity|]. cbn in Hso. rewrite Es in Hso. cbn in Hso.
        destruct (cm_repeat c0); [discriminate|reflexivity]. }
      rewrite Hr0. cbn [opt_tag app]. intros t Ht. destruct allow; [destruct Ht as [<-|[]]; reflexivity|destruct Ht].
Qed.

Lemma simple_tree_untagged objs fuel l i :
  simple_tree objs = true -> instances fuel objs = Ok l -> In i l -> untagged i = true.
Proof.
  intros Hs H Hi. apply untagged_clean.
  apply (simple_clean objs fuel objs [] [] [] l i); [|intros t Ht; destruct Ht|exact H|exact Hi].
  intros o Ho. unfold simple_tree in Hs. rewrite forallb_forall in Hs.
  rewrite preorder_objects_flat in Hs. exact (Hs o Ho).
Qed.

(* an instance of a kind exists ==> address_types_specified demands the kind's type *)
Lemma instance_type_specified d fuel l i :
  instances fuel (d_objects d) = Ok l -> In i l -> address_types_specified d = None ->
  exists t, address_type_of (d_config d) (i_kind i) = Some t.
Proof.
  intros H Hi Hsp.
  destruct (instance_has_object (d_objects d) fuel (d_objects d) [] [] [] l i (fun x Hx => in_objs_flat _ _ Hx) H Hi)
    as (o & Ho & Hk).
  destruct (address_type_of (d_config d) (i_kind i)) as [t|] eqn:Et; [eauto|].
  rewrite <- preorder_objects_flat in Ho.
  destruct (missing_type_rejected d o _ Ho Hk Et) as (e & He & _). congruence.
Qed.

(* ================================================================================================ *)
(** * 6. C12: the expansion of the collision pass = the spec's instance list *)

Definition claimed_one (rec : list lmethod -> Z -> list string -> outcome (list claimed))
           (blocks : list lblock) (off : Z) (stack : list string) (m : lmethod) : outcome (list claimed) :=
  let off' := off + m_address m in
  let count := rep_count (m_repeat m) in
  let stride := rep_stride (m_repeat m) in
  chk128 off'
    match m_kind m with
    | MBlock name =>
        match find_block name blocks with
        | None => Fail AssertFail
        | Some sb =>
            ocat (map (fun i => chk128 (i * stride) (chk128 (off' + i * stride)
                                  (rec (b_methods sb) (off' + i * stride)
                                     (stack ++ [(name ++ index_suffix i)%string]))) ) (zrange count))
        end
    | MLeaf k =>
        ocat (map (fun i => chk128 (i * stride) (chk128 (off' + i * stride)
                      (Ok [{| c_name := String.concat "::" (stack ++ [m_name m]);
                              c_index := if rep_is (m_repeat m) then Some i else None;
                              c_address := off' + i * stride;
                              c_allow := m_allow m;
                              c_kind := k |}]))) (zrange count))
    end.

Lemma claimed_methods_S f blocks ms off stack :
  claimed_methods (S f) blocks ms off stack =
  ocat (map (claimed_one (claimed_methods f blocks) blocks off stack) ms).
Proof. reflexivity. Qed.

Lemma chk128_ok {A} z (x : outcome A) r : chk128 z x = Ok r -> x = Ok r.
Proof. unfold chk128. destruct (in_i128 z); [auto|discriminate]. Qed.

Lemma Forall2_concat {A B} (R : A -> B -> Prop) ls ls' :
  Forall2 (Forall2 R) ls ls' -> Forall2 R (List.concat ls) (List.concat ls').
Proof.
  induction 1 as [|a b ls ls' Hab HF IH]; cbn; [constructor|]. apply Forall2_app; assumption.
Qed.

Lemma Forall2_same_index {A B C} (R : B -> C -> Prop) (f : A -> B -> Prop) (g : A -> C -> Prop) l ra rb :
  Forall2 f l ra -> Forall2 g l rb ->
  (forall x ya yb, In x l -> f x ya -> g x yb -> R ya yb) -> Forall2 R ra rb.
Proof.
  intros Ha. revert rb. induction Ha as [|x ya l ra Hxa Ha IH]; intros rb Hb HR; inversion Hb; subst; constructor.
  - eapply HR; eauto. left; reflexivity.
  - apply IH; [assumption|]. intros x0 y1 y2 Hx0. apply HR. right; assumption.
Qed.

Lemma Forall2_map_same {A B C} (R : B -> C -> Prop) (f : A -> B) (g : A -> C) l :
  (forall x, In x l -> R (f x) (g x)) -> Forall2 R (map f l) (map g l).
Proof.
  induction l as [|x t IH]; intros H; cbn; constructor; [apply H; left; reflexivity|].
  apply IH. intros y Hy. apply H. right; assumption.
Qed.

Lemma append_nil_r (s : string) : (s ++ "")%string = s.
Proof. induction s as [|a s IH]; cbn; [reflexivity|]. rewrite IH. reflexivity. Qed.

(* singleton-producing guarded maps *)
Lemma ocat_guarded_singletons {A} (g : Z -> A) (z1 z2 : Z -> Z) l r :
  ocat (map (fun i => chk128 (z1 i) (chk128 (z2 i) (Ok [g i]))) l) = Ok r -> r = map g l.
Proof.
  revert r. induction l as [|x t IH]; intros r H; cbn in H.
  - injection H as <-. reflexivity.
  - apply ocat_cons_ok in H. destruct H as (a & b & Ha & Hb & ->).
    apply chk128_ok in Ha. apply chk128_ok in Ha. injection Ha as <-. rewrite (IH b Hb). reflexivity.
Qed.

(* fuel monotonicity of the lowering *)
Lemma lower_list_ext gm gm' objs r :
  (forall o r0, In o objs -> gm o = Ok r0 -> gm' o = Ok r0) ->
  lower_list gm objs = Ok r -> lower_list gm' objs = Ok r.
Proof.
  revert r. induction objs as [|o t IH]; intros r Hext H; cbn in *; [assumption|].
  destruct (gm o) as [[m bl]|k] eqn:E; [|discriminate].
  rewrite (Hext o _ (or_introl eq_refl) E).
  destruct (lower_list gm t) as [[ms bls]|k] eqn:E2; [|discriminate].
  rewrite (IH _ (fun o0 r0 Hin => Hext o0 r0 (or_intror Hin)) eq_refl). assumption.
Qed.

Lemma get_method_S_block fx f dev c n off rep ch :
  get_method fx (S f) dev (OBlock c n off rep ch) =
  match lower_list (get_method fx f dev) ch with
  | Fail k => Fail k
  | Ok (ms, bls) =>
      Ok ({| m_name := n; m_kind := MBlock n; m_address := off; m_repeat := rep; m_allow := false |},
          {| b_name := n; b_root := false; b_methods := ms |} :: bls)
  end.
Proof. reflexivity. Qed.

Lemma get_method_S_ref fx f dev c n ov :
  get_method fx (S f) dev (ORef c n ov) =
  match search_object (override_target ov) dev with
  | None => Fail AssertFail
  | Some tgt =>
      match apply_override fx c ov tgt with
      | None => Fail AssertFail
      | Some (OBlock _ bname off rep _) =>
          Ok ({| m_name := n; m_kind := MBlock bname; m_address := off; m_repeat := rep; m_allow := false |}, [])
      | Some o' =>
          match get_method fx f dev o' with
          | Fail k => Fail k
          | Ok (m, bls) => Ok (set_method_name m n, bls)
          end
      end
  end.
Proof. reflexivity. Qed.

Lemma get_method_mono fx dev : forall f o r, get_method fx f dev o = Ok r -> get_method fx (S f) dev o = Ok r.
Proof.
  induction f as [|f IH]; intros o r H; [discriminate|].
  destruct o as [c n off rep ch|rg|cm|bf|c n ov]; try exact H.
  - rewrite get_method_S_block in H |- *.
    destruct (lower_list (get_method fx f dev) ch) as [[ms bls]|k] eqn:E; [|discriminate].
    rewrite (lower_list_ext _ (get_method fx (S f) dev) ch _ (fun o0 r0 _ => IH o0 r0) E). exact H.
  - rewrite get_method_S_ref in H |- *.
    destruct (search_object (override_target ov) dev) as [tgt|]; [|discriminate].
    destruct (apply_override fx c ov tgt) as [o'|]; [|discriminate].
    destruct o' as [c' n' off' rep' ch'|rg'|cm'|bf'|c' n' ov']; try exact H;
      (destruct (get_method fx f dev _) as [[m bls]|k] eqn:E; [|discriminate]; rewrite (IH _ _ E); exact H).
Qed.

Section Corr.
  Variable fx : bool.
  Variable dev : list object.
  Variable BL : list lblock.

  Definition in_tree (o : object) : Prop := In o (flat_map flat dev).

  (* b is the lowering of (the children of) a block of the tree carrying b's name *)
  Definition gen_block (b : lblock) : Prop :=
    exists c off rep objs f bls,
      in_tree (OBlock c (b_name b) off rep objs) /\
      lower_list (get_method fx f dev) objs = Ok (b_methods b, bls).

  (* blocks with the same name have the same children (names_unique gives distinct block names) *)
  Definition unique_blocks : Prop :=
    forall c1 n o1 r1 objs1 c2 o2 r2 objs2,
      in_tree (OBlock c1 n o1 r1 objs1) -> in_tree (OBlock c2 n o2 r2 objs2) -> objs1 = objs2.

  Hypothesis Huniq : unique_blocks.
  Hypothesis HBL : forall name b, find_block name BL = Some b ->
    (exists c off rep objs, in_tree (OBlock c name off rep objs)) -> gen_block b.

  Definition render (bi : string * Z) : string := (fst bi ++ index_suffix (snd bi))%string.

  Definition corr (c : claimed) (i : instance) : Prop :=
    c_kind c = i_kind i /\ claimed_display c = instance_display i /\ c_address c = i_addr i /\
    (i_allow i = c_allow c \/ (fx = false /\ has_tag TOwnFlag i = true /\ i_allow i = true)).

  Lemma find_block_name name b : find_block name BL = Some b -> b_name b = name.
  Proof.
    unfold find_block. intros H. apply List.find_some in H. destruct H as [_ H]. apply String.eqb_eq in H. exact H.
  Qed.

  (* a leaf method against a leaf of the spec *)
  Lemma leaf_corr rec off stack bl path tags (m : lmethod) k (lf : leaf) a :
    claimed_one rec BL off stack m = Ok a ->
    m_kind m = MLeaf k -> lf_kind lf = k -> m_name m = lf_name lf -> m_address m = lf_addr lf ->
    m_repeat m = lf_rep lf ->
    (lf_allow lf = m_allow m \/ (fx = false /\ In TOwnFlag (lf_tags lf) /\ lf_allow lf = true)) ->
    off = addr_sem path -> stack = map render bl ->
    Forall2 corr a (leaf_instances bl path tags lf).
  Proof.
    intros Hc Hk Hlk Hn Ha Hr Hfl Hoff Hst. unfold claimed_one in Hc. cbn zeta in Hc.
    apply chk128_ok in Hc. rewrite Hk in Hc. apply ocat_guarded_singletons in Hc. subst a.
    unfold leaf_instances. rewrite Hr. apply Forall2_map_same. intros i Hi.
    unfold corr, claimed_display, instance_display, i_addr.
    cbn [c_kind c_name c_index c_address c_allow i_kind i_blocks i_name i_index i_path i_allow i_tags].
    rewrite addr_sem_app. unfold step_sem. cbn [s_addr s_idx s_rep]. subst off stack. rewrite Hn, Ha.
    split; [auto|]. split; [|split].
    - destruct (rep_is (lf_rep lf)); [reflexivity|]. rewrite append_nil_r. reflexivity.
    - lia.
    - destruct Hfl as [Hfl|(Hf & Hin & Hal)]; [left; assumption|right].
      repeat split; auto. unfold has_tag. cbn [i_tags]. apply existsb_exists. exists TOwnFlag. split; [|reflexivity].
      apply in_or_app. right. assumption.
  Qed.

  Lemma corr_main : forall f2 objs f1 ms bls f3 off stack bl path tags cl il,
    (forall x, In x objs -> in_tree x) ->
    lower_list (get_method fx f1 dev) objs = Ok (ms, bls) ->
    claimed_methods f2 BL ms off stack = Ok cl ->
    instances_objs f3 dev objs bl path tags = Ok il ->
    off = addr_sem path -> stack = map render bl ->
    Forall2 corr cl il.
  Proof.
    induction f2 as [|f2 IH]; intros objs f1 ms bls f3 off stack bl path tags cl il Htree Hlow Hcl Hil Hoff Hst;
      [discriminate|].
    destruct f3 as [|f3]; [discriminate|].
    rewrite claimed_methods_S in Hcl. rewrite instances_objs_S in Hil.
    (* a block method (own block or lowered block ref) against block_inst *)
    assert (Hblock : forall (m : lmethod) name off0 rep ch tg a b,
              (exists c' off' rep', in_tree (OBlock c' name off' rep' ch)) ->
              m_kind m = MBlock name -> m_address m = off0 -> m_repeat m = rep ->
              claimed_one (claimed_methods f2 BL) BL off stack m = Ok a ->
              block_inst (instances_objs f3 dev) bl path name off0 rep ch tg = Ok b ->
              Forall2 corr a b).
    { intros m name off0 rep ch tg a b (c' & off' & rep' & Hin) Hk Ha Hr Hc Hb.
      unfold claimed_one in Hc. cbn zeta in Hc. apply chk128_ok in Hc. rewrite Hk in Hc.
      destruct (find_block name BL) as [sb|] eqn:Ef; [|discriminate].
      destruct (HBL name sb Ef) as (c2 & off2 & rep2 & objs2 & fg & blsg & Hin2 & Hlow2); [eauto|].
      rewrite (find_block_name _ _ Ef) in Hin2.
      pose proof (Huniq _ _ _ _ _ _ _ _ _ Hin2 Hin) as ->.
      apply ocat_map_ok in Hc. destruct Hc as (ra & HFa & ->).
      unfold block_inst in Hb. apply ocat_map_ok in Hb. destruct Hb as (rb & HFb & ->).
      rewrite Hr in HFa. apply Forall2_concat.
      eapply Forall2_same_index; [exact HFa|exact HFb|].
      intros i ya yb Hi Hya Hyb. cbn beta in Hya, Hyb. apply chk128_ok in Hya. apply chk128_ok in Hya.
      eapply IH; [|exact Hlow2|exact Hya|exact Hyb| |].
      - intros x Hx. eapply flat_children; eauto.
      - rewrite addr_sem_app. unfold step_sem. cbn. subst off. rewrite Ha. lia.
      - subst stack. rewrite map_app. reflexivity. }
    (* one object *)
    assert (Hone : forall o m blo a b, in_tree o -> get_method fx f1 dev o = Ok (m, blo) ->
              claimed_one (claimed_methods f2 BL) BL off stack m = Ok a ->
              inst_one (instances_objs f3 dev) dev bl path tags o = Ok b -> Forall2 corr a b).
    { intros o m blo a b Hin Hgm Ha Hb.
      destruct f1 as [|f1]; [discriminate|].
      destruct o as [c n off0 rep ch|rg|cm|bf|c n ov]; cbn [get_method] in Hgm; cbn [inst_one] in Hb.
      - destruct (lower_list (get_method fx f1 dev) ch) as [[ms' bls']|k]; [|discriminate].
        injection Hgm as <- <-. eapply Hblock; [exists c, off0, rep; exact Hin| | | |exact Ha|exact Hb]; reflexivity.
      - injection Hgm as <- <-. injection Hb as <-.
        eapply leaf_corr; [exact Ha|reflexivity|reflexivity|reflexivity|reflexivity|reflexivity|left; reflexivity|exact Hoff|exact Hst].
      - injection Hgm as <- <-. injection Hb as <-.
        eapply leaf_corr; [exact Ha|reflexivity|reflexivity|reflexivity|reflexivity|reflexivity|left; reflexivity|exact Hoff|exact Hst].
      - injection Hgm as <- <-. injection Hb as <-.
        eapply leaf_corr; [exact Ha|reflexivity|reflexivity|reflexivity|reflexivity|reflexivity|left; reflexivity|exact Hoff|exact Hst].
      - destruct ov as [tgt off0 rep|tgt acc0 addr own reset rep|tgt addr own rep]; cbn [override_target] in Hgm.
        + destruct (search_object tgt dev) as [t|] eqn:Es; [|discriminate].
          destruct t as [c' tn toff trep tch| | | |]; try discriminate.
          apply search_object_in in Es. destruct Es as [Es _].
          cbn [apply_override] in Hgm.
          injection Hgm as <- <-.
          eapply Hblock; [exists c', toff, trep; exact Es| | | |exact Ha|exact Hb]; reflexivity.
        + destruct (search_object tgt dev) as [t|] eqn:Es; [|discriminate].
          destruct t as [| r | | |]; try discriminate.
          cbn [apply_override] in Hgm. destruct f1 as [|f1]; [discriminate|]. cbn [get_method] in Hgm.
          injection Hgm as <- <-. injection Hb as <-.
          eapply leaf_corr; [exact Ha|reflexivity|reflexivity|reflexivity|reflexivity|reflexivity| |exact Hoff|exact Hst].
          cbn. destruct own; [|left; rewrite andb_false_r; reflexivity].
          destruct fx; [left; reflexivity|right]. rewrite orb_true_r. repeat split; auto.
          apply in_or_app. right. apply in_or_app. right. left. reflexivity.
        + destruct (search_object tgt dev) as [t|] eqn:Es; [|discriminate].
          destruct t as [| | cm0 | |]; try discriminate.
          cbn [apply_override] in Hgm. destruct f1 as [|f1]; [discriminate|]. cbn [get_method] in Hgm.
          injection Hgm as <- <-. injection Hb as <-.
          eapply leaf_corr; [exact Ha|reflexivity|reflexivity|reflexivity|reflexivity|reflexivity| |exact Hoff|exact Hst].
          cbn. destruct own; [|left; rewrite andb_false_r; reflexivity].
          destruct fx; [left; reflexivity|right]. rewrite orb_true_r. repeat split; auto.
          apply in_or_app. right. apply in_or_app. right. left. reflexivity. }
    (* the list *)
    clear Hblock. revert ms bls cl il Hlow Hcl Hil.
    induction objs as [|o t IHt]; intros ms bls cl il Hlow Hcl Hil.
    - cbn in Hlow. injection Hlow as <- <-. cbn in Hcl, Hil. injection Hcl as <-. injection Hil as <-. constructor.
    - cbn [lower_list] in Hlow.
      destruct (get_method fx f1 dev o) as [[m blo]|k] eqn:Eg; [|discriminate].
      destruct (lower_list (get_method fx f1 dev) t) as [[ms' bls']|k] eqn:El; [|discriminate].
      injection Hlow as <- <-. cbn [map] in Hcl, Hil.
      apply ocat_cons_ok in Hcl. destruct Hcl as (a1 & a2 & Ha1 & Ha2 & ->).
      apply ocat_cons_ok in Hil. destruct Hil as (b1 & b2 & Hb1 & Hb2 & ->).
      apply Forall2_app.
      + eapply Hone; eauto. apply Htree. left; reflexivity.
      + eapply IHt; eauto. intros x Hx. apply Htree. right; assumption.
  Qed.

  (* every block generated while lowering tree objects is a gen_block *)
  Definition tree_like (o : object) : Prop :=
    match o with
    | OBlock _ n _ _ ch => exists c' off' rep', in_tree (OBlock c' n off' rep' ch)
    | _ => True
    end.

  Lemma generated_blocks : forall f o m bls,
    tree_like o -> get_method fx f dev o = Ok (m, bls) -> Forall gen_block bls.
  Proof.
    induction f as [|f IH]; intros o m bls Htl H; [discriminate|].
    assert (Hlist : forall objs ms bls0, (forall x, In x objs -> in_tree x) ->
              lower_list (get_method fx f dev) objs = Ok (ms, bls0) -> Forall gen_block bls0).
    { induction objs as [|x t IHt]; intros ms bls0 Hin Hl; cbn in Hl.
      - injection Hl as <- <-. constructor.
      - destruct (get_method fx f dev x) as [[m0 bl0]|k] eqn:E; [|discriminate].
        destruct (lower_list (get_method fx f dev) t) as [[ms' bls']|k] eqn:E2; [|discriminate].
        injection Hl as <- <-. apply Forall_app. split.
        + eapply IH; [|exact E]. pose proof (Hin x (or_introl eq_refl)) as Hx.
          destruct x; cbn; auto. eauto.
        + eapply IHt; [|reflexivity]. intros y Hy. apply Hin. right; assumption. }
    destruct o as [c n off rep ch|rg|cm|bf|c n ov]; cbn [get_method] in H;
      try (injection H as <- <-; constructor).
    - destruct (lower_list (get_method fx f dev) ch) as [[ms bls']|k] eqn:E; [|discriminate].
      injection H as <- <-. destruct Htl as (c' & off' & rep' & Hin). constructor.
      + exists c', off', rep', ch, f, bls'. split; [exact Hin|exact E].
      + eapply Hlist; [|exact E]. intros x Hx. eapply flat_children; eauto.
    - destruct (search_object (override_target ov) dev) as [tgt|] eqn:Es; [|discriminate].
      apply search_object_in in Es. destruct Es as [Es _].
      destruct (apply_override fx c ov tgt) as [o'|] eqn:Ea; [|discriminate].
      destruct o' as [c' n' off' rep' ch'|rg'|cm'|bf'|c' n' ov']; try (injection H as <- <-; constructor).
      * destruct (get_method fx f dev (ORegister rg')) as [[m' bls']|k] eqn:Eg; [|discriminate].
        injection H as <- <-. eapply IH; [|exact Eg]. exact I.
      * destruct (get_method fx f dev (OCommand cm')) as [[m' bls']|k] eqn:Eg; [|discriminate].
        injection H as <- <-. eapply IH; [|exact Eg]. exact I.
      * destruct (get_method fx f dev (OBuffer bf')) as [[m' bls']|k] eqn:Eg; [|discriminate].
        injection H as <- <-. eapply IH; [|exact Eg]. exact I.
      * destruct (get_method fx f dev (ORef c' n' ov')) as [[m' bls']|k] eqn:Eg; [|discriminate].
        injection H as <- <-. eapply IH; [|exact Eg]. exact I.
  Qed.
End Corr.

Definition corr_flags (fx : bool) (c : claimed) (i : instance) : Prop := corr fx c i.

(* no block of the tree carries the device's (= root block's) name *)
Definition root_name_fresh (dev_name : string) (objs : list object) : Prop :=
  forall c off rep ch, ~ In (OBlock c dev_name off rep ch) (flat_map flat objs).

Theorem claimed_eq_instances fx dev_name objs f1 BL f2 ms cl f3 il :
  unique_blocks objs -> root_name_fresh dev_name objs ->
  lower fx f1 dev_name objs = Ok BL ->
  root_methods BL = Some ms -> claimed_methods f2 BL ms 0 [] = Ok cl ->
  instances f3 objs = Ok il ->
  Forall2 (corr fx) cl il.
Proof.
  intros Hu Hfresh Hlow Hroot Hcl Hil. unfold lower in Hlow.
  destruct (lower_list (get_method fx f1 objs) objs) as [[ms0 bls]|k] eqn:El; [|discriminate].
  injection Hlow as <-. cbn in Hroot. injection Hroot as <-.
  eapply (corr_main fx objs _ Hu); [| |exact El|exact Hcl|exact Hil|reflexivity|reflexivity].
  - (* lookups of tree block names find generated blocks, never the root *)
    intros name b Hf (c & off & rep & ch & Hin). unfold find_block in Hf. cbn [find b_name] in Hf.
    destruct (String.eqb dev_name name) eqn:E.
    + apply String.eqb_eq in E. subst name. exfalso. eapply Hfresh; eauto.
    + apply List.find_some in Hf. destruct Hf as [Hb _].
      assert (HF : Forall (gen_block fx objs) bls).
      { clear -El.
        assert (Hgen : forall l ms1 bls1, (forall x, In x l -> In x (flat_map flat objs)) ->
                  lower_list (get_method fx f1 objs) l = Ok (ms1, bls1) -> Forall (gen_block fx objs) bls1).
        { induction l as [|x t IHt]; intros ms1 bls1 Hin Hl; cbn in Hl.
          - injection Hl as <- <-. constructor.
          - destruct (get_method fx f1 objs x) as [[m0 bl0]|k] eqn:E; [|discriminate].
            destruct (lower_list (get_method fx f1 objs) t) as [[ms' bls']|k] eqn:E2; [|discriminate].
            injection Hl as <- <-. apply Forall_app. split.
            + eapply generated_blocks; [|exact E]. pose proof (Hin x (or_introl eq_refl)) as Hx.
              destruct x; cbn; auto. eauto.
            + eapply IHt; [|reflexivity]. intros y Hy. apply Hin. right; assumption. }
        eapply Hgen; [|exact El]. intros x Hx. apply in_objs_flat. exact Hx. }
      rewrite Forall_forall in HF. apply HF. exact Hb.
  - intros x Hx. apply in_objs_flat. exact Hx.
Qed.

(* ================================================================================================ *)
(** * 7. C12 corollaries: reject <-> collision, error names both *)

Lemma Forall2_nth_l {A B} (R : A -> B -> Prop) l l' (H : Forall2 R l l') : forall n a,
  nth_error l n = Some a -> exists b, nth_error l' n = Some b /\ R a b.
Proof.
  induction H as [|x y l l' Hxy HF IH]; intros n a Hn; destruct n; cbn in *; try discriminate.
  - injection Hn as <-. eauto.
  - eauto.
Qed.

Lemma Forall2_nth_r {A B} (R : A -> B -> Prop) l l' (H : Forall2 R l l') : forall n b,
  nth_error l' n = Some b -> exists a, nth_error l n = Some a /\ R a b.
Proof.
  induction H as [|x y l l' Hxy HF IH]; intros n b Hn; destruct n; cbn in *; try discriminate.
  - injection Hn as <-. eauto.
  - eauto.
Qed.

Definition same_flag (c : claimed) (i : instance) : Prop :=
  c_kind c = i_kind i /\ claimed_display c = instance_display i /\ c_address c = i_addr i /\ i_allow i = c_allow c.

Lemma conflict_collide c1 c2 i1 i2 : same_flag c1 i1 -> same_flag c2 i2 -> conflict c1 c2 = collide i1 i2.
Proof.
  intros (K1 & _ & A1 & F1) (K2 & _ & A2 & F2). unfold conflict, collide.
  rewrite K1, K2, A1, A2, F1, F2.
  destruct (akind_eqb (i_kind i1) (i_kind i2)), (i_addr i1 =? i_addr i2); reflexivity.
Qed.

Lemma reject_iff_collision_same cl il :
  Forall2 same_flag cl il -> (pairwise_check cl <> None <-> collision il).
Proof.
  intros HF. rewrite pairwise_complete. unfold conflict_pair, collision. split.
  - intros (i & j & a & b & Hlt & Hi & Hj & Hc).
    destruct (Forall2_nth_l _ _ _ HF _ _ Hi) as (ia & Hia & Ra).
    destruct (Forall2_nth_l _ _ _ HF _ _ Hj) as (ib & Hib & Rb).
    exists i, j, ia, ib. repeat split; auto. rewrite <- (conflict_collide _ _ _ _ Ra Rb). exact Hc.
  - intros (i & j & ia & ib & Hlt & Hi & Hj & Hc).
    destruct (Forall2_nth_r _ _ _ HF _ _ Hi) as (a & Ha & Ra).
    destruct (Forall2_nth_r _ _ _ HF _ _ Hj) as (b & Hb & Rb).
    exists i, j, a, b. repeat split; auto. rewrite (conflict_collide _ _ _ _ Ra Rb). exact Hc.
Qed.

(* no ref of the tree sets the flag itself ==> no instance carries TOwnFlag *)
Lemma own_free dev : (forall o, In o (flat_map flat dev) -> obj_ref_no_own_flag o = true) ->
  forall fuel objs bl path tags l i,
  (forall o, In o objs -> In o (flat_map flat dev)) -> ~ In TOwnFlag tags ->
  instances_objs fuel dev objs bl path tags = Ok l -> In i l -> ~ In TOwnFlag (i_tags i).
Proof.
  intros Hno. induction fuel as [|f IH]; intros objs bl path tags l i Hs Hct H Hi; [discriminate|].
  rewrite instances_objs_S in H. apply ocat_map_ok in H. destruct H as (rs & HF & ->).
  apply in_concat in Hi. destruct Hi as (r & Hr & Hi).
  destruct (Forall2_in_r _ _ _ HF _ Hr) as (o & Ho & Hcall).
  pose proof (Hno o (Hs o Ho)) as Hso.
  assert (Hnil : ~ In TOwnFlag (tags ++ [])) by (rewrite app_nil_r; assumption).
  assert (Hblock : forall name off rep ch tg, (forall x, In x ch -> In x (flat_map flat dev)) ->
            ~ In TOwnFlag tg ->
            block_inst (instances_objs f dev) bl path name off rep ch tg = Ok r -> ~ In TOwnFlag (i_tags i)).
  { intros name off rep ch tg Hch Htg Hb.
    destruct (block_inst_in _ _ _ _ _ _ _ _ _ _ Hb Hi) as (k & r1 & Hk & Hrec & Hi1).
    eapply IH; [exact Hch| |exact Hrec|exact Hi1].
    intros Hin. apply in_app_or in Hin. destruct Hin as [Hin|Hin]; [auto|].
    destruct (rep_is rep); cbn in Hin; [destruct Hin as [Hin|[]]; discriminate|destruct Hin]. }
  destruct o as [c n off rep ch|rg|cm|bf|c n ov]; cbn [inst_one] in Hcall.
  - eapply Hblock; [|exact Hct|exact Hcall]. intros x Hx. eapply flat_children; [apply Hs; exact Ho|exact Hx].
  - injection Hcall as <-. apply leaf_instances_in in Hi. destruct Hi as (k & _ & ->). exact Hnil.
  - injection Hcall as <-. apply leaf_instances_in in Hi. destruct Hi as (k & _ & ->). exact Hnil.
  - injection Hcall as <-. apply leaf_instances_in in Hi. destruct Hi as (k & _ & ->). exact Hnil.
  - destruct ov as [tgt off rep|tgt acc0 addr allow reset rep|tgt addr allow rep];
      (destruct (search_object _ dev) as [t|] eqn:Es; [|discriminate]); destruct t; try discriminate.
    + apply search_object_in in Es. destruct Es as [Es _].
      eapply Hblock; [| |exact Hcall]; [intros x Hx; eapply flat_children; eauto|].
      intros Hin. apply in_app_or in Hin. destruct Hin as [Hin|[Hin|[]]]; [auto|discriminate].
    + injection Hcall as <-. apply leaf_instances_in in Hi. destruct Hi as (k & _ & ->). cbn [i_tags lf_tags].
      cbn in Hso. destruct allow; [discriminate|]. intros Hin. apply in_app_or in Hin. destruct Hin as [Hin|Hin]; [auto|].
      apply in_app_or in Hin. destruct Hin as [Hin|Hin]; [destruct (is_none addr); cbn in Hin; [destruct Hin as [Hin|[]]; discriminate|destruct Hin]|].
      apply in_app_or in Hin. destruct Hin as [Hin|Hin]; [|destruct Hin].
      destruct (is_none rep && rep_is (rg_repeat r0)); cbn in Hin; [destruct Hin as [Hin|[]]; discriminate|destruct Hin].
    + injection Hcall as <-. apply leaf_instances_in in Hi. destruct Hi as (k & _ & ->). cbn [i_tags lf_tags].
      cbn in Hso. destruct allow; [discriminate|]. intros Hin. apply in_app_or in Hin. destruct Hin as [Hin|Hin]; [auto|].
      apply in_app_or in Hin. destruct Hin as [Hin|Hin]; [destruct (is_none addr); cbn in Hin; [destruct Hin as [Hin|[]]; discriminate|destruct Hin]|].
      apply in_app_or in Hin. destruct Hin as [Hin|Hin]; [|destruct Hin].
      destruct (is_none rep && rep_is (cm_repeat c0)); cbn in Hin; [destruct Hin as [Hin|[]]; discriminate|destruct Hin].
Qed.

Lemma no_own_flag_instances objs fuel l i :
  no_own_flag objs = true -> instances fuel objs = Ok l -> In i l -> has_tag TOwnFlag i = false.
Proof.
  intros Hno H Hi. destruct (has_tag TOwnFlag i) eqn:E; [|reflexivity]. exfalso.
  unfold has_tag in E. apply existsb_exists in E. destruct E as (t & Ht & Heq). apply tag_eqb_eq in Heq. subst t.
  assert (Hno' : forall o, In o (flat_map flat objs) -> obj_ref_no_own_flag o = true).
  { intros o Ho. unfold no_own_flag in Hno. rewrite forallb_forall, preorder_objects_flat in Hno. exact (Hno o Ho). }
  exact (own_free objs Hno' fuel objs [] [] [] l i (fun o Ho => in_objs_flat _ _ Ho) (fun Hf => Hf) H Hi Ht).
Qed.

Lemma corr_same_flag fx cl il :
  Forall2 (corr fx) cl il -> (fx = true \/ forall i, In i il -> has_tag TOwnFlag i = false) ->
  Forall2 same_flag cl il.
Proof.
  intros HF Hc. induction HF as [|c i cl il Hci HF IH]; constructor.
  - destruct Hci as (K & D & A & [Fl|(Hfx & Ht & _)]); [repeat split; auto|].
    destruct Hc as [Hc|Hc]; [congruence|]. rewrite Hc in Ht; [discriminate|left; reflexivity].
  - apply IH. destruct Hc as [Hc|Hc]; [left; assumption|right]. intros j Hj. apply Hc. right; assumption.
Qed.

(* the pass, unfolded *)
Lemma overlap_pass_ok fuel BL r :
  overlap_pass fuel BL = Ok r ->
  exists ms cl, root_methods BL = Some ms /\ claimed_methods fuel BL ms 0 [] = Ok cl /\ r = pairwise_check cl.
Proof.
  unfold overlap_pass. destruct (root_methods BL) as [ms|]; [|discriminate].
  destruct (claimed_methods fuel BL ms 0 []) as [cl|k] eqn:E; [|discriminate].
  intros H; injection H as <-. eauto.
Qed.

(* ================================================================================================ *)
(** * 8. C13: the emitted arithmetic does not overflow on the way *)


(* --- machine evaluation of a path whose exact values are all representable --- *)

Lemma in_range_wrap t z : 0 < bits t -> in_range t z = true -> wrap t z = z.
Proof.
  intros Hb H. unfold in_range, ity_min, ity_max, wrap in *.
  assert (Hp : 2 ^ bits t = 2 * 2 ^ (bits t - 1)).
  { replace (bits t) with (1 + (bits t - 1)) at 1 by lia. rewrite Z.pow_add_r by lia. reflexivity. }
  assert (Hpos : 0 < 2 ^ (bits t - 1)) by (apply Z.pow_pos_nonneg; lia).
  destruct (signed t); cbn [andb].
  - apply andb_true_iff in H. destruct H as [H1 H2]. apply Z.leb_le in H1, H2.
    destruct (Z_lt_le_dec z 0).
    + assert (Hm : z mod 2 ^ bits t = z + 2 ^ bits t).
      { symmetry. apply Z.mod_unique with (q := -1); lia. }
      rewrite Hm. destruct (2 ^ (bits t - 1) <=? z + 2 ^ bits t) eqn:E; [lia|]. apply Z.leb_gt in E. lia.
    + rewrite Z.mod_small by lia. destruct (2 ^ (bits t - 1) <=? z) eqn:E; [apply Z.leb_le in E; lia|reflexivity].
  - apply andb_true_iff in H. destruct H as [H1 H2]. apply Z.leb_le in H1, H2. apply Z.mod_small. lia.
Qed.

(* what has to be representable in the internal type for one repeated step *)
Definition step_ok (it : ity) (s : step) : Prop :=
  match s_rep s with
  | None => True
  | Some r => 0 <= s_idx s < r_count r /\
              in_range it (s_idx s * Z.abs (r_stride r)) = true /\
              (r_stride r = 0 \/ in_range it (s_idx s) = true)
  end.

Lemma arith_ok it z : in_range it z = true -> arith true it z = Ok z.
Proof. unfold arith. intros ->. reflexivity. Qed.

Lemma step_eval_exact it base s :
  0 < bits it -> step_ok it s ->
  in_range it (base + s_addr s) = true -> in_range it (base + step_sem s) = true ->
  step_eval true it base s = Ok (base + step_sem s).
Proof.
  intros Hb Hok H1 H2. unfold step_eval, step_sem, step_ok in *. destruct (s_rep s) as [r|].
  - destruct Hok as (Hidx & Hp & Hi). unfold rep_stride in *.
    replace ((0 <=? s_idx s) && (s_idx s <? r_count r)) with true by lia. cbn [negb].
    rewrite (arith_ok _ _ H1). cbn [bind].
    assert (Hw : wrap it (s_idx s) * Z.abs (r_stride r) = s_idx s * Z.abs (r_stride r)).
    { destruct Hi as [H0|Hi]; [rewrite H0; cbn; lia|]. rewrite (in_range_wrap _ _ Hb Hi). reflexivity. }
    rewrite Hw, (arith_ok _ _ Hp). cbn [bind].
    destruct (r_stride r <? 0) eqn:E.
    + replace (base + s_addr s - s_idx s * Z.abs (r_stride r)) with (base + (s_addr s + s_idx s * r_stride r)) by lia.
      apply arith_ok. exact H2.
    + replace (base + s_addr s + s_idx s * Z.abs (r_stride r)) with (base + (s_addr s + s_idx s * r_stride r)) by lia.
      apply arith_ok. exact H2.
  - unfold rep_stride in *. replace (base + (s_addr s + s_idx s * 0)) with (base + s_addr s) by lia.
    apply arith_ok. exact H1.
Qed.

Lemma steps_eval_exact it : forall path base,
  0 < bits it -> Forall (step_ok it) path ->
  Forall (fun z => in_range it z = true) (checkpoints base path) ->
  steps_eval true it base path = Ok (base + addr_sem path).
Proof.
  induction path as [|s t IH]; intros base Hb Hok Hcp.
  - cbn [steps_eval]. f_equal. unfold addr_sem, zsum. cbn [map fold_right]. lia.
  - cbn [checkpoints] in Hcp. inversion Hcp as [|? ? H1 Hcp']; subst. inversion Hcp' as [|? ? H2 Hcp'']; subst.
    inversion Hok; subst. cbn [steps_eval]. rewrite (step_eval_exact it base s Hb); auto. cbn [bind].
    rewrite IH; auto. f_equal. unfold addr_sem, zsum. cbn [map fold_right]. lia.
Qed.

(* --- find_best_internal_address covers [min, max] --- *)

Lemma next_power_of_two_ge z : z <= next_power_of_two z.
Proof.
  unfold next_power_of_two. destruct (z <=? 1) eqn:E; [lia|]. apply Z.leb_gt in E.
  apply Z.log2_up_spec in E. lia.
Qed.

Lemma log2_next_power_of_two m : 1 <= m -> m <= 2 ^ Z.log2 (next_power_of_two m).
Proof.
  intros Hm. unfold next_power_of_two. destruct (m <=? 1) eqn:E.
  - cbn. lia.
  - apply Z.leb_gt in E. rewrite Z.log2_pow2 by (apply Z.log2_up_nonneg).
    apply Z.log2_up_spec in E. lia.
Qed.

Lemma best_internal_covers mn mx it :
  best_internal mn mx = Ok it -> mn <= 0 <= mx ->
  8 <= bits it /\ (signed it = (mn <? 0)) /\ forall z, mn <= z <= mx -> in_range it z = true.
Proof.
  unfold best_internal. intros H Hmm.
  set (m := Z.max (Z.abs mn) (Z.abs mx) + 1) in *.
  destruct (2 ^ 127 <? m); [discriminate|]. injection H as <-. cbn [bits signed].
  set (k := Z.log2 (next_power_of_two m)).
  assert (Hk0 : 0 <= k) by apply Z.log2_nonneg.
  assert (Hmk : m <= 2 ^ k) by (apply log2_next_power_of_two; lia).
  set (sg := if mn <? 0 then 1 else 0).
  set (b := Z.max (next_power_of_two (k + sg)) 8).
  assert (Hb : k + sg <= b) by (pose proof (next_power_of_two_ge (k + sg)); lia).
  split; [lia|]. split; [reflexivity|].
  intros z Hz. unfold in_range, ity_min, ity_max. cbn [signed bits].
  destruct (mn <? 0) eqn:Es.
  - subst sg. assert (Hpow : 2 ^ k <= 2 ^ (b - 1)) by (apply Z.pow_le_mono_r; lia). lia.
  - subst sg. apply Z.ltb_ge in Es. assert (Hpow : 2 ^ k <= 2 ^ b) by (apply Z.pow_le_mono_r; lia). lia.
Qed.

Lemma ity_min_le_0 it : ity_min it <= 0.
Proof.
  unfold ity_min. destruct (signed it); [|lia].
  destruct (Z_lt_le_dec (bits it - 1) 0) as [Hn|Hn].
  - rewrite Z.pow_neg_r by lia. lia.
  - pose proof (Z.pow_pos_nonneg 2 (bits it - 1)). lia.
Qed.

(* what the steps of a path need, from the bounds of the walk and the D3b side condition *)
Lemma steps_ok_of_bounds it mn mx :
  mn <= 0 <= mx -> (forall z, mn <= z <= mx -> in_range it z = true) ->
  forall path base, mn <= base <= mx -> Forall idx_ok path ->
    Forall (fun z => mn <= z <= mx) (checkpoints base path) ->
    (mn = 0 \/ steps_product_ok it path) ->
    Forall (step_ok it) path.
Proof.
  intros Hmm Hcov. induction path as [|s t IH]; intros base Hbase Hidx Hcp Hside; [constructor|].
  cbn [checkpoints] in Hcp. inversion Hcp as [|? ? H1 Hcp']; subst. inversion Hcp' as [|? ? H2 Hcp'']; subst.
  inversion Hidx as [|? ? Hi Hidx']; subst.
  constructor.
  - unfold step_ok. unfold idx_ok in Hi. unfold step_sem in H2. destruct (s_rep s) as [r|] eqn:Er; [|exact I].
    unfold rep_count in Hi. unfold rep_stride in H2. split; [exact Hi|].
    assert (Habs : 0 <= s_idx s * Z.abs (r_stride r)) by nia.
    assert (Hprod_le : s_idx s * Z.abs (r_stride r) <= (r_count r - 1) * Z.abs (r_stride r)) by nia.
    assert (Hidx_le : r_stride r = 0 \/ s_idx s <= s_idx s * Z.abs (r_stride r)) by nia.
    destruct Hside as [H0|Hprod].
    + subst mn.
      assert (Hd : s_idx s * Z.abs (r_stride r) <= mx).
      { destruct (Z_le_gt_dec 0 (r_stride r)) as [Hs|Hs].
        - rewrite Z.abs_eq by lia. lia.
        - rewrite Z.abs_neq by lia. lia. }
      split; [apply Hcov; lia|]. destruct Hidx_le as [Hz|Hle]; [left; exact Hz|right; apply Hcov; lia].
    + inversion Hprod as [|? ? Hp _]; subst. unfold step_product_ok in Hp. rewrite Er in Hp.
      pose proof (ity_min_le_0 it) as Hmin0.
      split; [unfold in_range; lia|]. destruct Hidx_le as [Hz|Hle]; [left; exact Hz|right; unfold in_range; lia].
  - apply (IH (base + step_sem s)); auto.
    destruct Hside as [H0|Hprod]; [left; exact H0|right]. inversion Hprod; assumption.
Qed.

(* ---- the range the internal type is sized for: the walk's, widened by the values of every object ---- *)

Lemma widen_values_spec : forall vs mm,
  le_acc mm (widen_values mm vs) /\ forall v, In v vs -> within (widen_values mm vs) v.
Proof.
  induction vs as [|x t IH]; intros mm; cbn [widen_values fold_left].
  - split; [apply le_acc_refl|intros v []].
  - destruct (IH (Z.min (fst mm) x, Z.max (snd mm) x)) as (Hle & Hin). fold (widen_values (Z.min (fst mm) x, Z.max (snd mm) x) t) in *.
    split.
    + eapply le_acc_trans; [|exact Hle]. unfold le_acc; cbn [fst snd]; lia.
    + intros v [<-|Hv]; [|apply Hin; exact Hv].
      eapply within_mono; [|exact Hle]. unfold within; cbn [fst snd]; lia.
Qed.

(* what [internal_type_at] returning means *)
Lemma internal_type_at_inv fuel d it :
  internal_type_at fuel d = Ok it ->
  exists mn mx mn' mx',
    find_min_max_addresses fuel filter_all (d_objects d) = Ok (mn, mx) /\
    mn' <= mn /\ mx <= mx' /\
    (forall o v, In o (flat_map flat (d_objects d)) -> In v (object_it_values (d_objects d) o) -> mn' <= v <= mx') /\
    best_internal mn' mx' = Ok it.
Proof.
  unfold internal_type_at, internal_range_at. intros H.
  destruct (find_min_max_addresses fuel filter_all (d_objects d)) as [[mn mx]|f]; [|discriminate].
  destruct (widen_values_spec (flat_map (object_it_values (d_objects d)) (preorder_objects (d_objects d))) (mn, mx)) as (Hle & Hin).
  destruct (widen_values (mn, mx) _) as [mn' mx'] eqn:Ew. unfold le_acc in Hle. cbn [fst snd] in Hle.
  exists mn, mx, mn', mx'. split; [reflexivity|]. split; [lia|]. split; [lia|]. split; [|exact H].
  intros o v Ho Hv. apply (Hin v). apply in_flat_map. exists o. split; [|exact Hv]. rewrite preorder_objects_flat. exact Ho.
Qed.

(* the internal type contains the walk's range and the values of every object *)
Lemma internal_type_at_covers fuel d it :
  internal_type_at fuel d = Ok it ->
  exists mn mx,
    find_min_max_addresses fuel filter_all (d_objects d) = Ok (mn, mx) /\ mn <= 0 <= mx /\
    8 <= bits it /\ (signed it = false -> mn = 0) /\
    (forall z, mn <= z <= mx -> in_range it z = true) /\
    (forall o v, In o (flat_map flat (d_objects d)) -> In v (object_it_values (d_objects d) o) -> in_range it v = true).
Proof.
  intros H. destruct (internal_type_at_inv _ _ _ H) as (mn & mx & mn' & mx' & Hw & Hlo & Hhi & Hvals & Hbi).
  pose proof (walk_contains_zero _ _ _ _ _ Hw) as Hz.
  destruct (best_internal_covers mn' mx' it Hbi ltac:(lia)) as (Hbits & Hsg & Hcov).
  exists mn, mx. split; [exact Hw|]. split; [exact Hz|]. split; [exact Hbits|]. split; [|split].
  - intros Hu. rewrite Hsg in Hu. apply Z.ltb_ge in Hu. lia.
  - intros z Hzz. apply Hcov. lia.
  - intros o v Ho Hv. apply Hcov. eapply Hvals; eauto.
Qed.

(* every step of every instance path is the (effective) address and repeat of an object of the tree *)
Definition step_of_object (dev : list object) (s : step) : Prop :=
  exists o, In o (flat_map flat dev) /\
    eff_address o (ref_target dev o) = Some (s_addr s) /\ eff_repeat o (ref_target dev o) = s_rep s.

Lemma inst_steps_objects dev : forall fi objs bl path tags l i,
  (forall x, In x objs -> In x (flat_map flat dev)) ->
  instances_objs fi dev objs bl path tags = Ok l -> In i l ->
  exists rest, i_path i = path ++ rest /\ Forall (step_of_object dev) rest.
Proof.
  induction fi as [|f IH]; intros objs bl path tags l i Hsub H Hi; [discriminate|].
  rewrite instances_objs_S in H. apply ocat_map_ok in H. destruct H as (rs & HF & ->).
  apply in_concat in Hi. destruct Hi as (a & Ha & Hia).
  destruct (Forall2_in_r _ _ _ HF _ Ha) as (o & Ho & Hcall).
  pose proof (Hsub o Ho) as Hoin.
  assert (Hleaf : forall lf, In i (leaf_instances bl path tags lf) ->
            eff_address o (ref_target dev o) = Some (lf_addr lf) ->
            eff_repeat o (ref_target dev o) = lf_rep lf ->
            exists rest, i_path i = path ++ rest /\ Forall (step_of_object dev) rest).
  { intros lf Hin Hea Her. apply leaf_instances_in in Hin. destruct Hin as (k & _ & ->).
    eexists. split; [reflexivity|]. constructor; [|constructor]. exists o. cbn [s_addr s_rep]. auto. }
  assert (Hblock : forall name off rep ch tg,
            block_inst (instances_objs f dev) bl path name off rep ch tg = Ok a ->
            eff_address o (ref_target dev o) = Some off ->
            eff_repeat o (ref_target dev o) = rep ->
            (forall x, In x ch -> In x (flat_map flat dev)) ->
            exists rest, i_path i = path ++ rest /\ Forall (step_of_object dev) rest).
  { intros name off rep ch tg Hbi Hea Her Hch.
    destruct (block_inst_in _ _ _ _ _ _ _ _ _ _ Hbi Hia) as (k & r1 & _ & Hrec & Hi1).
    destruct (IH _ _ _ _ _ _ Hch Hrec Hi1) as (rest & Hp & HFr).
    exists ({| s_addr := off; s_rep := rep; s_idx := k |} :: rest). split; [rewrite Hp, <- app_assoc; reflexivity|].
    constructor; [|exact HFr]. exists o. cbn [s_addr s_rep]. auto. }
  destruct o as [c n off rep ch|rg|cm|bf|c n ov]; cbn [inst_one] in Hcall.
  - eapply Hblock; [exact Hcall|reflexivity|unfold eff_repeat, object_repeat; destruct rep; reflexivity|].
    intros x Hx. eapply flat_children; [exact Hoin|exact Hx].
  - injection Hcall as <-. eapply Hleaf; [exact Hia|reflexivity|unfold eff_repeat, object_repeat, ref_target; destruct (rg_repeat rg); reflexivity].
  - injection Hcall as <-. eapply Hleaf; [exact Hia|reflexivity|unfold eff_repeat, object_repeat, ref_target; destruct (cm_repeat cm); reflexivity].
  - injection Hcall as <-. eapply Hleaf; [exact Hia|reflexivity|reflexivity].
  - destruct ov as [tgt off rep|tgt acc1 addr allow reset rep|tgt addr allow rep];
      (destruct (search_object tgt dev) as [t|] eqn:Es; [|discriminate]); destruct t; try discriminate.
    + eapply Hblock; [exact Hcall| | |].
      * cbn [ref_target override_target]. rewrite Es. destruct off; reflexivity.
      * cbn [ref_target override_target]. rewrite Es. destruct rep; reflexivity.
      * apply search_object_in in Es. destruct Es as [Es _]. intros x Hx. eapply flat_children; [exact Es|exact Hx].
    + injection Hcall as <-. eapply Hleaf; [exact Hia| |].
      * cbn [ref_target override_target]. rewrite Es. destruct addr; reflexivity.
      * cbn [ref_target override_target]. rewrite Es. destruct rep; reflexivity.
    + injection Hcall as <-. eapply Hleaf; [exact Hia| |].
      * cbn [ref_target override_target]. rewrite Es. destruct addr; reflexivity.
      * cbn [ref_target override_target]. rewrite Es. destruct rep; reflexivity.
Qed.

(* hence the D3b side condition HOLDS for every path once the internal type covers every object's values *)
Lemma step_of_object_product_ok fuel d it s :
  internal_type_at fuel d = Ok it -> step_of_object (d_objects d) s ->
  step_product_ok it s /\
  (forall r, s_rep s = Some r -> in_range it (Z.max (r_count r - 1) 0) = true /\ in_range it (Z.abs (r_stride r)) = true) /\
  in_range it (s_addr s) = true.
Proof.
  intros Hit (o & Ho & Hea & Her).
  destruct (internal_type_at_covers _ _ _ Hit) as (mn & mx & _ & _ & _ & _ & _ & Hvals).
  assert (Hv : forall v, In v (object_it_values (d_objects d) o) -> in_range it v = true) by (intros v; apply Hvals; exact Ho).
  unfold object_it_values in Hv. rewrite Hea, Her in Hv. cbn zeta in Hv.
  split; [|split].
  - unfold step_product_ok. destruct (s_rep s) as [r|]; [|exact I].
    assert (H3 : in_range it (Z.max (r_count r - 1) 0 * Z.abs (r_stride r)) = true) by (apply Hv; cbn; auto).
    unfold in_range in H3. nia.
  - intros r Hr. rewrite Hr in Hv. split; apply Hv; cbn; auto.
  - apply Hv. cbn. auto.
Qed.

Theorem steps_product_ok_holds d fuel fi l i it :
  instances fi (d_objects d) = Ok l -> In i l -> internal_type_at fuel d = Ok it ->
  steps_product_ok it (i_path i).
Proof.
  intros H Hi Hit.
  destruct (inst_steps_objects (d_objects d) fi (d_objects d) [] [] [] l i (fun x Hx => in_objs_flat _ _ Hx) H Hi) as (rest & Hp & HF).
  cbn [app] in Hp. rewrite Hp. unfold steps_product_ok. eapply Forall_impl; [|exact HF].
  intros s Hs. apply (step_of_object_product_ok fuel d it s Hit Hs).
Qed.

(* For every instance of ANY tree: the internal type chosen by find_best_internal_address contains every value on the
   way, and — internal type unsigned, or every step's (count-1)*|stride| within it (a side condition that
   [steps_product_ok_holds] discharges since the repair of D3b) — the emitted arithmetic with overflow checks on
   computes exactly addr_sem. *)
Theorem internal_covers_checkpoints d fuel fi l i it :
  instances fi (d_objects d) = Ok l -> In i l -> internal_type_at fuel d = Ok it ->
  Forall (fun z => in_range it z = true) (checkpoints 0 (i_path i)).
Proof.
  intros H Hi Hit.
  destruct (internal_type_at_covers _ _ _ Hit) as (mn & mx & Ew & _ & _ & _ & Hcov & _).
  destruct (walk_bounds_checkpoints _ _ _ _ _ _ _ Ew H Hi) as (_ & Hcp).
  eapply Forall_impl; [|exact Hcp]. intros z Hz. apply Hcov. exact Hz.
Qed.

Theorem no_overflow d fuel fi l i it :
  instances fi (d_objects d) = Ok l -> In i l -> internal_type_at fuel d = Ok it ->
  (signed it = false \/ steps_product_ok it (i_path i)) ->
  steps_eval true it 0 (i_path i) = Ok (i_addr i).
Proof.
  intros H Hi Hit Hside.
  destruct (internal_type_at_covers _ _ _ Hit) as (mn & mx & Ew & Hz & Hbits & Huns & Hcov & _).
  destruct (walk_bounds_checkpoints _ _ _ _ _ _ _ Ew H Hi) as (Hidx & Hcp).
  unfold i_addr. replace (addr_sem (i_path i)) with (0 + addr_sem (i_path i)) by lia.
  apply steps_eval_exact; [lia| |].
  - apply (steps_ok_of_bounds it mn mx Hz Hcov (i_path i) 0); [lia|exact Hidx|exact Hcp|].
    destruct Hside as [Hu|Hp]; [left; apply Huns; exact Hu|right; exact Hp].
  - eapply Forall_impl; [|exact Hcp]. intros z Hz0. apply Hcov. exact Hz0.
Qed.

(* unconditionally *)
Theorem no_overflow_full d fuel fi l i it :
  instances fi (d_objects d) = Ok l -> In i l -> internal_type_at fuel d = Ok it ->
  steps_eval true it 0 (i_path i) = Ok (i_addr i).
Proof.
  intros H Hi Hit. eapply no_overflow; eauto. right. eapply steps_product_ok_holds; eauto.
Qed.

Lemma integer_bits_pos t : 0 < bits (integer_ity t).
Proof. destruct t; cbn; lia. Qed.

Theorem gen_addr_exact d fuel fi l i it t :
  instances fi (d_objects d) = Ok l -> In i l -> internal_type_at fuel d = Ok it ->
  (signed it = false \/ steps_product_ok it (i_path i)) ->
  in_range (integer_ity t) (i_addr i) = true ->
  gen_addr true it (integer_ity t) (i_path i) = Ok (i_addr i).
Proof.
  intros H Hi Hit Hside Hfit. unfold gen_addr.
  rewrite (no_overflow d fuel fi l i it H Hi Hit Hside). cbn [bind].
  rewrite (in_range_wrap _ _ (integer_bits_pos t) Hfit). reflexivity.
Qed.


Theorem gen_addr_exact_full d fuel fi l i it t :
  instances fi (d_objects d) = Ok l -> In i l -> internal_type_at fuel d = Ok it ->
  in_range (integer_ity t) (i_addr i) = true ->
  gen_addr true it (integer_ity t) (i_path i) = Ok (i_addr i).
Proof.
  intros H Hi Hit Hfit. eapply gen_addr_exact; eauto. right. eapply steps_product_ok_holds; eauto.
Qed.

(* the index cast `index as IT` of every step is exact too: index <= count-1, which the internal type contains *)
Theorem index_casts_exact d fuel fi l i it :
  instances fi (d_objects d) = Ok l -> In i l -> internal_type_at fuel d = Ok it ->
  Forall (fun s => match s_rep s with Some _ => wrap it (s_idx s) = s_idx s | None => True end) (i_path i).
Proof.
  intros H Hi Hit.
  destruct (internal_type_at_covers _ _ _ Hit) as (mn & mx & Ew & _ & Hbits & _ & _ & _).
  destruct (walk_bounds_checkpoints _ _ _ _ _ _ _ Ew H Hi) as (Hidx & _).
  destruct (inst_steps_objects (d_objects d) fi (d_objects d) [] [] [] l i (fun x Hx => in_objs_flat _ _ Hx) H Hi) as (rest & Hp & HF).
  cbn [app] in Hp. rewrite Hp in *. clear Hp.
  induction HF as [|s t Hs HF IH]; [constructor|]. inversion Hidx as [|? ? Hi0 Hidx']; subst.
  constructor; [|apply IH; exact Hidx'].
  destruct (s_rep s) as [r|] eqn:Er; [|exact I].
  destruct (step_of_object_product_ok fuel d it s Hit Hs) as (_ & Hr & _). destruct (Hr r Er) as (Hlast & _).
  unfold idx_ok in Hi0. rewrite Er in Hi0. unfold rep_count in Hi0.
  apply in_range_wrap; [lia|]. pose proof (ity_min_le_0 it) as Hmin. unfold in_range in *. lia.
Qed.

(* ================================================================================================ *)
(** * 9. Assembled statements used by props/C12.v and props/C13.v *)

Lemma first_collide_none a rest :
  first_collide a rest = None <-> Forall (fun b => collide a b = false) rest.
Proof.
  induction rest as [|b t IH]; cbn.
  - split; auto.
  - destruct (collide a b) eqn:E.
    + split; [discriminate|]. intros H; inversion H; congruence.
    + rewrite IH. split; intros H; [constructor; auto|inversion H; auto].
Qed.

Lemma collision_cons a t :
  collision (a :: t) <-> (exists b, In b t /\ collide a b = true) \/ collision t.
Proof.
  split.
  - intros (i & j & x & y & Hlt & Hi & Hj & Hc).
    destruct j as [|j]; [lia|]. cbn in Hj.
    destruct i as [|i]; cbn in Hi.
    + inversion Hi; subst. left. exists y. split; [eapply nth_error_In; eauto|assumption].
    + right. exists i, j, x, y. repeat split; auto. lia.
  - intros [(b & Hb & Hc)|(i & j & x & y & Hlt & Hi & Hj & Hc)].
    + apply In_nth_error in Hb. destruct Hb as [j Hj]. exists O, (S j), a, b. repeat split; auto. lia.
    + exists (S i), (S j), x, y. repeat split; auto. lia.
Qed.

Lemma not_all_false_exists a t :
  ~ Forall (fun b => collide a b = false) t -> exists b, In b t /\ collide a b = true.
Proof.
  induction t as [|b t' IHt]; intros H; [exfalso; apply H; constructor|].
  destruct (collide a b) eqn:Ec; [exists b; split; [left; reflexivity|assumption]|].
  assert (Hn : ~ Forall (fun b0 => collide a b0 = false) t') by (intros HF; apply H; constructor; assumption).
  destruct (IHt Hn) as (b' & Hb' & Hc'). exists b'; split; [right; assumption|assumption].
Qed.

(* the executable collision search decides [collision] *)
Lemma find_collision_complete l : find_collision l <> None <-> collision l.
Proof.
  induction l as [|a t IH]; cbn.
  - split; [congruence|]. intros (i & j & x & y & _ & Hi & _). destruct i; discriminate.
  - rewrite collision_cons. destruct (first_collide a t) eqn:E.
    + split; [|congruence]. intros _. left.
      apply not_all_false_exists. rewrite <- first_collide_none. congruence.
    + rewrite IH. split; [auto|]. intros [(b & Hb & Hc)|H]; [|assumption].
      apply first_collide_none in E. rewrite Forall_forall in E. rewrite (E b Hb) in Hc. discriminate.
Qed.

Theorem reject_iff_collision fx dev_name objs f1 BL f2 r f3 il :
  unique_blocks objs -> root_name_fresh dev_name objs ->
  (fx = true \/ no_own_flag objs = true) ->
  lower fx f1 dev_name objs = Ok BL -> overlap_pass f2 BL = Ok r -> instances f3 objs = Ok il ->
  (r <> None <-> collision il).
Proof.
  intros Hu Hfr Hcls Hlow Hov Hil.
  destruct (overlap_pass_ok _ _ _ Hov) as (ms & cl & Hroot & Hcl & ->).
  pose proof (claimed_eq_instances fx dev_name objs f1 BL f2 ms cl f3 il Hu Hfr Hlow Hroot Hcl Hil) as HF.
  apply reject_iff_collision_same. eapply corr_same_flag; [exact HF|].
  destruct Hcls as [Hfx|Hno]; [left; assumption|right]. intros i Hi. eapply no_own_flag_instances; eauto.
Qed.

Theorem error_names_both fx dev_name objs f1 BL f2 e f3 il :
  unique_blocks objs -> root_name_fresh dev_name objs ->
  lower fx f1 dev_name objs = Ok BL -> overlap_pass f2 BL = Ok (Some e) -> instances f3 objs = Ok il ->
  exists i j a b, (i < j)%nat /\ nth_error il i = Some a /\ nth_error il j = Some b /\
    i_kind a = i_kind b /\ i_addr a = i_addr b /\
    e = mk_err "address_overlap" [instance_display a; instance_display b; show_Z (i_addr a)].
Proof.
  intros Hu Hfr Hlow Hov Hil.
  destruct (overlap_pass_ok _ _ _ Hov) as (ms & cl & Hroot & Hcl & Hr). symmetry in Hr.
  pose proof (claimed_eq_instances fx dev_name objs f1 BL f2 ms cl f3 il Hu Hfr Hlow Hroot Hcl Hil) as HF.
  destruct (pairwise_error _ _ Hr) as (i & j & ca & cb & Hlt & Hi & Hj & Hc & He & _).
  destruct (Forall2_nth_l _ _ _ HF _ _ Hi) as (ia & Hia & (Ka & Da & Aa & _)).
  destruct (Forall2_nth_l _ _ _ HF _ _ Hj) as (ib & Hib & (Kb & Db & Ab & _)).
  apply conflict_spec in Hc. destruct Hc as (Hadr & Hkind & _).
  exists i, j, ia, ib. repeat split; auto; try congruence.
  rewrite He. unfold overlap_error. rewrite Da, Db, Aa. reflexivity.
Qed.

(* unique block names (what names_unique establishes) give the hypotheses of the C12 theorems *)
Lemma NoDup_app_r' {A} (a b : list A) : NoDup (a ++ b) -> NoDup b.
Proof. induction a as [|x a IH]; cbn; [auto|]. intros H; inversion H; auto. Qed.

Lemma NoDup_flat_map_inj {A B} (f : A -> list B) l :
  NoDup (flat_map f l) -> forall x y n, In x l -> In y l -> In n (f x) -> In n (f y) -> x = y.
Proof.
  induction l as [|a t IH]; intros Hnd x y n Hx Hy Hnx Hny; [destruct Hx|].
  cbn in Hnd. pose proof (NoDup_app_r' _ _ Hnd) as Hnt.
  assert (Hdisj : forall z m, In z t -> In m (f z) -> In m (f a) -> False).
  { intros z m Hz Hmz Hma. clear -Hnd Hz Hmz Hma.
    induction (f a) as [|h fa IHf]; [destruct Hma|]. cbn in Hnd. inversion Hnd as [|? ? Hnot Hnd']; subst.
    destruct Hma as [->|Hma]; [|apply IHf; assumption].
    apply Hnot. apply in_or_app. right. apply in_flat_map. exists z; auto. }
  destruct Hx as [<-|Hx], Hy as [<-|Hy]; [reflexivity| | |eapply IH; eauto].
  - exfalso. eapply Hdisj; eauto.
  - exfalso. eapply Hdisj; eauto.
Qed.

Lemma unique_blocks_of_NoDup objs : NoDup (block_names objs) -> unique_blocks objs.
Proof.
  unfold block_names. rewrite preorder_objects_flat. intros Hnd c1 n o1 r1 objs1 c2 o2 r2 objs2 H1 H2.
  pose proof (NoDup_flat_map_inj block_name_of _ Hnd _ _ n H1 H2 (or_introl eq_refl) (or_introl eq_refl)) as He.
  injection He as _ _ _ He. exact He.
Qed.

Lemma root_name_fresh_of_names dev_name objs : ~ In dev_name (block_names objs) -> root_name_fresh dev_name objs.
Proof.
  unfold block_names. rewrite preorder_objects_flat. intros Hn c off rep ch Hin. apply Hn.
  apply in_flat_map. exists (OBlock c dev_name off rep ch). split; [assumption|left; reflexivity].
Qed.

(* ---- C13 ---- *)

Lemma accepted_inv fx fuel dev_name d :
  accepted fx fuel dev_name d ->
  address_types_specified d = None /\ address_types_big_enough fuel d = Ok None /\ exists it, internal_type_at fuel d = Ok it.
Proof.
  unfold accepted, addr_check. destruct (address_types_specified d); [discriminate|].
  destruct (address_types_big_enough fuel d) as [[e|]|k] eqn:Es; try discriminate.
  destruct (lower fx fuel dev_name (d_objects d)); [|discriminate].
  destruct (internal_type_at fuel d) as [it|k] eqn:Ei; [|discriminate]. intros _.
  split; [reflexivity|]. split; [reflexivity|eauto].
Qed.

Lemma missing_type_not_accepted fx fuel dev_name d o k :
  In o (preorder_objects (d_objects d)) -> object_kind o = Some k ->
  address_type_of (d_config d) k = None ->
  exists e, addr_check fx fuel dev_name d = Ok (Some e) /\ e_kind e = "no_address_type"%string.
Proof.
  intros Hin Hk Ht. destruct (missing_type_rejected d o k Hin Hk Ht) as (e & He & Hkind).
  exists e. split; [|exact Hkind]. unfold addr_check. rewrite He. reflexivity.
Qed.

(* "an error stating the offending bound" *)
Lemma big_enough_error fuel d k e :
  big_enough_kind fuel d k = Ok (Some e) ->
  exists t mn mx, address_type_of (d_config d) k = Some t /\
    find_min_max_addresses fuel (filter_kind k) (d_objects d) = Ok (mn, mx) /\
    ((mn < integer_min t /\
      e = mk_err "address_too_low" [show_akind k; show_Z mn; show_integer t; show_Z (integer_min t)]) \/
     (integer_max t < mx /\
      e = mk_err "address_too_high" [show_akind k; show_Z mx; show_integer t; show_Z (integer_max t)])).
Proof.
  unfold big_enough_kind. destruct (address_type_of (d_config d) k) as [t|]; [|discriminate].
  destruct (find_min_max_addresses fuel (filter_kind k) (d_objects d)) as [[mn mx]|f]; [|discriminate].
  intros H. injection H as H. exists t, mn, mx. split; [reflexivity|]. split; [reflexivity|].
  unfold range_error in H.
  destruct (integer_min t <=? mn) eqn:E1; cbn [negb] in H.
  - destruct (mx <=? integer_max t) eqn:E2; cbn [negb] in H; [discriminate|].
    right. apply Z.leb_gt in E2. split; [lia|]. injection H as <-. reflexivity.
  - left. apply Z.leb_gt in E1. split; [lia|]. injection H as <-. reflexivity.
Qed.

(* completeness of the comparison: a walk range that leaves the kind's address type is never accepted *)
Lemma walk_range_unfit_not_accepted fx fuel dev_name d k t mn mx :
  address_type_of (d_config d) k = Some t ->
  find_min_max_addresses fuel (filter_kind k) (d_objects d) = Ok (mn, mx) ->
  (mn < integer_min t \/ integer_max t < mx) -> ~ accepted fx fuel dev_name d.
Proof.
  intros Ht Hw Hout Hacc. destruct (accepted_inv _ _ _ _ Hacc) as (_ & Hbe & _).
  destruct (big_enough_kind_none fuel d k t Ht (big_enough_all_kinds fuel d k Hbe)) as (mn' & mx' & Hw' & Hlo & Hhi).
  rewrite Hw in Hw'. injection Hw' as <- <-. lia.
Qed.

(* C13 assembled: every instance of every accepted tree *)
Theorem c13_accepted_all_fit fx fuel dev_name d fi l :
  accepted fx fuel dev_name d -> instances fi (d_objects d) = Ok l ->
  forall i, In i l ->
    exists t, address_type_of (d_config d) (i_kind i) = Some t /\ in_range (integer_ity t) (i_addr i) = true.
Proof.
  intros Hacc Hil i Hi. destruct (accepted_inv _ _ _ _ Hacc) as (Hsp & Hbe & _).
  destruct (instance_type_specified d fi l i Hil Hi Hsp) as (t & Ht).
  exists t. split; [exact Ht|]. eapply all_fit; eauto.
Qed.

Theorem c13_accepted_no_overflow fx fuel dev_name d fi l :
  accepted fx fuel dev_name d -> instances fi (d_objects d) = Ok l ->
  forall i, In i l ->
    exists t it, address_type_of (d_config d) (i_kind i) = Some t /\ internal_type_at fuel d = Ok it /\
      in_range (integer_ity t) (i_addr i) = true /\
      Forall (fun z => in_range it z = true) (checkpoints 0 (i_path i)) /\
      ((signed it = false \/ steps_product_ok it (i_path i)) ->
       gen_addr true it (integer_ity t) (i_path i) = Ok (i_addr i)).
Proof.
  intros Hacc Hil i Hi. destruct (accepted_inv _ _ _ _ Hacc) as (Hsp & Hbe & it & Hit).
  destruct (instance_type_specified d fi l i Hil Hi Hsp) as (t & Ht).
  exists t, it. pose proof (all_fit fuel d fi l i t Hil Hi Hbe Ht) as Hfit.
  split; [exact Ht|]. split; [exact Hit|]. split; [exact Hfit|].
  split; [eapply internal_covers_checkpoints; eauto|].
  intros Hside. eapply gen_addr_exact; eauto.
Qed.


(* C13 in full, no side condition (since the repair of D3b) *)
Theorem c13_accepted_no_overflow_full fx fuel dev_name d fi l :
  accepted fx fuel dev_name d -> instances fi (d_objects d) = Ok l ->
  forall i, In i l ->
    exists t it, address_type_of (d_config d) (i_kind i) = Some t /\ internal_type_at fuel d = Ok it /\
      in_range (integer_ity t) (i_addr i) = true /\
      gen_addr true it (integer_ity t) (i_path i) = Ok (i_addr i).
Proof.
  intros Hacc Hil i Hi.
  destruct (c13_accepted_no_overflow fx fuel dev_name d fi l Hacc Hil i Hi) as (t & it & Ht & Hit & Hfit & _ & Hgen).
  exists t, it. repeat split; auto. apply Hgen. right. eapply steps_product_ok_holds; eauto.
Qed.

(* ---- for Emit.v: every address / |stride| literal of every lowered method lies in the internal type ---- *)

(* the literals of a lowered method are the (effective) address and repeat of the object it was made from *)
Lemma get_method_lits fx dev : forall f o m bls,
  get_method fx f dev o = Ok (m, bls) ->
  eff_address o (ref_target dev o) = Some (m_address m) /\ eff_repeat o (ref_target dev o) = m_repeat m.
Proof.
  intros f o m bls H. destruct f as [|f]; [discriminate|].
  destruct o as [c n off rep ch|rg|cm|bf|c n ov].
  - rewrite get_method_S_block in H. destruct (lower_list _ ch) as [[ms bls0]|k]; [|discriminate].
    injection H as <- _. cbn [m_address m_repeat]. split; [reflexivity|].
    unfold eff_repeat, object_repeat. destruct rep; reflexivity.
  - cbn in H. injection H as <- _. cbn [m_address m_repeat]. split; [reflexivity|].
    unfold eff_repeat, object_repeat, ref_target. destruct (rg_repeat rg); reflexivity.
  - cbn in H. injection H as <- _. cbn [m_address m_repeat]. split; [reflexivity|].
    unfold eff_repeat, object_repeat, ref_target. destruct (cm_repeat cm); reflexivity.
  - cbn in H. injection H as <- _. split; reflexivity.
  - rewrite get_method_S_ref in H. cbn [ref_target].
    destruct (search_object (override_target ov) dev) as [tgt|]; [|discriminate].
    destruct ov as [t off rep|t acc addr own reset rep|t addr own rep]; destruct tgt as [c' n' off' rep' ch'|rg'|cm'|bf'|c' n' ov'];
      cbn [apply_override] in H; try discriminate.
    + injection H as <- _. cbn [m_address m_repeat]. split.
      * unfold eff_address, object_address. destruct off; reflexivity.
      * unfold eff_repeat, object_repeat. destruct rep; reflexivity.
    + destruct f as [|f]; [discriminate|]. cbn in H. injection H as <- _. cbn. split.
      * unfold eff_address, object_address. destruct addr; reflexivity.
      * unfold eff_repeat, object_repeat. destruct rep; reflexivity.
    + destruct f as [|f]; [discriminate|]. cbn in H. injection H as <- _. cbn. split.
      * unfold eff_address, object_address. destruct addr; reflexivity.
      * unfold eff_repeat, object_repeat. destruct rep; reflexivity.
Qed.

Definition method_of_object (dev : list object) (m : lmethod) : Prop :=
  exists o, In o (flat_map flat dev) /\
    eff_address o (ref_target dev o) = Some (m_address m) /\ eff_repeat o (ref_target dev o) = m_repeat m.

Lemma lower_list_inv gm : forall objs ms bls,
  lower_list gm objs = Ok (ms, bls) ->
  Forall2 (fun o m => exists bl, gm o = Ok (m, bl) /\ forall b, In b bl -> In b bls) objs ms /\
  forall b, In b bls -> exists o m bl, In o objs /\ gm o = Ok (m, bl) /\ In b bl.
Proof.
  induction objs as [|o t IH]; intros ms bls H; cbn in H.
  - injection H as <- <-. split; [constructor|intros b []].
  - destruct (gm o) as [[m bl]|k] eqn:E; [|discriminate].
    destruct (lower_list gm t) as [[ms' bls']|k] eqn:E2; [|discriminate]. injection H as <- <-.
    destruct (IH _ _ eq_refl) as (HF & Hb). split.
    + constructor.
      * exists bl. split; [exact E|]. intros b Hbin. apply in_or_app. left. exact Hbin.
      * clear -HF. induction HF as [|x y l1 l2 (bl0 & Hg & Hsub) HF' IHF]; constructor; [|exact IHF].
        exists bl0. split; [exact Hg|]. intros b Hbin. apply in_or_app. right. apply Hsub. exact Hbin.
    + intros b Hbin. apply in_app_or in Hbin. destruct Hbin as [Hbin|Hbin].
      * exists o, m, bl. split; [left; reflexivity|]. split; assumption.
      * destruct (Hb b Hbin) as (o' & m' & bl' & Ho' & Hg & Hin). exists o', m', bl'. split; [right; exact Ho'|]. split; assumption.
Qed.

(* every method of every block generated below an object of the tree comes from an object of the tree *)
Lemma get_method_blocks fx dev : forall f o m bls,
  In o (flat_map flat dev) -> get_method fx f dev o = Ok (m, bls) ->
  forall b m', In b bls -> In m' (b_methods b) -> method_of_object dev m'.
Proof.
  induction f as [|f IH]; intros o m bls Ho H b m' Hb Hm'; [discriminate|].
  destruct o as [c n off rep ch|rg|cm|bf|c n ov].
  - rewrite get_method_S_block in H. destruct (lower_list (get_method fx f dev) ch) as [[ms bls0]|k] eqn:E; [|discriminate].
    injection H as _ <-. destruct (lower_list_inv _ _ _ _ E) as (HF & Hbl).
    assert (Hch : forall x, In x ch -> In x (flat_map flat dev)) by (intros x Hx; eapply flat_children; eauto).
    destruct Hb as [<-|Hb].
    + cbn [b_methods] in Hm'. destruct (Forall2_in_r _ _ _ HF _ Hm') as (x & Hx & bl & Hg & _).
      exists x. split; [apply Hch; exact Hx|]. eapply get_method_lits; exact Hg.
    + destruct (Hbl b Hb) as (x & mx & bl & Hx & Hg & Hin). eapply (IH x mx bl); eauto.
  - cbn in H. injection H as _ <-. destruct Hb.
  - cbn in H. injection H as _ <-. destruct Hb.
  - cbn in H. injection H as _ <-. destruct Hb.
  - rewrite get_method_S_ref in H.
    destruct (search_object (override_target ov) dev) as [tgt|]; [|discriminate].
    destruct ov as [t off rep|t acc addr own reset rep|t addr own rep]; destruct tgt as [c' n' off' rep' ch'|rg'|cm'|bf'|c' n' ov'];
      cbn [apply_override] in H; try discriminate.
    + injection H as _ <-. destruct Hb.
    + destruct f as [|f]; [discriminate|]. cbn in H. injection H as _ <-. destruct Hb.
    + destruct f as [|f]; [discriminate|]. cbn in H. injection H as _ <-. destruct Hb.
Qed.

Theorem lowered_methods_of_objects fx fuel dev_name objs bls :
  lower fx fuel dev_name objs = Ok bls ->
  forall b m, In b bls -> In m (b_methods b) -> method_of_object objs m.
Proof.
  unfold lower. destruct (lower_list (get_method fx fuel objs) objs) as [[ms bls0]|k] eqn:E; [|discriminate].
  intros H. injection H as <-. destruct (lower_list_inv _ _ _ _ E) as (HF & Hbl).
  intros b m [<-|Hb] Hm.
  - cbn [b_methods] in Hm. destruct (Forall2_in_r _ _ _ HF _ Hm) as (x & Hx & bl & Hg & _).
    exists x. split; [apply in_objs_flat; exact Hx|]. eapply get_method_lits; exact Hg.
  - destruct (Hbl b Hb) as (x & mx & bl & Hx & Hg & Hin).
    eapply (get_method_blocks fx objs fuel x mx bl); eauto. apply in_objs_flat. exact Hx.
Qed.

(* THE LEMMA FOR Emit.v: the address literal and the |stride| literal of every method of every lowered block are
   representable in the internal type (and so is count-1, the largest index) *)
Theorem internal_type_at_covers_method_literals fx fl fw dev_name d bls it :
  lower fx fl dev_name (d_objects d) = Ok bls -> internal_type_at fw d = Ok it ->
  forall b m, In b bls -> In m (b_methods b) ->
    in_range it (m_address m) = true /\
    forall r, m_repeat m = Some r ->
      in_range it (Z.abs (r_stride r)) = true /\ in_range it (Z.max (r_count r - 1) 0) = true /\
      in_range it (Z.max (r_count r - 1) 0 * Z.abs (r_stride r)) = true.
Proof.
  intros Hl Hit b m Hb Hm. destruct (lowered_methods_of_objects _ _ _ _ _ Hl b m Hb Hm) as (o & Ho & Hea & Her).
  destruct (internal_type_at_covers _ _ _ Hit) as (_ & _ & _ & _ & _ & _ & _ & Hvals).
  assert (Hv : forall v, In v (object_it_values (d_objects d) o) -> in_range it v = true) by (intros v; apply Hvals; exact Ho).
  unfold object_it_values in Hv. rewrite Hea, Her in Hv. cbn zeta in Hv.
  split; [apply Hv; cbn; auto|]. intros r Hr. rewrite Hr in Hv. repeat split; apply Hv; cbn; auto.
Qed.

(* the same for [internal_type] (default fuel), the function Emit.v calls *)
Theorem internal_type_covers_method_literals fx fl dev_name d bls it :
  lower fx fl dev_name (d_objects d) = Ok bls -> internal_type d = Ok it ->
  forall b m, In b bls -> In m (b_methods b) ->
    in_range it (m_address m) = true /\
    forall r, m_repeat m = Some r ->
      in_range it (Z.abs (r_stride r)) = true /\ in_range it (Z.max (r_count r - 1) 0) = true /\
      in_range it (Z.max (r_count r - 1) 0 * Z.abs (r_stride r)) = true.
Proof. unfold internal_type. apply internal_type_at_covers_method_literals. Qed.

(* ---- the hypothesis [root_name_fresh] is necessary: a block named like the device (D11b) ---- *)

Definition dev_named_block : list object :=
  [OBlock None "Dev" 0 None
     [ORegister {| rg_cfg := None; rg_name := "X"; rg_access := RW; rg_byte_order := None; rg_bit_order := BiLSB0;
                   rg_allow_bit_overlap := false; rg_allow_address_overlap := false; rg_address := 1;
                   rg_size_bits := 8; rg_reset := None; rg_repeat := None; rg_fields := [] |}]].

Definition dev_named_blocks : list lblock :=
  [{| b_name := "Dev"; b_root := true;
      b_methods := [{| m_name := "Dev"; m_kind := MBlock "Dev"; m_address := 0; m_repeat := None; m_allow := false |}] |};
   {| b_name := "Dev"; b_root := false;
      b_methods := [{| m_name := "X"; m_kind := MLeaf KRegister; m_address := 1; m_repeat := None; m_allow := false |}] |}].

Lemma dev_named_block_lowering : lower false 5 "Dev" dev_named_block = Ok dev_named_blocks.
Proof. vm_compute. reflexivity. Qed.

(* the sub-block lookup by name finds the ROOT block first: the expansion re-enters the root for ever *)
Lemma dev_named_block_diverges : forall fuel stack,
  claimed_methods fuel dev_named_blocks
    [{| m_name := "Dev"; m_kind := MBlock "Dev"; m_address := 0; m_repeat := None; m_allow := false |}] 0 stack
  = Fail OutOfFuel.
Proof.
  induction fuel as [|f IH]; intros stack; [reflexivity|].
  rewrite claimed_methods_S. cbn [map]. unfold claimed_one. cbn [m_address m_repeat m_kind].
  change (find_block "Dev" dev_named_blocks) with
    (Some {| b_name := "Dev"%string; b_root := true;
             b_methods := [{| m_name := "Dev"%string; m_kind := MBlock "Dev"; m_address := 0; m_repeat := None; m_allow := false |}] |}).
  unfold rep_count, rep_stride. rewrite zrange_1. cbn [map b_methods].
  replace (0 + 0 + 0 * 0) with 0 by lia. replace (0 + 0) with 0 by lia.
  rewrite IH. reflexivity.
Qed.

Theorem block_named_as_device_never_terminates : forall fuel,
  overlap_pass fuel dev_named_blocks = Fail OutOfFuel.
Proof.
  intros fuel. unfold overlap_pass. cbn [root_methods find dev_named_blocks b_root b_methods].
  rewrite dev_named_block_diverges. reflexivity.
Qed.
