(* DetermProofs.v — proofs about the model in Determ.v (C20). *)
From Coq Require Import List Bool String Ascii ZArith Permutation Lia.
From DD Require Import Common Determ.
Import ListNotations.
Open Scope string_scope.
Open Scope list_scope.

(* ------------------------------------------------------------------------------------------ *)
(** * Generic list / permutation facts *)

Lemma perm_filter {A} (f : A -> bool) (l l' : list A) :
  Permutation l l' -> Permutation (filter f l) (filter f l').
Proof.
  induction 1; cbn.
  - constructor.
  - destruct (f x); [constructor|]; assumption.
  - destruct (f x), (f y); try apply Permutation_refl; apply perm_swap.
  - eapply Permutation_trans; eassumption.
Qed.

Lemma filter_rev' {A} (f : A -> bool) (l : list A) : filter f (rev l) = rev (filter f l).
Proof.
  induction l as [|a l IH]; cbn; [reflexivity|].
  rewrite filter_app, IH. cbn. destruct (f a); cbn; [reflexivity|apply app_nil_r].
Qed.

Lemma hs_mem_in x s : hs_mem x s = true <-> In x s.
Proof.
  unfold hs_mem. rewrite existsb_exists. split.
  - intros [y [Hy He]]. apply String.eqb_eq in He. subst. assumption.
  - intros H. exists x. split; [assumption|apply String.eqb_refl].
Qed.

Lemma hs_mem_perm x s s' : Permutation s s' -> hs_mem x s = hs_mem x s'.
Proof.
  intros P. apply eq_true_iff_eq. rewrite !hs_mem_in.
  split; apply Permutation_in; [assumption|apply Permutation_sym; assumption].
Qed.

Lemma uid_eqb_eq a b : uid_eqb a b = true <-> a = b.
Proof.
  destruct a as [a1 a2], b as [b1 b2]. unfold uid_eqb; cbn.
  rewrite andb_true_iff, !String.eqb_eq. split; [intros [-> ->]; reflexivity|intros [= -> ->]; split; reflexivity].
Qed.

Lemma uid_eqb_refl a : uid_eqb a a = true.
Proof. apply uid_eqb_eq. reflexivity. Qed.

(* ------------------------------------------------------------------------------------------ *)
(** * By-key operations do not observe the layout *)

Section ByKey.
  Context {K V : Type} (keqb : K -> K -> bool).
  Hypothesis keqb_eq : forall a b, keqb a b = true <-> a = b.

  Lemma hm_get_some_in k v (m : list (K * V)) : hm_get keqb k m = Some v -> In (k, v) m.
  Proof.
    induction m as [|[k' v'] r IH]; cbn; [discriminate|].
    destruct (keqb k k') eqn:E.
    - intros [= ->]. apply keqb_eq in E. subst. left; reflexivity.
    - intros H. right. apply IH, H.
  Qed.

  Lemma hm_get_in k v (m : list (K * V)) : NoDup (map fst m) -> In (k, v) m -> hm_get keqb k m = Some v.
  Proof.
    induction m as [|[k' v'] r IH]; cbn; [contradiction|].
    intros ND [H|H].
    - injection H as -> ->. replace (keqb k k) with true by (symmetry; apply keqb_eq; reflexivity). reflexivity.
    - inversion ND as [|? ? Hn ND']; subst.
      destruct (keqb k k') eqn:E.
      + apply keqb_eq in E. subst. exfalso. apply Hn. apply (in_map fst) in H. exact H.
      + apply IH; assumption.
  Qed.

  Lemma nodup_keys_perm (m m' : list (K * V)) : Permutation m m' -> NoDup (map fst m) -> NoDup (map fst m').
  Proof. intros P. apply Permutation_NoDup, Permutation_map, P. Qed.

  Lemma hm_get_perm k (m m' : list (K * V)) :
    NoDup (map fst m) -> Permutation m m' -> hm_get keqb k m = hm_get keqb k m'.
  Proof.
    intros ND P. pose proof (nodup_keys_perm _ _ P ND) as ND'.
    destruct (hm_get keqb k m) as [v|] eqn:E.
    - symmetry. apply hm_get_in; [assumption|]. eapply Permutation_in; [exact P|]. apply hm_get_some_in, E.
    - destruct (hm_get keqb k m') as [v|] eqn:E'; [|reflexivity].
      apply hm_get_some_in in E'. apply (Permutation_in _ (Permutation_sym P)) in E'.
      apply (hm_get_in _ _ _ ND) in E'. congruence.
  Qed.

  Lemma nodup_keys_filter (f : K * V -> bool) (m : list (K * V)) :
    NoDup (map fst m) -> NoDup (map fst (filter f m)).
  Proof.
    induction m as [|e r IH]; cbn; [trivial|].
    intros ND. inversion ND as [|? ? Hn ND']; subst.
    destruct (f e); cbn; [|apply IH, ND'].
    constructor; [|apply IH, ND'].
    intros H. apply Hn. apply in_map_iff in H as [x [Hx Hi]]. apply filter_In in Hi as [Hi _].
    apply in_map_iff. exists x. split; assumption.
  Qed.

  (* remove: same value handed out, remaining contents the same map *)
  Lemma hm_remove_perm k (m m' : list (K * V)) :
    NoDup (map fst m) -> Permutation m m' ->
    snd (hm_remove keqb k m) = snd (hm_remove keqb k m') /\
    Permutation (fst (hm_remove keqb k m)) (fst (hm_remove keqb k m')) /\
    NoDup (map fst (fst (hm_remove keqb k m))).
  Proof.
    intros ND P. unfold hm_remove; cbn [fst snd]. repeat split.
    - apply hm_get_perm; assumption.
    - apply perm_filter, P.
    - apply nodup_keys_filter, ND.
  Qed.

  Lemma hm_insert_keys k v (m : list (K * V)) x :
    In x (map fst (fst (hm_insert keqb k v m))) -> x = k \/ In x (map fst m).
  Proof.
    induction m as [|[k' v'] r IH]; cbn.
    - intros [H|[]]. left; congruence.
    - destruct (keqb k k') eqn:E; cbn.
      + intros H. right. exact H.
      + destruct (hm_insert keqb k v r) as [r' old] eqn:Er. cbn in *. intros [H|H].
        * right; left; exact H.
        * destruct (IH H) as [H'|H']; [left; exact H'|right; right; exact H'].
  Qed.

  Lemma hm_insert_nodup k v (m : list (K * V)) :
    NoDup (map fst m) -> NoDup (map fst (fst (hm_insert keqb k v m))).
  Proof.
    induction m as [|[k' v'] r IH]; cbn.
    - intros _. constructor; [intros []|constructor].
    - intros ND. inversion ND as [|? ? Hn ND']; subst.
      destruct (keqb k k') eqn:E; cbn.
      + constructor; assumption.
      + pose proof (hm_insert_keys k v r) as HK.
        destruct (hm_insert keqb k v r) as [r' old] eqn:Er. cbn in *.
        constructor; [|apply IH, ND'].
        intros H. destruct (HK _ H) as [H'|H'].
        * subst. assert (keqb k k = true) by (apply keqb_eq; reflexivity). congruence.
        * apply Hn, H'.
  Qed.

  (* insert answers (previous value) the same on every layout of the same map *)
  Lemma hm_insert_old k v (m : list (K * V)) : snd (hm_insert keqb k v m) = hm_get keqb k m.
  Proof.
    induction m as [|[k' v'] r IH]; cbn; [reflexivity|].
    destruct (keqb k k'); cbn; [reflexivity|].
    destruct (hm_insert keqb k v r) as [r' old]. cbn in *. exact IH.
  Qed.
End ByKey.

(* ------------------------------------------------------------------------------------------ *)
(** * refs_validated *)

Lemma first_dangling_real_ext k real real' es :
  (forall x, hs_mem x real = hs_mem x real') -> first_dangling k real es = first_dangling k real' es.
Proof.
  intros H. induction es as [|[t r] es IH]; cbn; [reflexivity|]. rewrite H, IH. reflexivity.
Qed.

Definition dang (real : list string) (e : string * string) : bool := negb (hs_mem (fst e) real).
Definition mkerr (k : rkind) (e : string * string) : gen_error := ERefUnknown k (snd e) (fst e).

Lemma first_dangling_hd k real es :
  first_dangling k real es = hd_error (map (mkerr k) (filter (dang real) es)).
Proof.
  induction es as [|[t r] es IH]; cbn; [reflexivity|]. unfold dang at 1; cbn.
  destruct (hs_mem t real); cbn; [exact IH|reflexivity].
Qed.

Lemma dangling_of_eq k c : dangling_of k c = map (mkerr k) (filter (dang (sel k (c_real c))) (sel k (c_refs c))).
Proof. reflexivity. Qed.

Lemma check_kind_eq o c k : orders_ok o ->
  check_kind o c k = hd_error (map (mkerr k) (filter (dang (sel k (c_real c))) (ord_refs o k (sel k (c_refs c))))).
Proof.
  intros [_ [Hreal _]]. unfold check_kind.
  rewrite (first_dangling_real_ext k _ (sel k (c_real c))).
  - apply first_dangling_hd.
  - intros x. apply hs_mem_perm, Hreal.
Qed.

Lemma check_kind_perm o c k : orders_ok o ->
  exists l, check_kind o c k = hd_error l /\ Permutation l (dangling_of k c).
Proof.
  intros Hok. eexists. split; [apply check_kind_eq, Hok|].
  rewrite dangling_of_eq. apply Permutation_map, perm_filter. destruct Hok as [H _]. apply H.
Qed.

Lemma check_kind_none o c k : orders_ok o -> dangling_of k c = [] -> check_kind o c k = None.
Proof.
  intros Hok E. destruct (check_kind_perm o c k Hok) as [l [-> P]]. rewrite E in P.
  apply Permutation_sym, Permutation_nil in P. subst. reflexivity.
Qed.

Lemma check_kind_some o c k : orders_ok o -> dangling_of k c <> [] ->
  exists e, check_kind o c k = Some e /\ In e (dangling_of k c).
Proof.
  intros Hok NE. destruct (check_kind_perm o c k Hok) as [l [-> P]].
  destruct l as [|e l].
  - apply Permutation_nil in P. congruence.
  - exists e. split; [reflexivity|]. eapply Permutation_in; [exact P|left; reflexivity].
Qed.

(* refs_validated under any admissible order: accepts iff there is no candidate, otherwise
   rejects with one of the candidates *)
Lemma refs_validated_spec o d : orders_ok o ->
  (candidate_errors d = [] /\ refs_validated o d = Accept tt) \/
  (exists e, In e (candidate_errors d) /\ refs_validated o d = Reject e).
Proof.
  intros Hok. unfold candidate_errors, refs_validated.
  set (c := collect d).
  destruct (dangling_of KBlock c) as [|eb lb] eqn:EB.
  - rewrite (check_kind_none o c KBlock Hok EB).
    destruct (dangling_of KRegister c) as [|er lr] eqn:ER.
    + rewrite (check_kind_none o c KRegister Hok ER).
      destruct (dangling_of KCommand c) as [|ec lc] eqn:EC.
      * rewrite (check_kind_none o c KCommand Hok EC). left; split; reflexivity.
      * destruct (check_kind_some o c KCommand Hok) as [e [-> Hin]]; [rewrite EC; discriminate|].
        right. exists e. rewrite EC in Hin. split; [exact Hin|reflexivity].
    + destruct (check_kind_some o c KRegister Hok) as [e [-> Hin]]; [rewrite ER; discriminate|].
      right. exists e. rewrite ER in Hin. split; [exact Hin|reflexivity].
  - destruct (check_kind_some o c KBlock Hok) as [e [-> Hin]]; [rewrite EB; discriminate|].
    right. exists e. rewrite EB in Hin. split; [exact Hin|reflexivity].
Qed.

Lemma refs_validated_accept_indep o1 o2 d : orders_ok o1 -> orders_ok o2 ->
  is_accept (refs_validated o1 d) = true -> refs_validated o2 d = refs_validated o1 d.
Proof.
  intros H1 H2 A.
  destruct (refs_validated_spec o1 d H1) as [[E R1]|[e [Hin R1]]]; rewrite R1 in *; [|discriminate].
  destruct (refs_validated_spec o2 d H2) as [[_ R2]|[e [Hin R2]]]; [exact R2|].
  rewrite E in Hin. destruct Hin.
Qed.

Lemma refs_validated_single o1 o2 d : orders_ok o1 -> orders_ok o2 ->
  (List.length (candidate_errors d) <= 1)%nat -> refs_validated o1 d = refs_validated o2 d.
Proof.
  intros H1 H2 L.
  destruct (refs_validated_spec o1 d H1) as [[E R1]|[e1 [Hin1 R1]]];
  destruct (refs_validated_spec o2 d H2) as [[E2 R2]|[e2 [Hin2 R2]]]; rewrite R1, R2.
  - reflexivity.
  - rewrite E in Hin2. destruct Hin2.
  - rewrite E2 in Hin1. destruct Hin1.
  - destruct (candidate_errors d) as [|a [|b l]]; cbn in *; try lia; try contradiction.
    destruct Hin1 as [<-|[]], Hin2 as [<-|[]]. reflexivity.
Qed.

Lemma refs_validated_never_aborts o d k : orders_ok o -> refs_validated o d <> Abort k.
Proof.
  intros Hok. destruct (refs_validated_spec o d Hok) as [[_ R]|[e [_ R]]]; rewrite R; discriminate.
Qed.

(* ------------------------------------------------------------------------------------------ *)
(** * With two or more candidates the order does show: identity vs reversed enumeration *)

Lemma orders_id_ok : orders_ok orders_id.
Proof. repeat split; intros; apply Permutation_refl. Qed.

Lemma orders_rev_ok : orders_ok orders_rev.
Proof. repeat split; intros; cbn; apply Permutation_sym, Permutation_rev. Qed.

Lemma hm_insert_str_nodup k v (m : list (string * string)) :
  NoDup (map fst m) -> NoDup (map fst (fst (hm_insert String.eqb k v m))).
Proof. apply hm_insert_nodup. apply String.eqb_eq. Qed.

Definition refs_nodup (c : collected) : Prop := forall k, NoDup (map fst (sel k (c_refs c))).

Lemma collect_step_nodup c o : refs_nodup c -> refs_nodup (collect_step c o).
Proof.
  intros H. unfold collect_step. destruct (o_kind o) as [| | | |k t r]; try exact H.
  intros k'. cbn. destruct (c_refs c) as [[b rg] cm] eqn:E.
  pose proof (H KBlock) as HB. pose proof (H KRegister) as HR. pose proof (H KCommand) as HC.
  rewrite E in HB, HR, HC. cbn in HB, HR, HC.
  destruct k, k'; cbn; try assumption; apply hm_insert_str_nodup; assumption.
Qed.

Lemma fold_collect_nodup d c : refs_nodup c -> refs_nodup (fold_left collect_step d c).
Proof.
  revert c. induction d as [|o d IH]; cbn; intros c H; [exact H|]. apply IH, collect_step_nodup, H.
Qed.

Lemma collect_nodup d : refs_nodup (collect d).
Proof. apply fold_collect_nodup. intros k. destruct k; cbn; constructor. Qed.

Lemma mkerr_inj k a b : mkerr k a = mkerr k b -> a = b.
Proof. destruct a, b. unfold mkerr; cbn. intros [= -> ->]. reflexivity. Qed.

Lemma dangling_of_nodup d k : NoDup (dangling_of k (collect d)).
Proof.
  rewrite dangling_of_eq.
  assert (NoDup (filter (dang (sel k (c_real (collect d)))) (sel k (c_refs (collect d))))) as ND.
  { apply NoDup_filter. eapply NoDup_map_inv. apply collect_nodup. }
  revert ND. generalize (filter (dang (sel k (c_real (collect d)))) (sel k (c_refs (collect d)))).
  induction l as [|a l IH]; cbn; intros ND; [constructor|].
  inversion ND as [|? ? Hn ND']; subst. constructor; [|apply IH, ND'].
  intros H. apply in_map_iff in H as [x [Hx Hi]]. apply mkerr_inj in Hx. subst. contradiction.
Qed.

Lemma hd_rev_differs {A} (a b : A) (l : list A) : NoDup (a :: b :: l) ->
  exists z, hd_error (rev (a :: b :: l)) = Some z /\ z <> a.
Proof.
  intros ND. inversion ND as [|? ? Hn _]; subst.
  change (rev (a :: b :: l)) with (rev (b :: l) ++ [a]).
  destruct (rev (b :: l)) as [|z r] eqn:E.
  - apply (f_equal (@List.length A)) in E. rewrite rev_length in E. discriminate.
  - exists z. split; [reflexivity|].
    intros ->. apply Hn. apply in_rev. rewrite E. left; reflexivity.
Qed.

Lemma check_kind_id c k : check_kind orders_id c k = hd_error (dangling_of k c).
Proof. rewrite (check_kind_eq _ _ _ orders_id_ok). reflexivity. Qed.

Lemma check_kind_rev c k : check_kind orders_rev c k = hd_error (rev (dangling_of k c)).
Proof.
  rewrite (check_kind_eq _ _ _ orders_rev_ok). cbn [orders_rev ord_refs].
  rewrite filter_rev', map_rev. reflexivity.
Qed.

Lemma refs_validated_two_orders d : (2 <= List.length (candidate_errors d))%nat ->
  refs_validated orders_id d <> refs_validated orders_rev d.
Proof.
  unfold candidate_errors, refs_validated. set (c := collect d).
  rewrite !check_kind_id, !check_kind_rev.
  pose proof (dangling_of_nodup d KBlock) as NB.
  pose proof (dangling_of_nodup d KRegister) as NR.
  pose proof (dangling_of_nodup d KCommand) as NC. fold c in NB, NR, NC.
  destruct (dangling_of KBlock c) as [|a [|b l]] eqn:EB.
  - cbn [rev hd_error].
    destruct (dangling_of KRegister c) as [|a [|b l]] eqn:ER.
    + cbn [rev hd_error].
      destruct (dangling_of KCommand c) as [|a [|b l]] eqn:EC; cbn [List.length]; try lia.
      intros _. destruct (hd_rev_differs a b l NC) as [z [-> Hz]]. cbn [hd_error]. congruence.
    + cbn [List.length]; lia.
    + intros _. destruct (hd_rev_differs a b l NR) as [z [-> Hz]]. cbn [hd_error]. congruence.
  - cbn [List.length]; lia.
  - intros _. destruct (hd_rev_differs a b l NB) as [z [-> Hz]]. cbn [hd_error]. congruence.
Qed.

(* ------------------------------------------------------------------------------------------ *)
(** * reset_values_converted *)

Section ResetProofs.
  Variable conv : obj -> Z -> option Z.

  Lemma phase1_nodup d0 d m m' :
    NoDup (map fst m) -> reset_phase1 conv d0 d m = Accept m' -> NoDup (map fst m').
  Proof.
    revert m. induction d as [|o d IH]; cbn; intros m ND.
    - intros [= <-]. exact ND.
    - destruct (o_kind o) as [|[v|]| | |k t [v|]]; try (apply IH; exact ND).
      + destruct (conv o v) as [v'|]; [|discriminate].
        pose proof (hm_insert_nodup uid_eqb uid_eqb_eq (o_id o) v' m ND) as ND'.
        destruct (hm_insert uid_eqb (o_id o) v' m) as [m1 old]. cbn in ND'.
        destruct old; [discriminate|]. apply IH, ND'.
      + destruct k; try (apply IH; exact ND).
        destruct (search_object t d0) as [base|]; [|discriminate].
        destruct (o_kind base); try discriminate.
        destruct (conv base v) as [v'|]; [|discriminate].
        apply IH. apply hm_insert_nodup; [apply uid_eqb_eq|exact ND].
      + destruct k; apply IH; exact ND.
  Qed.

  Lemma phase2_perm d : forall m m',
    NoDup (map fst m) -> Permutation m m' ->
    fst (reset_phase2 m d) = fst (reset_phase2 m' d) /\
    Permutation (snd (reset_phase2 m d)) (snd (reset_phase2 m' d)).
  Proof.
    induction d as [|o d IH]; intros m m' ND P; cbn.
    - split; [reflexivity|exact P].
    - destruct (hm_remove_perm uid_eqb uid_eqb_eq (o_id o) m m' ND P) as [Hv [Hp Hn]].
      unfold hm_remove in *. cbn [fst snd] in *.
      destruct (o_kind o) as [|r| | |k t r].
      + destruct (IH m m' ND P) as [H1 H2].
        destruct (reset_phase2 m d), (reset_phase2 m' d). cbn in *. subst. split; [reflexivity|assumption].
      + destruct (IH _ _ Hn Hp) as [H1 H2]. rewrite Hv.
        destruct (reset_phase2 (filter _ m) d), (reset_phase2 (filter _ m') d). cbn in *. subst.
        split; [reflexivity|assumption].
      + destruct (IH m m' ND P) as [H1 H2].
        destruct (reset_phase2 m d), (reset_phase2 m' d). cbn in *. subst. split; [reflexivity|assumption].
      + destruct (IH m m' ND P) as [H1 H2].
        destruct (reset_phase2 m d), (reset_phase2 m' d). cbn in *. subst. split; [reflexivity|assumption].
      + destruct k.
        * destruct (IH m m' ND P) as [H1 H2].
          destruct (reset_phase2 m d), (reset_phase2 m' d). cbn in *. subst. split; [reflexivity|assumption].
        * destruct (IH _ _ Hn Hp) as [H1 H2]. rewrite Hv.
          destruct (reset_phase2 (filter _ m) d), (reset_phase2 (filter _ m') d). cbn in *. subst.
          split; [reflexivity|assumption].
        * destruct (IH m m' ND P) as [H1 H2].
          destruct (reset_phase2 m d), (reset_phase2 m' d). cbn in *. subst. split; [reflexivity|assumption].
  Qed.

  (* the whole pass is independent of the layout of its map: accepted or not *)
  Lemma reset_values_converted_indep o1 o2 d : orders_ok o1 -> orders_ok o2 ->
    reset_values_converted conv o1 d = reset_values_converted conv o2 d.
  Proof.
    intros [_ [_ H1]] [_ [_ H2]]. unfold reset_values_converted.
    destruct (reset_phase1 conv d d []) as [m|e|k] eqn:E1; try reflexivity.
    assert (NoDup (map fst m)) as ND by (eapply phase1_nodup; [|exact E1]; constructor).
    assert (Permutation (ord_reset o1 m) (ord_reset o2 m)) as P
      by (eapply Permutation_trans; [apply H1|apply Permutation_sym, H2]).
    assert (NoDup (map fst (ord_reset o1 m))) as ND1
      by (eapply nodup_keys_perm; [apply Permutation_sym, H1|exact ND]).
    destruct (phase2_perm d _ _ ND1 P) as [Hd Hm].
    destruct (reset_phase2 (ord_reset o1 m) d) as [d1 m1], (reset_phase2 (ord_reset o2 m) d) as [d2 m2].
    cbn in *. subst d2.
    destruct m1 as [|x m1].
    - apply Permutation_nil in Hm. subst. reflexivity.
    - destruct m2 as [|y m2]; [apply Permutation_sym, Permutation_nil in Hm; discriminate|reflexivity].
  Qed.

  (* phase 2 changes reset values only: what refs_validated collects is untouched *)
  Definition same_shape (a b : obj) : Prop :=
    o_name a = o_name b /\
    match o_kind a, o_kind b with
    | OBlock, OBlock | OCommand, OCommand | OBuffer, OBuffer => True
    | ORegister _, ORegister _ => True
    | ORef k t _, ORef k' t' _ => k = k' /\ t = t'
    | _, _ => False
    end.

  Lemma same_shape_refl a : same_shape a a.
  Proof. split; [reflexivity|]. destruct (o_kind a); auto. Qed.

  Lemma collect_step_shape c a b : same_shape a b -> collect_step c a = collect_step c b.
  Proof.
    intros [Hn Hk]. unfold collect_step. rewrite Hn.
    destruct (o_kind a), (o_kind b); try contradiction; try reflexivity.
    destruct Hk as [-> ->]. reflexivity.
  Qed.

  Lemma fold_collect_shape d d' : Forall2 same_shape d d' ->
    forall c, fold_left collect_step d c = fold_left collect_step d' c.
  Proof.
    induction 1 as [|a b d d' Hab _ IH]; intros c; cbn; [reflexivity|].
    rewrite (collect_step_shape c a b Hab). apply IH.
  Qed.

  Lemma phase2_shape d : forall m, Forall2 same_shape d (fst (reset_phase2 m d)).
  Proof.
    induction d as [|o d IH]; intros m; cbn; [constructor|].
    unfold hm_remove; cbn [fst snd].
    destruct (o_kind o) as [|r| | |k t r] eqn:EK.
    - specialize (IH m). destruct (reset_phase2 m d). cbn in *. constructor; [apply same_shape_refl|exact IH].
    - match goal with |- context [reset_phase2 ?mm d] => specialize (IH mm); destruct (reset_phase2 mm d) end.
      cbn in *. constructor; [|exact IH].
      destruct (hm_get uid_eqb (o_id o) m); [|apply same_shape_refl].
      split; [reflexivity|]. cbn. rewrite EK. exact I.
    - specialize (IH m). destruct (reset_phase2 m d). cbn in *. constructor; [apply same_shape_refl|exact IH].
    - specialize (IH m). destruct (reset_phase2 m d). cbn in *. constructor; [apply same_shape_refl|exact IH].
    - destruct k.
      + specialize (IH m). destruct (reset_phase2 m d). cbn in *. constructor; [apply same_shape_refl|exact IH].
      + match goal with |- context [reset_phase2 ?mm d] => specialize (IH mm); destruct (reset_phase2 mm d) end.
        cbn in *. constructor; [|exact IH].
        destruct (hm_get uid_eqb (o_id o) m); [|apply same_shape_refl].
        split; [reflexivity|]. cbn. rewrite EK. split; reflexivity.
      + specialize (IH m). destruct (reset_phase2 m d). cbn in *. constructor; [apply same_shape_refl|exact IH].
  Qed.

  Lemma reset_accept_collect o d d' : reset_values_converted conv o d = Accept d' -> collect d' = collect d.
  Proof.
    unfold reset_values_converted.
    destruct (reset_phase1 conv d d []) as [m|e|k]; try discriminate.
    pose proof (phase2_shape d (ord_reset o m)) as HS.
    destruct (reset_phase2 (ord_reset o m) d) as [d1 m1]. cbn in HS.
    destruct m1; [|discriminate]. intros [= <-].
    unfold collect. symmetry. apply fold_collect_shape, HS.
  Qed.

  Lemma reset_accept_candidates o d d' :
    reset_values_converted conv o d = Accept d' -> candidate_errors d' = candidate_errors d.
  Proof. intros H. unfold candidate_errors. rewrite (reset_accept_collect o d d' H). reflexivity. Qed.

  (* ---------------------------------------------------------------------------------------- *)
  (** * The two passes together *)

  Theorem accepted_output_order_independent o1 o2 d : orders_ok o1 -> orders_ok o2 ->
    is_accept (hash_passes conv o1 d) = true -> hash_passes conv o2 d = hash_passes conv o1 d.
  Proof.
    intros H1 H2. unfold hash_passes.
    destruct (refs_validated o1 d) as [[]|e|k] eqn:E; try discriminate. intros _.
    assert (A : is_accept (refs_validated o1 d) = true) by (rewrite E; reflexivity).
    rewrite (refs_validated_accept_indep o1 o2 d H1 H2 A), E.
    apply reset_values_converted_indep; assumption.
  Qed.

  (* strongest general statement: two runs agree, or both are rejected by refs_validated with
     (possibly different) members of the candidate list *)
  Theorem outcome_order_characterised o1 o2 d : orders_ok o1 -> orders_ok o2 ->
    hash_passes conv o1 d = hash_passes conv o2 d \/
    exists e1 e2, hash_passes conv o1 d = Reject e1 /\ hash_passes conv o2 d = Reject e2 /\
                  In e1 (candidate_errors d) /\ In e2 (candidate_errors d) /\ e1 <> e2.
  Proof.
    intros H1 H2. unfold hash_passes.
    destruct (refs_validated_spec o1 d H1) as [[E R1]|[e1 [Hin1 R1]]];
    destruct (refs_validated_spec o2 d H2) as [[E2 R2]|[e2 [Hin2 R2]]]; rewrite R1, R2.
    - left. apply reset_values_converted_indep; assumption.
    - rewrite E in Hin2. destruct Hin2.
    - rewrite E2 in Hin1. destruct Hin1.
    - assert ({e1 = e2} + {e1 <> e2}) as [->|NE].
      { repeat decide equality. }
      + left; reflexivity.
      + right. exists e1, e2. repeat split; assumption.
  Qed.

  Theorem error_unique_when_single o1 o2 d : orders_ok o1 -> orders_ok o2 ->
    (List.length (candidate_errors d) <= 1)%nat -> hash_passes conv o1 d = hash_passes conv o2 d.
  Proof.
    intros H1 H2 L.
    destruct (outcome_order_characterised o1 o2 d H1 H2) as [E|[e1 [e2 [_ [_ [I1 [I2 NE]]]]]]]; [exact E|].
    exfalso. destruct (candidate_errors d) as [|a [|b l]]; cbn in *; try lia; try contradiction.
    destruct I1 as [<-|[]], I2 as [<-|[]]. apply NE. reflexivity.
  Qed.

  (* and conversely: two or more candidates -> the identity and the reversed enumeration disagree *)
  Theorem error_order_dependent_when_several d :
    is_accept (reset_values_converted conv orders_id d) = true ->
    (2 <= List.length (candidate_errors d))%nat ->
    hash_passes conv orders_id d <> hash_passes conv orders_rev d.
  Proof.
    intros _ L. unfold hash_passes.
    pose proof (refs_validated_two_orders d L) as NE.
    destruct (refs_validated_spec orders_id d orders_id_ok) as [[E R1]|[e1 [_ R1]]];
      [rewrite E in L; cbn in L; lia|].
    destruct (refs_validated_spec orders_rev d orders_rev_ok) as [[E2 R2]|[e2 [_ R2]]];
      [rewrite E2 in L; cbn in L; lia|].
    rewrite R1, R2 in *. intros H. apply NE. inversion H. reflexivity.
  Qed.
End ResetProofs.

(* ------------------------------------------------------------------------------------------ *)
(** * CLI *)

Section CliProofs.
  Context {T : Type}.
  Variable fs : string -> option string.
  Variable creatable : string -> bool.
  Variable lib : parser -> string -> option T.
  Variable pretty : T -> string.
  Variable is_error : T -> bool.
  (* what "the library reports an error" means at the level the tool can see it *)
  Hypothesis is_error_spec : forall t, is_error t = looks_like_compile_error (pretty t).

  Lemma cli_with_output i t s :
    library_output_for fs lib (ci_path i) = Some t -> chosen_sink creatable i = Some s ->
    r_writes (cli_run fs creatable lib pretty i) = [(s, pretty t)] /\
    (exit_status (r_stop (cli_run fs creatable lib pretty i)) = 0%Z <-> is_error t = false).
  Proof.
    unfold library_output_for, chosen_sink, cli_run.
    destruct (path_extension (ci_path i)) as [e|]; [|discriminate].
    destruct (fs (ci_path i)) as [content|]; [|discriminate].
    destruct (parser_of_ext e) as [p|]; [|discriminate].
    intros -> Hs. rewrite Hs. cbn [r_writes r_stop]. split; [reflexivity|].
    rewrite is_error_spec.
    destruct (looks_like_compile_error (pretty t)).
    - destruct (prefix strip_prefix_text (pretty t) && ends_with strip_suffix_text (pretty t))%bool; cbn;
        split; discriminate.
    - cbn. split; reflexivity.
  Qed.

  Lemma cli_without_output i :
    library_output_for fs lib (ci_path i) = None \/ chosen_sink creatable i = None ->
    r_writes (cli_run fs creatable lib pretty i) = [] /\
    exit_status (r_stop (cli_run fs creatable lib pretty i)) = 101%Z.
  Proof.
    unfold library_output_for, chosen_sink, cli_run.
    destruct (path_extension (ci_path i)) as [e|]; [|intros _; split; reflexivity].
    destruct (fs (ci_path i)) as [content|]; [|intros _; split; reflexivity].
    destruct (parser_of_ext e) as [p|]; [|intros _; split; reflexivity].
    destruct (lib p content) as [t|]; [|intros _; split; reflexivity].
    intros [H|H]; [discriminate|]. rewrite H. split; reflexivity.
  Qed.

  Theorem cli_status i :
    let r := cli_run fs creatable lib pretty i in
    (* 1: status 0 exactly when the library produced a non-error output (and the sink exists) *)
    (exit_status (r_stop r) = 0%Z <->
       exists t s, library_output_for fs lib (ci_path i) = Some t /\ chosen_sink creatable i = Some s /\
                   is_error t = false) /\
    (* 2: whatever the library produced (driver or compile_error!) is written, pretty printed, exactly
          once, to the chosen sink and nowhere else *)
    (forall t s, library_output_for fs lib (ci_path i) = Some t -> chosen_sink creatable i = Some s ->
                 r_writes r = [(s, pretty t)]) /\
    (* 3: a library error gives a non-zero status *)
    (forall t, library_output_for fs lib (ci_path i) = Some t -> is_error t = true ->
               exit_status (r_stop r) <> 0%Z) /\
    (* 4: no library output (no/unknown extension, unreadable file, DSL not tokenisable, library
          panic) or no sink: nothing is written, status non-zero *)
    (library_output_for fs lib (ci_path i) = None \/ chosen_sink creatable i = None ->
       r_writes r = [] /\ exit_status (r_stop r) <> 0%Z).
  Proof.
    cbv zeta. repeat split.
    - intros H0.
      destruct (library_output_for fs lib (ci_path i)) as [t|] eqn:EL.
      + destruct (chosen_sink creatable i) as [s|] eqn:ES.
        * exists t, s. repeat split. apply (cli_with_output i t s EL ES), H0.
        * destruct (cli_without_output i) as [_ H]; [right; exact ES|]. rewrite H in H0. discriminate.
      + destruct (cli_without_output i) as [_ H]; [left; exact EL|]. rewrite H in H0. discriminate.
    - intros [t [s [EL [ES HE]]]]. apply (cli_with_output i t s EL ES), HE.
    - intros t s EL ES. apply (cli_with_output i t s EL ES).
    - intros t EL HE H0.
      destruct (chosen_sink creatable i) as [s|] eqn:ES.
      + apply (cli_with_output i t s EL ES) in H0. congruence.
      + destruct (cli_without_output i) as [_ H]; [right; exact ES|]. rewrite H in H0. discriminate.
    - apply cli_without_output, H.
    - destruct (cli_without_output i H) as [_ H']. rewrite H'. discriminate.
  Qed.
End CliProofs.

(* ------------------------------------------------------------------------------------------ *)
(** * Dispatch: extension -> parser, path resolution, macro = CLI *)

Lemma parser_of_ext_spec e p :
  parser_of_ext e = Some p <->
  (e = "json" /\ p = PJson) \/ (e = "yaml" /\ p = PYaml) \/ (e = "toml" /\ p = PToml) \/ (e = "dsl" /\ p = PDsl).
Proof.
  unfold parser_of_ext.
  destruct (String.eqb_spec e "json") as [->|N1].
  { split; [intros [= <-]; left; split; reflexivity|]. intros [[_ ->]|[[H _]|[[H _]|[H _]]]]; try reflexivity; discriminate. }
  destruct (String.eqb_spec e "yaml") as [->|N2].
  { split; [intros [= <-]; right; left; split; reflexivity|]. intros [[H _]|[[_ ->]|[[H _]|[H _]]]]; try reflexivity; discriminate. }
  destruct (String.eqb_spec e "toml") as [->|N3].
  { split; [intros [= <-]; right; right; left; split; reflexivity|]. intros [[H _]|[[H _]|[[_ ->]|[H _]]]]; try reflexivity; discriminate. }
  destruct (String.eqb_spec e "dsl") as [->|N4].
  { split; [intros [= <-]; right; right; right; split; reflexivity|]. intros [[H _]|[[H _]|[[H _]|[_ ->]]]]; try reflexivity; discriminate. }
  split; [discriminate|]. intros [[H _]|[[H _]|[[H _]|[H _]]]]; contradiction.
Qed.

Lemma resolve_absolute root p : is_absolute p = true -> resolve root p = p.
Proof. unfold resolve. intros ->. reflexivity. Qed.

Lemma resolve_relative root p : is_absolute p = false -> ends_with_slash root = false -> root <> "" ->
  resolve root p = (root ++ "/" ++ p)%string.
Proof.
  unfold resolve, path_join. intros -> -> N. destruct (String.eqb_spec root "") as [->|_]; [contradiction|]. reflexivity.
Qed.

Section MacroProofs.
  Context {T : Type}.
  Variable fs : string -> option string.
  Variable root : string.
  Variable lib : parser -> string -> option T.

  Lemma macro_manifest_iff path t :
    macro_expand fs root lib (MManifest path) = MExpand t <->
    library_output_for fs lib (resolve root path) = Some t.
  Proof.
    unfold macro_expand, library_output_for, of_lib.
    destruct (fs (resolve root path)) as [content|].
    - destruct (path_extension (resolve root path)) as [e|]; [|split; discriminate].
      destruct (parser_of_ext e) as [p|]; [|split; discriminate].
      destruct (lib p content); split; try discriminate; intros [= ->]; reflexivity.
    - destruct (path_extension (resolve root path)); split; discriminate.
  Qed.

  Lemma macro_inline_iff tokens t :
    macro_expand fs root lib (MInline tokens) = MExpand t <-> lib PDsl tokens = Some t.
  Proof.
    cbn. unfold of_lib. destruct (lib PDsl tokens); split; try discriminate; intros [= ->]; reflexivity.
  Qed.

  (* the macro picks, for a manifest path, the parser the CLI picks for the resolved path; when it
     expands to library output t, the CLI run on the resolved path writes exactly pretty(t) *)
  Theorem macro_cli_agree creatable (pretty : T -> string) path out t s :
    macro_expand fs root lib (MManifest path) = MExpand t ->
    chosen_sink creatable {| ci_path := resolve root path; ci_out := out |} = Some s ->
    r_writes (cli_run fs creatable lib pretty {| ci_path := resolve root path; ci_out := out |}) = [(s, pretty t)].
  Proof.
    intros HM HS. apply macro_manifest_iff in HM.
    apply (cli_with_output fs creatable lib pretty (fun t => looks_like_compile_error (pretty t))
             (fun _ => eq_refl) {| ci_path := resolve root path; ci_out := out |} t s HM HS).
  Qed.

  (* on the dispatch itself *)
  Theorem manifest_dispatch path content e :
    fs (resolve root path) = Some content -> path_extension (resolve root path) = Some e ->
    macro_expand fs root lib (MManifest path) =
      match parser_of_ext e with
      | Some p => of_lib (lib p content)
      | None => MCompileError (MEUnknownExtension e)
      end /\
    library_output_for fs lib (resolve root path) =
      match parser_of_ext e with Some p => lib p content | None => None end.
  Proof.
    intros HF HE. unfold macro_expand, library_output_for. rewrite HF, HE. split; reflexivity.
  Qed.
End MacroProofs.

(* ------------------------------------------------------------------------------------------ *)
(** * Statements assembled for props/C20.v *)

Lemma bykey_operations_layout_independent :
  forall (k : uid) (m m' : list (uid * Z)),
    NoDup (map fst m) -> Permutation m m' ->
    hm_get uid_eqb k m = hm_get uid_eqb k m' /\
    snd (hm_remove uid_eqb k m) = snd (hm_remove uid_eqb k m') /\
    Permutation (fst (hm_remove uid_eqb k m)) (fst (hm_remove uid_eqb k m')) /\
    (forall x s s', Permutation s s' -> hs_mem x s = hs_mem x s').
Proof.
  intros k m m' ND P.
  destruct (hm_remove_perm uid_eqb uid_eqb_eq k m m' ND P) as [H1 [H2 _]].
  split; [exact (hm_get_perm uid_eqb uid_eqb_eq k m m' ND P)|].
  split; [exact H1|]. split; [exact H2|]. exact hs_mem_perm.
Qed.

Lemma error_order_dependent_when_several_ok :
  forall (conv : obj -> Z -> option Z) (d : device),
    is_accept (reset_values_converted conv orders_id d) = true ->
    (2 <= List.length (candidate_errors d))%nat ->
    orders_ok orders_id /\ orders_ok orders_rev /\
    hash_passes conv orders_id d <> hash_passes conv orders_rev d.
Proof.
  intros conv d A L. split; [exact orders_id_ok|]. split; [exact orders_rev_ok|].
  exact (error_order_dependent_when_several conv d A L).
Qed.

Lemma dispatch_on_extension :
  (forall e p, parser_of_ext e = Some p <->
       (e = "json" /\ p = PJson) \/ (e = "yaml" /\ p = PYaml) \/ (e = "toml" /\ p = PToml) \/ (e = "dsl" /\ p = PDsl)) /\
  (forall root p, is_absolute p = true -> resolve root p = p) /\
  (forall root p, is_absolute p = false -> ends_with_slash root = false -> root <> "" ->
                  resolve root p = (root ++ "/" ++ p)%string) /\
  (forall (T : Type) (fs : string -> option string) (root : string) (lib : parser -> string -> option T),
     (forall path content e,
        fs (resolve root path) = Some content -> path_extension (resolve root path) = Some e ->
        macro_expand fs root lib (MManifest path) =
          match parser_of_ext e with
          | Some p => of_lib (lib p content)
          | None => MCompileError (MEUnknownExtension e)
          end /\
        library_output_for fs lib (resolve root path) =
          match parser_of_ext e with Some p => lib p content | None => None end) /\
     (forall path t, macro_expand fs root lib (MManifest path) = MExpand t <->
                     library_output_for fs lib (resolve root path) = Some t) /\
     (forall tokens t, macro_expand fs root lib (MInline tokens) = MExpand t <-> lib PDsl tokens = Some t) /\
     (forall creatable (pretty : T -> string) path out t s,
        macro_expand fs root lib (MManifest path) = MExpand t ->
        chosen_sink creatable {| ci_path := resolve root path; ci_out := out |} = Some s ->
        r_writes (cli_run fs creatable lib pretty {| ci_path := resolve root path; ci_out := out |})
          = [(s, pretty t)])).
Proof.
  split; [exact parser_of_ext_spec|]. split; [exact resolve_absolute|]. split; [exact resolve_relative|].
  intros T fs root lib. split; [exact (manifest_dispatch fs root lib)|].
  split; [exact (macro_manifest_iff fs root lib)|]. split; [exact (macro_inline_iff fs root lib)|].
  exact (macro_cli_agree fs root lib).
Qed.

Definition d13_witness : device :=
  [ {| o_depth := 0; o_name := "A"; o_cfg := ""; o_kind := ORef KRegister "X1" None |};
    {| o_depth := 0; o_name := "B"; o_cfg := ""; o_kind := ORef KRegister "X2" None |} ].

Lemma error_order_refuted :
  exists (d : device) (o1 o2 : orders),
    orders_ok o1 /\ orders_ok o2 /\
    List.length (candidate_errors d) = 2%nat /\
    hash_passes (fun _ v => Some v) o1 d = Reject (ERefUnknown KRegister "A" "X1") /\
    hash_passes (fun _ v => Some v) o2 d = Reject (ERefUnknown KRegister "B" "X2").
Proof.
  exists d13_witness, orders_id, orders_rev.
  split; [exact orders_id_ok|]. split; [exact orders_rev_ok|].
  vm_compute. repeat split.
Qed.
