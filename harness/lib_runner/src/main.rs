//! C20 helper.  usage: lib_runner <listfile> <outdir> <threads> <reps>
//! listfile: one case per line  `id \t parser(json|yaml|toml|dsl) \t path \t device_name`
//! For every case the library entry point for that parser is called from `threads` threads,
//! `reps` times each (every HashMap::new() inside the library gets a fresh RandomState: the keys are
//! per-thread random and incremented per map).  Output line per case:
//!   id \t status(out|lexfail|panic|unreadable) \t tok_is_error(0|1) \t ndistinct \t nruns
//! and <outdir>/<id>.lib holds the first result's text, <outdir>/<id>.lib.<k> further distinct ones.
use std::collections::BTreeMap;
use std::io::Write;
use std::sync::Arc;

#[derive(Clone, PartialEq, Eq, PartialOrd, Ord, Debug)]
struct Outcome {
    status: String,
    tok_is_error: bool,
    text: String,
}

fn tokens_report_error(ts: &proc_macro2::TokenStream) -> bool {
    // decided on the token stream, not on the pretty-printed text: a top-level `compile_error !`
    let v: Vec<proc_macro2::TokenTree> = ts.clone().into_iter().collect();
    v.windows(2).any(|w| match (&w[0], &w[1]) {
        (proc_macro2::TokenTree::Ident(i), proc_macro2::TokenTree::Punct(p)) => {
            i == "compile_error" && p.as_char() == '!'
        }
        _ => false,
    })
}

fn run_one(parser: &str, text: &str, name: &str) -> Outcome {
    let r = std::panic::catch_unwind(|| {
        let tokens = match parser {
            "json" => device_driver_generation::transform_json(text, name),
            "yaml" => device_driver_generation::transform_yaml(text, name),
            "toml" => device_driver_generation::transform_toml(text, name),
            "dsl" => match syn::parse_str::<proc_macro2::TokenStream>(text) {
                Ok(ts) => device_driver_generation::transform_dsl(ts, name),
                Err(_) => {
                    return Outcome { status: "lexfail".into(), tok_is_error: false, text: String::new() }
                }
            },
            other => panic!("lib_runner: unknown parser {other}"),
        };
        let tok_is_error = tokens_report_error(&tokens);
        // exactly cli/src/main.rs
        let pretty = prettyplease::unparse(&syn::parse2(tokens).unwrap());
        Outcome { status: "out".into(), tok_is_error, text: pretty }
    });
    match r {
        Ok(o) => o,
        Err(e) => {
            let msg = e
                .downcast_ref::<String>()
                .cloned()
                .or_else(|| e.downcast_ref::<&str>().map(|s| s.to_string()))
                .unwrap_or_default();
            Outcome { status: "panic".into(), tok_is_error: false, text: msg }
        }
    }
}

/// `lib_runner <listfile> <outdir> hist <seed>`: is the output of an input independent of what the SAME THREAD generated
/// before it?  Every input is first generated on a fresh thread; then ONE long-lived thread generates all inputs in a
/// seeded shuffled order, in the reverse of that order and in list order, and every result is compared with the fresh one.
/// Output: `H \t id \t pass \t position \t id generated just before` per difference (the differing text goes to
/// <outdir>/<id>.hist), then `HSUMMARY \t runs \t differences`.
fn history_mode(list: &str, outdir: &std::path::Path, seed: u64) {
    std::panic::set_hook(Box::new(|_| {}));
    let mut cases: Vec<(String, String, Arc<String>, String)> = Vec::new();
    for line in list.lines() {
        let f: Vec<&str> = line.split('\t').collect();
        if f.len() != 4 {
            continue;
        }
        if let Ok(t) = std::fs::read_to_string(f[2]) {
            cases.push((f[0].to_string(), f[1].to_string(), Arc::new(t), f[3].to_string()));
        }
    }
    let mut fresh: Vec<Outcome> = Vec::new();
    for (_, parser, text, name) in &cases {
        let (parser, text, name) = (parser.clone(), text.clone(), name.clone());
        let h = std::thread::Builder::new().stack_size(32 << 20).spawn(move || run_one(&parser, &text, &name)).unwrap();
        fresh.push(h.join().expect("worker thread died"));
    }
    let n = cases.len();
    let mut order: Vec<usize> = (0..n).collect();
    let mut x = seed.wrapping_mul(0x9E3779B97F4A7C15) | 1;
    for i in (1..n).rev() {
        x ^= x << 13;
        x ^= x >> 7;
        x ^= x << 17;
        order.swap(i, (x % (i as u64 + 1)) as usize);
    }
    let mut passes: Vec<Vec<usize>> = vec![order.clone()];
    order.reverse();
    passes.push(order);
    passes.push((0..n).collect());
    let cases = Arc::new(cases);
    let cases2 = cases.clone();
    let passes2 = passes.clone();
    let h = std::thread::Builder::new()
        .stack_size(64 << 20)
        .spawn(move || {
            let mut res: Vec<Vec<Outcome>> = Vec::new();
            for p in &passes2 {
                res.push(p.iter().map(|&i| run_one(&cases2[i].1, &cases2[i].2, &cases2[i].3)).collect());
            }
            res
        })
        .unwrap();
    let res = h.join().expect("history thread died");
    let stdout = std::io::stdout();
    let mut out = stdout.lock();
    let (mut runs, mut diffs) = (0usize, 0usize);
    for (pi, p) in passes.iter().enumerate() {
        for (pos, &i) in p.iter().enumerate() {
            runs += 1;
            if res[pi][pos] != fresh[i] {
                diffs += 1;
                let prev = if pos > 0 { cases[p[pos - 1]].0.clone() } else { "-".to_string() };
                writeln!(out, "H\t{}\t{}\t{}\t{}", cases[i].0, pi, pos, prev).unwrap();
                std::fs::write(outdir.join(format!("{}.hist", cases[i].0)), res[pi][pos].text.as_bytes()).unwrap();
                std::fs::write(outdir.join(format!("{}.fresh", cases[i].0)), fresh[i].text.as_bytes()).unwrap();
            }
        }
    }
    writeln!(out, "HSUMMARY\t{runs}\t{diffs}").unwrap();
}

fn main() {
    let a: Vec<String> = std::env::args().collect();
    if a.len() != 5 {
        eprintln!("usage: lib_runner <listfile> <outdir> <threads> <reps>");
        std::process::exit(2);
    }
    let list = std::fs::read_to_string(&a[1]).expect("listfile");
    let outdir = std::path::PathBuf::from(&a[2]);
    if a[3] == "hist" {
        history_mode(&list, &outdir, a[4].parse().unwrap());
        return;
    }
    let threads: usize = a[3].parse().unwrap();
    let reps: usize = a[4].parse().unwrap();
    std::panic::set_hook(Box::new(|_| {}));
    let stdout = std::io::stdout();
    let mut out = stdout.lock();
    for line in list.lines() {
        let f: Vec<&str> = line.split('\t').collect();
        if f.len() != 4 {
            continue;
        }
        let (id, parser, path, name) = (f[0].to_string(), f[1].to_string(), f[2], f[3].to_string());
        let text = match std::fs::read_to_string(path) {
            Ok(t) => Arc::new(t),
            Err(_) => {
                writeln!(out, "{id}\tunreadable\t0\t0\t0").unwrap();
                continue;
            }
        };
        let mut handles = Vec::new();
        for _ in 0..threads {
            let (parser, text, name) = (parser.clone(), text.clone(), name.clone());
            handles.push(
                std::thread::Builder::new()
                    .stack_size(32 << 20)
                    .spawn(move || (0..reps).map(|_| run_one(&parser, &text, &name)).collect::<Vec<_>>())
                    .unwrap(),
            );
        }
        let mut all: Vec<Outcome> = Vec::new();
        for h in handles {
            all.extend(h.join().expect("worker thread died"));
        }
        let mut distinct: BTreeMap<Outcome, usize> = BTreeMap::new();
        let mut order: Vec<Outcome> = Vec::new();
        for o in &all {
            if !distinct.contains_key(o) {
                order.push(o.clone());
            }
            *distinct.entry(o.clone()).or_insert(0) += 1;
        }
        for (k, o) in order.iter().enumerate() {
            let p = if k == 0 { outdir.join(format!("{id}.lib")) } else { outdir.join(format!("{id}.lib.{k}")) };
            std::fs::write(p, o.text.as_bytes()).unwrap();
        }
        let first = &order[0];
        writeln!(out, "{id}\t{}\t{}\t{}\t{}", first.status, first.tok_is_error as u8, order.len(), all.len()).unwrap();
    }
}
