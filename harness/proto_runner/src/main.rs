//! Runs the protocol layers of device-driver (register.rs, command.rs, buffer.rs) against scripted
//! interfaces and prints one canonical line per case, in the same format as the extracted Coq
//! model's driver (/verif/ocaml/proto_driver.ml).  Used by ./check C05 | C09 | C10.
//!
//! Case lines (tokens separated by one space; hex lower case, `-` = empty):
//!   R <s|a> <size_bits> <addr> <reset_hex> <op.kind.pat[,op.kind.pat]*> <script>
//!       op: w write, z write_with_zero, r read, m modify; kind: x (xor pat into the register),
//!       s (overwrite the first bytes with pat); the closure returns the bytes it was shown.
//!       s = blocking functions, a = *_async functions.
//!   C <s|a> <n|i|o|b> <addr> <size_in> <size_out> <kind.pat> <script>
//!   B <s|a|t|u> <w|W|f|r|R> <addr> <buf_hex> <script>
//!       entry: s inherent blocking, a inherent async, t embedded_io trait, u embedded_io_async trait
//!       op: w write, W write_all, f flush, r read, R read_exact
//!   script: `-` or entry[,entry]*, entry = <res>:<data_hex>:<pendings>, res = k<n> (Ok / Ok(n)) | e<code>;
//!       the i-th interface call of the case gets the i-th entry (default k0:-:0); data is stored
//!       through the mutable slice of the call (if any), pendings = how often the interface future
//!       answers Pending.
//! Output: segment[ | segment]*, one segment per operation: `<events> => <result> p<polls>`.
use device_driver::{
    AsyncBufferInterface, AsyncCommandInterface, AsyncRegisterInterface, BufferInterface,
    BufferInterfaceError, BufferOperation, CommandInterface, CommandOperation, FieldSet,
    RegisterInterface, RegisterOperation, RW,
};
use std::cell::{Cell, RefCell};
use std::future::Future;
use std::io::{BufRead, BufWriter, Write};
use std::panic::{catch_unwind, AssertUnwindSafe};
use std::pin::{pin, Pin};
use std::task::{Context, Poll, RawWaker, RawWakerVTable, Waker};

// ---------------------------------------------------------------- helpers

fn hex_to_bytes(h: &str) -> Vec<u8> {
    if h == "-" {
        return Vec::new();
    }
    (0..h.len() / 2).map(|i| u8::from_str_radix(&h[2 * i..2 * i + 2], 16).unwrap()).collect()
}
fn hex(b: &[u8]) -> String {
    if b.is_empty() {
        return "-".to_string();
    }
    let mut s = String::with_capacity(b.len() * 2);
    for x in b {
        s.push_str(&format!("{:02x}", x));
    }
    s
}
fn store(dst: &mut [u8], src: &[u8]) {
    let n = dst.len().min(src.len());
    dst[..n].copy_from_slice(&src[..n]);
}

thread_local! {
    static LAST_PANIC: RefCell<String> = RefCell::new(String::new());
    static RESET: RefCell<Vec<u8>> = RefCell::new(Vec::new());
}

fn panic_kind() -> String {
    let msg = LAST_PANIC.with(|l| l.borrow().clone());
    if msg.contains("write() returned Ok(0)") {
        "PANIC:writezero".to_string()
    } else if msg.contains("out of range for slice") {
        "PANIC:slice".to_string()
    } else {
        format!("PANIC:other:{}", msg.replace(|c: char| c.is_whitespace() || c == '|', "_"))
    }
}

// ---------------------------------------------------------------- field sets

struct Fs<const BITS: u32, const N: usize>([u8; N]);
impl<const BITS: u32, const N: usize> FieldSet for Fs<BITS, N> {
    const SIZE_BITS: u32 = BITS;
    fn new_with_zero() -> Self {
        Fs([0; N])
    }
    fn get_inner_buffer(&self) -> &[u8] {
        &self.0
    }
    fn get_inner_buffer_mut(&mut self) -> &mut [u8] {
        &mut self.0
    }
}
trait WithReset: FieldSet {
    fn with_reset() -> Self;
}
impl<const BITS: u32, const N: usize> WithReset for Fs<BITS, N> {
    fn with_reset() -> Self {
        let mut a = [0u8; N];
        RESET.with(|r| store(&mut a, &r.borrow()));
        Fs(a)
    }
}

macro_rules! with_fs {
    ($sz:expr, $T:ident, $body:expr) => {
        match $sz {
            1 => { type $T = Fs<1, 1>; $body }
            7 => { type $T = Fs<7, 1>; $body }
            8 => { type $T = Fs<8, 1>; $body }
            9 => { type $T = Fs<9, 2>; $body }
            12 => { type $T = Fs<12, 2>; $body }
            16 => { type $T = Fs<16, 2>; $body }
            24 => { type $T = Fs<24, 3>; $body }
            64 => { type $T = Fs<64, 8>; $body }
            128 => { type $T = Fs<128, 16>; $body }
            other => panic!("unsupported field set size {}", other),
        }
    };
}

// ---------------------------------------------------------------- scripted interfaces

#[derive(Clone)]
struct Entry {
    res: Result<usize, u8>,
    data: Vec<u8>,
    pend: u32,
}
fn parse_script(s: &str) -> Vec<Entry> {
    if s == "-" {
        return Vec::new();
    }
    s.split(',')
        .map(|e| {
            let p: Vec<&str> = e.split(':').collect();
            let res = if let Some(n) = p[0].strip_prefix('k') {
                Ok(n.parse::<usize>().unwrap())
            } else {
                Err(p[0][1..].parse::<u8>().unwrap())
            };
            Entry { res, data: hex_to_bytes(p[1]), pend: p[2].parse().unwrap() }
        })
        .collect()
}

#[derive(Debug, Clone, Copy, PartialEq, Eq)]
struct MockErr(u8);
impl embedded_io::Error for MockErr {
    fn kind(&self) -> embedded_io::ErrorKind {
        // The error CODE is opaque to the code under test and must come back unchanged; its KIND varies with the
        // code so that an implementation treating some kinds specially (retrying on Interrupted, mapping WriteZero, ...)
        // is exercised: the scripted codes are drawn from 1..=255, so every kind occurs.
        use embedded_io::ErrorKind::*;
        const KINDS: [embedded_io::ErrorKind; 18] = [
            Other, NotFound, PermissionDenied, ConnectionRefused, ConnectionReset, ConnectionAborted, NotConnected,
            AddrInUse, AddrNotAvailable, BrokenPipe, AlreadyExists, InvalidInput, InvalidData, TimedOut, Interrupted,
            Unsupported, OutOfMemory, WriteZero,
        ];
        KINDS[self.0 as usize % KINDS.len()]
    }
}

struct Core<'a> {
    script: &'a [Entry],
    pos: &'a Cell<usize>,
    log: &'a RefCell<Vec<String>>,
}
impl Core<'_> {
    fn next(&self, ev: String) -> Entry {
        self.log.borrow_mut().push(ev);
        let i = self.pos.get();
        self.pos.set(i + 1);
        // a correct implementation stops at the first `Ok(0)` beyond the script; a call budget turns a
        // non-terminating loop in the code under test into an observable panic instead of a hung runner
        if i > self.script.len() + 64 {
            panic!("mock call budget exceeded: the operation does not terminate");
        }
        self.script.get(i).cloned().unwrap_or(Entry { res: Ok(0), data: Vec::new(), pend: 0 })
    }
}
fn unit(e: &Entry) -> Result<(), MockErr> {
    e.res.map(|_| ()).map_err(MockErr)
}
fn count(e: &Entry) -> Result<usize, MockErr> {
    e.res.map_err(MockErr)
}

struct SyncMock<'a>(Core<'a>);
struct AsyncMock<'a>(Core<'a>);

impl RegisterInterface for SyncMock<'_> {
    type Error = MockErr;
    type AddressType = u32;
    fn write_register(&mut self, address: u32, size_bits: u32, data: &[u8]) -> Result<(), MockErr> {
        let e = self.0.next(format!("rw({},{},{})", address, size_bits, hex(data)));
        unit(&e)
    }
    fn read_register(&mut self, address: u32, size_bits: u32, data: &mut [u8]) -> Result<(), MockErr> {
        let e = self.0.next(format!("rr({},{},{})", address, size_bits, hex(data)));
        store(data, &e.data);
        unit(&e)
    }
}
impl CommandInterface for SyncMock<'_> {
    type Error = MockErr;
    type AddressType = u32;
    fn dispatch_command(
        &mut self,
        address: u32,
        size_bits_in: u32,
        input: &[u8],
        size_bits_out: u32,
        output: &mut [u8],
    ) -> Result<(), MockErr> {
        let e = self.0.next(format!(
            "cd({},{},{},{},{})",
            address,
            size_bits_in,
            hex(input),
            size_bits_out,
            hex(output)
        ));
        store(output, &e.data);
        unit(&e)
    }
}
impl BufferInterfaceError for SyncMock<'_> {
    type Error = MockErr;
}
impl BufferInterface for SyncMock<'_> {
    type AddressType = u32;
    fn write(&mut self, address: u32, buf: &[u8]) -> Result<usize, MockErr> {
        let e = self.0.next(format!("bw({},{})", address, hex(buf)));
        count(&e)
    }
    fn flush(&mut self, address: u32) -> Result<(), MockErr> {
        let e = self.0.next(format!("bf({})", address));
        unit(&e)
    }
    fn read(&mut self, address: u32, buf: &mut [u8]) -> Result<usize, MockErr> {
        let e = self.0.next(format!("br({},{})", address, hex(buf)));
        store(buf, &e.data);
        count(&e)
    }
}

/// A future that answers Pending `0` times before it is Ready.
struct PendN(u32);
impl Future for PendN {
    type Output = ();
    fn poll(mut self: Pin<&mut Self>, cx: &mut Context<'_>) -> Poll<()> {
        if self.0 == 0 {
            Poll::Ready(())
        } else {
            self.0 -= 1;
            cx.waker().wake_by_ref();
            Poll::Pending
        }
    }
}

impl AsyncRegisterInterface for AsyncMock<'_> {
    type Error = MockErr;
    type AddressType = u32;
    async fn write_register(&mut self, address: u32, size_bits: u32, data: &[u8]) -> Result<(), MockErr> {
        let e = self.0.next(format!("rw({},{},{})", address, size_bits, hex(data)));
        PendN(e.pend).await;
        unit(&e)
    }
    async fn read_register(&mut self, address: u32, size_bits: u32, data: &mut [u8]) -> Result<(), MockErr> {
        let e = self.0.next(format!("rr({},{},{})", address, size_bits, hex(data)));
        PendN(e.pend).await;
        store(data, &e.data);
        unit(&e)
    }
}
impl AsyncCommandInterface for AsyncMock<'_> {
    type Error = MockErr;
    type AddressType = u32;
    async fn dispatch_command(
        &mut self,
        address: u32,
        size_bits_in: u32,
        input: &[u8],
        size_bits_out: u32,
        output: &mut [u8],
    ) -> Result<(), MockErr> {
        let e = self.0.next(format!(
            "cd({},{},{},{},{})",
            address,
            size_bits_in,
            hex(input),
            size_bits_out,
            hex(output)
        ));
        PendN(e.pend).await;
        store(output, &e.data);
        unit(&e)
    }
}
impl BufferInterfaceError for AsyncMock<'_> {
    type Error = MockErr;
}
impl AsyncBufferInterface for AsyncMock<'_> {
    type AddressType = u32;
    async fn write(&mut self, address: u32, buf: &[u8]) -> Result<usize, MockErr> {
        let e = self.0.next(format!("bw({},{})", address, hex(buf)));
        PendN(e.pend).await;
        count(&e)
    }
    async fn flush(&mut self, address: u32) -> Result<(), MockErr> {
        let e = self.0.next(format!("bf({})", address));
        PendN(e.pend).await;
        unit(&e)
    }
    async fn read(&mut self, address: u32, buf: &mut [u8]) -> Result<usize, MockErr> {
        let e = self.0.next(format!("br({},{})", address, hex(buf)));
        PendN(e.pend).await;
        store(buf, &e.data);
        count(&e)
    }
}

// ---------------------------------------------------------------- executor

fn noop_waker() -> Waker {
    fn clone(_: *const ()) -> RawWaker {
        RawWaker::new(std::ptr::null(), &VTABLE)
    }
    fn noop(_: *const ()) {}
    static VTABLE: RawWakerVTable = RawWakerVTable::new(clone, noop, noop, noop);
    unsafe { Waker::from_raw(RawWaker::new(std::ptr::null(), &VTABLE)) }
}

/// Polls `fut` until it is Ready; every call of `poll` is counted in `polls`.
fn block_on<F: Future>(fut: F, polls: &Cell<u32>) -> F::Output {
    let mut fut = pin!(fut);
    let waker = noop_waker();
    let mut cx = Context::from_waker(&waker);
    loop {
        polls.set(polls.get() + 1);
        if polls.get() > 1_000_000 {
            panic!("executor: future never became ready");
        }
        if let Poll::Ready(v) = fut.as_mut().poll(&mut cx) {
            return v;
        }
    }
}

// ---------------------------------------------------------------- closures and result formatting

#[derive(Clone)]
struct Effect {
    kind: char,
    pat: Vec<u8>,
}
impl Effect {
    fn parse(kind: &str, pat: &str) -> Effect {
        Effect { kind: kind.chars().next().unwrap(), pat: hex_to_bytes(pat) }
    }
    /// the closure body: returns what it was shown
    fn apply(&self, reg: &mut [u8]) -> Vec<u8> {
        let seen = reg.to_vec();
        let n = reg.len().min(self.pat.len());
        for i in 0..n {
            if self.kind == 'x' {
                reg[i] ^= self.pat[i];
            } else {
                reg[i] = self.pat[i];
            }
        }
        seen
    }
}

fn fmt_bytes_res(r: Result<Vec<u8>, MockErr>) -> String {
    match r {
        Ok(b) => format!("ok:{}", hex(&b)),
        Err(MockErr(k)) => format!("err:{}", k),
    }
}
fn fmt_unit_res(r: Result<(), MockErr>) -> String {
    match r {
        Ok(()) => "ok".to_string(),
        Err(MockErr(k)) => format!("err:{}", k),
    }
}
fn fmt_count_res(r: Result<usize, MockErr>, buf: &[u8]) -> String {
    match r {
        Ok(n) => format!("n:{}:{}", n, hex(buf)),
        Err(MockErr(k)) => format!("err:{}:{}", k, hex(buf)),
    }
}
fn fmt_rx_res(r: Result<(), embedded_io::ReadExactError<MockErr>>, buf: &[u8]) -> String {
    match r {
        Ok(()) => format!("rxok:{}", hex(buf)),
        Err(embedded_io::ReadExactError::UnexpectedEof) => format!("rxeof:{}", hex(buf)),
        Err(embedded_io::ReadExactError::Other(MockErr(k))) => format!("rxother:{}:{}", k, hex(buf)),
    }
}

/// Runs one operation, catching panics; returns the segment text and whether it panicked.
fn segment(log: &RefCell<Vec<String>>, polls: &Cell<u32>, f: impl FnOnce() -> String) -> (String, bool) {
    log.borrow_mut().clear();
    polls.set(0);
    let r = catch_unwind(AssertUnwindSafe(f));
    let events = {
        let l = log.borrow();
        if l.is_empty() { "-".to_string() } else { l.join(",") }
    };
    match r {
        Ok(res) => (format!("{} => {} p{}", events, res, polls.get()), false),
        Err(_) => (format!("{} => {} p{}", events, panic_kind(), polls.get()), true),
    }
}

// ---------------------------------------------------------------- registers

fn run_reg<T: WithReset>(is_async: bool, reuse: bool, addr: u32, ops: &[(char, Effect)], script: &[Entry]) -> String {
    let log = RefCell::new(Vec::new());
    let pos = Cell::new(0usize);
    let polls = Cell::new(0u32);
    let mut segs = Vec::new();
    if reuse {
        // ONE operation object for the whole sequence (`let mut op = dev.reg(); op.write(..); op.write(..)`): the
        // protocol is per call, nothing may be carried over from one call to the next
        if !is_async {
            let mut m = SyncMock(Core { script, pos: &pos, log: &log });
            let mut o = RegisterOperation::<_, u32, T, RW>::new(&mut m, addr, T::with_reset as fn() -> T);
            for (op, eff) in ops {
                let (seg, panicked) = segment(&log, &polls, || match op {
                    'w' => fmt_bytes_res(o.write(|r| eff.apply(r.get_inner_buffer_mut()))),
                    'z' => fmt_bytes_res(o.write_with_zero(|r| eff.apply(r.get_inner_buffer_mut()))),
                    'r' => fmt_bytes_res(o.read().map(|r| r.get_inner_buffer().to_vec())),
                    'm' => fmt_bytes_res(o.modify(|r| eff.apply(r.get_inner_buffer_mut()))),
                    _ => panic!("bad op"),
                });
                segs.push(seg);
                if panicked {
                    break;
                }
            }
        } else {
            let mut m = AsyncMock(Core { script, pos: &pos, log: &log });
            let mut o = RegisterOperation::<_, u32, T, RW>::new(&mut m, addr, T::with_reset as fn() -> T);
            for (op, eff) in ops {
                let (seg, panicked) = segment(&log, &polls, || match op {
                    'w' => fmt_bytes_res(block_on(o.write_async(|r| eff.apply(r.get_inner_buffer_mut())), &polls)),
                    'z' => fmt_bytes_res(block_on(
                        o.write_with_zero_async(|r| eff.apply(r.get_inner_buffer_mut())),
                        &polls,
                    )),
                    'r' => fmt_bytes_res(block_on(o.read_async(), &polls).map(|r| r.get_inner_buffer().to_vec())),
                    'm' => fmt_bytes_res(block_on(o.modify_async(|r| eff.apply(r.get_inner_buffer_mut())), &polls)),
                    _ => panic!("bad op"),
                });
                segs.push(seg);
                if panicked {
                    break;
                }
            }
        }
        return segs.join(" | ");
    }
    for (op, eff) in ops {
        let (seg, panicked) = segment(&log, &polls, || {
            if !is_async {
                let mut m = SyncMock(Core { script, pos: &pos, log: &log });
                let mut o = RegisterOperation::<_, u32, T, RW>::new(&mut m, addr, T::with_reset as fn() -> T);
                match op {
                    'w' => fmt_bytes_res(o.write(|r| eff.apply(r.get_inner_buffer_mut()))),
                    'z' => fmt_bytes_res(o.write_with_zero(|r| eff.apply(r.get_inner_buffer_mut()))),
                    'r' => fmt_bytes_res(o.read().map(|r| r.get_inner_buffer().to_vec())),
                    'm' => fmt_bytes_res(o.modify(|r| eff.apply(r.get_inner_buffer_mut()))),
                    _ => panic!("bad op"),
                }
            } else {
                let mut m = AsyncMock(Core { script, pos: &pos, log: &log });
                let mut o = RegisterOperation::<_, u32, T, RW>::new(&mut m, addr, T::with_reset as fn() -> T);
                match op {
                    'w' => fmt_bytes_res(block_on(o.write_async(|r| eff.apply(r.get_inner_buffer_mut())), &polls)),
                    'z' => fmt_bytes_res(block_on(
                        o.write_with_zero_async(|r| eff.apply(r.get_inner_buffer_mut())),
                        &polls,
                    )),
                    'r' => fmt_bytes_res(block_on(o.read_async(), &polls).map(|r| r.get_inner_buffer().to_vec())),
                    'm' => fmt_bytes_res(block_on(o.modify_async(|r| eff.apply(r.get_inner_buffer_mut())), &polls)),
                    _ => panic!("bad op"),
                }
            }
        });
        segs.push(seg);
        if panicked {
            break;
        }
    }
    segs.join(" | ")
}

fn case_reg(p: &[&str]) -> String {
    // "s" / "a": a fresh operation object per call; "S" / "A": one operation object for the whole sequence
    let is_async = p[1] == "a" || p[1] == "A";
    let reuse = p[1] == "S" || p[1] == "A";
    let size: u32 = p[2].parse().unwrap();
    let addr: u32 = p[3].parse().unwrap();
    let reset = hex_to_bytes(p[4]);
    RESET.with(|r| *r.borrow_mut() = reset);
    let ops: Vec<(char, Effect)> = p[5]
        .split(',')
        .map(|o| {
            let q: Vec<&str> = o.split('.').collect();
            (q[0].chars().next().unwrap(), Effect::parse(q[1], q[2]))
        })
        .collect();
    let script = parse_script(p[6]);
    with_fs!(size, T, run_reg::<T>(is_async, reuse, addr, &ops, &script))
}

// ---------------------------------------------------------------- commands

struct CmdCtx<'a> {
    is_async: bool,
    addr: u32,
    eff: &'a Effect,
    script: &'a [Entry],
}

fn run_cmd<F: FnOnce(&CmdCtx, &Cell<usize>, &RefCell<Vec<String>>, &Cell<u32>) -> String>(c: &CmdCtx, f: F) -> String {
    let log = RefCell::new(Vec::new());
    let pos = Cell::new(0usize);
    let polls = Cell::new(0u32);
    segment(&log, &polls, || f(c, &pos, &log, &polls)).0
}

fn cmd_none(c: &CmdCtx) -> String {
    run_cmd(c, |c, pos, log, polls| {
        if !c.is_async {
            let mut m = SyncMock(Core { script: c.script, pos, log });
            fmt_bytes_res(CommandOperation::<_, u32, (), ()>::new(&mut m, c.addr).dispatch().map(|_| Vec::new()))
        } else {
            let mut m = AsyncMock(Core { script: c.script, pos, log });
            let o = CommandOperation::<_, u32, (), ()>::new(&mut m, c.addr);
            fmt_bytes_res(block_on(o.dispatch_async(), polls).map(|_| Vec::new()))
        }
    })
}
fn cmd_in<I: FieldSet>(c: &CmdCtx) -> String {
    run_cmd(c, |c, pos, log, polls| {
        if !c.is_async {
            let mut m = SyncMock(Core { script: c.script, pos, log });
            let o = CommandOperation::<_, u32, I, ()>::new(&mut m, c.addr);
            fmt_bytes_res(
                o.dispatch(|r| {
                    c.eff.apply(r.get_inner_buffer_mut());
                })
                .map(|_| Vec::new()),
            )
        } else {
            let mut m = AsyncMock(Core { script: c.script, pos, log });
            let o = CommandOperation::<_, u32, I, ()>::new(&mut m, c.addr);
            fmt_bytes_res(
                block_on(
                    o.dispatch_async(|r| {
                        c.eff.apply(r.get_inner_buffer_mut());
                    }),
                    polls,
                )
                .map(|_| Vec::new()),
            )
        }
    })
}
fn cmd_out<O: FieldSet>(c: &CmdCtx) -> String {
    run_cmd(c, |c, pos, log, polls| {
        if !c.is_async {
            let mut m = SyncMock(Core { script: c.script, pos, log });
            let o = CommandOperation::<_, u32, (), O>::new(&mut m, c.addr);
            fmt_bytes_res(o.dispatch().map(|r| r.get_inner_buffer().to_vec()))
        } else {
            let mut m = AsyncMock(Core { script: c.script, pos, log });
            let o = CommandOperation::<_, u32, (), O>::new(&mut m, c.addr);
            fmt_bytes_res(block_on(o.dispatch_async(), polls).map(|r| r.get_inner_buffer().to_vec()))
        }
    })
}
fn cmd_inout<I: FieldSet, O: FieldSet>(c: &CmdCtx) -> String {
    run_cmd(c, |c, pos, log, polls| {
        if !c.is_async {
            let mut m = SyncMock(Core { script: c.script, pos, log });
            let o = CommandOperation::<_, u32, I, O>::new(&mut m, c.addr);
            fmt_bytes_res(
                o.dispatch(|r| {
                    c.eff.apply(r.get_inner_buffer_mut());
                })
                .map(|r| r.get_inner_buffer().to_vec()),
            )
        } else {
            let mut m = AsyncMock(Core { script: c.script, pos, log });
            let o = CommandOperation::<_, u32, I, O>::new(&mut m, c.addr);
            fmt_bytes_res(
                block_on(
                    o.dispatch_async(|r| {
                        c.eff.apply(r.get_inner_buffer_mut());
                    }),
                    polls,
                )
                .map(|r| r.get_inner_buffer().to_vec()),
            )
        }
    })
}
fn cmd_inout_o<I: FieldSet>(c: &CmdCtx, size_out: u32) -> String {
    with_fs!(size_out, O, cmd_inout::<I, O>(c))
}

fn case_cmd(p: &[&str]) -> String {
    let size_in: u32 = p[4].parse().unwrap();
    let size_out: u32 = p[5].parse().unwrap();
    let q: Vec<&str> = p[6].split('.').collect();
    let eff = Effect::parse(q[0], q[1]);
    let script = parse_script(p[7]);
    let c = CmdCtx { is_async: p[1] == "a", addr: p[3].parse().unwrap(), eff: &eff, script: &script };
    match p[2] {
        "n" => cmd_none(&c),
        "i" => with_fs!(size_in, I, cmd_in::<I>(&c)),
        "o" => with_fs!(size_out, O, cmd_out::<O>(&c)),
        "b" => with_fs!(size_in, I, cmd_inout_o::<I>(&c, size_out)),
        _ => panic!("bad shape"),
    }
}

// ---------------------------------------------------------------- buffers

fn case_buf(p: &[&str]) -> String {
    let entry = p[1];
    let op = p[2];
    let addr: u32 = p[3].parse().unwrap();
    let data = hex_to_bytes(p[4]);
    let script = parse_script(p[5]);
    let log = RefCell::new(Vec::new());
    let pos = Cell::new(0usize);
    let polls = Cell::new(0u32);
    // the caller's slice lives outside the unwinding region so that it can be printed
    let mut buf = data.clone();
    let (seg, _) = segment(&log, &polls, || match entry {
        "s" => {
            let mut m = SyncMock(Core { script: &script, pos: &pos, log: &log });
            let mut o = BufferOperation::<_, u32, RW>::new(&mut m, addr);
            match op {
                "w" => fmt_count_res(o.write(&data), &[]),
                "W" => fmt_unit_res(o.write_all(&data)),
                "f" => fmt_unit_res(o.flush()),
                "r" => {
                    let r = o.read(&mut buf);
                    fmt_count_res(r, &buf)
                }
                "R" => {
                    let r = o.read_exact(&mut buf);
                    fmt_rx_res(r, &buf)
                }
                _ => panic!("bad op"),
            }
        }
        "t" => {
            let mut m = SyncMock(Core { script: &script, pos: &pos, log: &log });
            let mut o = BufferOperation::<_, u32, RW>::new(&mut m, addr);
            match op {
                "w" => fmt_count_res(embedded_io::Write::write(&mut o, &data), &[]),
                "W" => fmt_unit_res(embedded_io::Write::write_all(&mut o, &data)),
                "f" => fmt_unit_res(embedded_io::Write::flush(&mut o)),
                "r" => {
                    let r = embedded_io::Read::read(&mut o, &mut buf);
                    fmt_count_res(r, &buf)
                }
                "R" => {
                    let r = embedded_io::Read::read_exact(&mut o, &mut buf);
                    fmt_rx_res(r, &buf)
                }
                _ => panic!("bad op"),
            }
        }
        "a" => {
            let mut m = AsyncMock(Core { script: &script, pos: &pos, log: &log });
            let mut o = BufferOperation::<_, u32, RW>::new(&mut m, addr);
            match op {
                "w" => fmt_count_res(block_on(o.write_async(&data), &polls), &[]),
                "W" => fmt_unit_res(block_on(o.write_all_async(&data), &polls)),
                "f" => fmt_unit_res(block_on(o.flush_async(), &polls)),
                "r" => {
                    let r = block_on(o.read_async(&mut buf), &polls);
                    fmt_count_res(r, &buf)
                }
                "R" => {
                    let r = block_on(o.read_exact_async(&mut buf), &polls);
                    fmt_rx_res(r, &buf)
                }
                _ => panic!("bad op"),
            }
        }
        "u" => {
            let mut m = AsyncMock(Core { script: &script, pos: &pos, log: &log });
            let mut o = BufferOperation::<_, u32, RW>::new(&mut m, addr);
            match op {
                "w" => fmt_count_res(block_on(embedded_io_async::Write::write(&mut o, &data), &polls), &[]),
                "W" => fmt_unit_res(block_on(embedded_io_async::Write::write_all(&mut o, &data), &polls)),
                "f" => fmt_unit_res(block_on(embedded_io_async::Write::flush(&mut o), &polls)),
                "r" => {
                    let r = block_on(embedded_io_async::Read::read(&mut o, &mut buf), &polls);
                    fmt_count_res(r, &buf)
                }
                "R" => {
                    let r = block_on(embedded_io_async::Read::read_exact(&mut o, &mut buf), &polls);
                    fmt_rx_res(r, &buf)
                }
                _ => panic!("bad op"),
            }
        }
        _ => panic!("bad entry"),
    });
    seg
}

/// `Q entry addr op:hex;op:hex;.. script`: single-call operations (w, r, f) run one after the other on ONE BufferOperation
/// object; one segment per operation, joined with " | ".  Nothing may be carried over from one call to the next.
fn case_bufseq(p: &[&str]) -> String {
    let entry = p[1];
    let addr: u32 = p[2].parse().unwrap();
    let ops: Vec<(String, Vec<u8>)> = p[3]
        .split(';')
        .map(|x| {
            let mut it = x.splitn(2, ':');
            let o = it.next().unwrap().to_string();
            (o, hex_to_bytes(it.next().unwrap_or("-")))
        })
        .collect();
    let script = parse_script(p[4]);
    let log = RefCell::new(Vec::new());
    let pos = Cell::new(0usize);
    let polls = Cell::new(0u32);
    let mut segs: Vec<String> = Vec::new();
    match entry {
        "s" => {
            let mut m = SyncMock(Core { script: &script, pos: &pos, log: &log });
            let mut o = BufferOperation::<_, u32, RW>::new(&mut m, addr);
            for (op, data) in &ops {
                let mut buf = data.clone();
                let (seg, _) = segment(&log, &polls, || match op.as_str() {
                    "w" => fmt_count_res(o.write(data), &[]),
                    "f" => fmt_unit_res(o.flush()),
                    "r" => {
                        let r = o.read(&mut buf);
                        fmt_count_res(r, &buf)
                    }
                    _ => panic!("bad op"),
                });
                segs.push(seg);
            }
        }
        "t" => {
            let mut m = SyncMock(Core { script: &script, pos: &pos, log: &log });
            let mut o = BufferOperation::<_, u32, RW>::new(&mut m, addr);
            for (op, data) in &ops {
                let mut buf = data.clone();
                let (seg, _) = segment(&log, &polls, || match op.as_str() {
                    "w" => fmt_count_res(embedded_io::Write::write(&mut o, data), &[]),
                    "f" => fmt_unit_res(embedded_io::Write::flush(&mut o)),
                    "r" => {
                        let r = embedded_io::Read::read(&mut o, &mut buf);
                        fmt_count_res(r, &buf)
                    }
                    _ => panic!("bad op"),
                });
                segs.push(seg);
            }
        }
        "a" => {
            let mut m = AsyncMock(Core { script: &script, pos: &pos, log: &log });
            let mut o = BufferOperation::<_, u32, RW>::new(&mut m, addr);
            for (op, data) in &ops {
                let mut buf = data.clone();
                let (seg, _) = segment(&log, &polls, || match op.as_str() {
                    "w" => fmt_count_res(block_on(o.write_async(data), &polls), &[]),
                    "f" => fmt_unit_res(block_on(o.flush_async(), &polls)),
                    "r" => {
                        let r = block_on(o.read_async(&mut buf), &polls);
                        fmt_count_res(r, &buf)
                    }
                    _ => panic!("bad op"),
                });
                segs.push(seg);
            }
        }
        "u" => {
            let mut m = AsyncMock(Core { script: &script, pos: &pos, log: &log });
            let mut o = BufferOperation::<_, u32, RW>::new(&mut m, addr);
            for (op, data) in &ops {
                let mut buf = data.clone();
                let (seg, _) = segment(&log, &polls, || match op.as_str() {
                    "w" => fmt_count_res(block_on(embedded_io_async::Write::write(&mut o, data), &polls), &[]),
                    "f" => fmt_unit_res(block_on(embedded_io_async::Write::flush(&mut o), &polls)),
                    "r" => {
                        let r = block_on(embedded_io_async::Read::read(&mut o, &mut buf), &polls);
                        fmt_count_res(r, &buf)
                    }
                    _ => panic!("bad op"),
                });
                segs.push(seg);
            }
        }
        _ => panic!("bad entry"),
    }
    segs.join(" | ")
}

fn main() {
    std::panic::set_hook(Box::new(|info| {
        let s = info.to_string();
        LAST_PANIC.with(|l| *l.borrow_mut() = s);
    }));
    let path = std::env::args().nth(1).expect("usage: proto_runner <case file>");
    let f = std::io::BufReader::new(std::fs::File::open(path).unwrap());
    let stdout = std::io::stdout();
    let mut out = BufWriter::new(stdout.lock());
    for line in f.lines() {
        let line = line.unwrap();
        if line.is_empty() || line.starts_with('#') {
            continue;
        }
        let p: Vec<&str> = line.split(' ').collect();
        let r = catch_unwind(AssertUnwindSafe(|| match p[0] {
            "R" => case_reg(&p),
            "C" => case_cmd(&p),
            "B" => case_buf(&p),
            "Q" => case_bufseq(&p),
            _ => panic!("bad case kind"),
        }));
        match r {
            Ok(s) => writeln!(out, "{}", s).unwrap(),
            Err(_) => writeln!(out, "HARNESS-{}", panic_kind()).unwrap(),
        }
    }
}
