register A { const ADDRESS = 1;
