config { type RegisterAddressType = u32; type DefaultByteOrder = BE; }
register Wide {
    const ADDRESS = 0xFFFF_FF00;
    const SIZE_BITS = 64;
    const RESET_VALUE = 0xFFEEDDCCBBAA9988;
    big: uint as try enum BigE { Lo = 0, Hi = 0xFFFF_FFFF_FFFF_FFFF, Mid = 0x7FFF_FFFF_FFFF_FFFF } = 0..64,
}
