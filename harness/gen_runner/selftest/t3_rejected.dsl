config { type RegisterAddressType = u8; }
register A { const ADDRESS = 1; const SIZE_BITS = 8; v: uint = 0..8 },
register B { const ADDRESS = 1; const SIZE_BITS = 8; v: uint = 0..8 }
