config { type RegisterAddressType = u8; }
register A { const ADDRESS = ; const SIZE_BITS = 8; v: uint = 0..8 }
