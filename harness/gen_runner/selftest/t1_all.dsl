config {
    type RegisterAddressType = u8;
    type CommandAddressType = u16;
    type BufferAddressType = i8;
    type DefaultByteOrder = LE;
}
/// A reg
register Foo {
    const ADDRESS = 3;
    const SIZE_BITS = 16;
    const RESET_VALUE = 0x1234;
    const REPEAT = { count: 2, stride: 4 };
    /// field a
    a: uint = 0..4,
    b: RO int as try enum Ee { A, B = 3, C = catch_all } = 4..=9,
    c: bool = 10,
    d: uint as crate::Xy = 11..16,
},
/// All conversion forms
/// (second doc line)
register Convs {
    type ByteOrder = BE;
    type BitOrder = MSB0;
    const ADDRESS = 20;
    const SIZE_BITS = 48;
    /// with default
    e1: uint as enum WithDefault { X, Y = default, Z = 7 } = 0..3,
    e2: uint as enum Full2 { P, Q, R, S } = 3..5,
    e3: WO uint as try enum Fallible { M = 1, N = 2 } = 5..8,
    e4: int as try crate::Ext = 8..16,
    e5: uint as enum Catch { K, L = catch_all } = 16..24,
    e6: int as enum Neg { Mi = -1, Ze = 0, D = default } = 24..32,
    e7: uint as enum Both { Da = default, Ca = catch_all } = 32..40,
    e8: uint as Bare = 40..48,
},
block Blk {
    const ADDRESS_OFFSET = 100;
    const REPEAT = { count: 3, stride: -20 };
    command Cmd {
        const ADDRESS = 1;
        const SIZE_BITS_IN = 8;
        const SIZE_BITS_OUT = 16;
        in { x: uint = 0..8 }
        out { y: int = 0..16 }
    },
    buffer Buf: RO = 5,
    ref FooRef = register Foo { const ADDRESS = 7; const RESET_VALUE = [1, 2]; },
    block Inner {
        const ADDRESS_OFFSET = -2;
        const REPEAT = { count: 2, stride: 3 };
        register R {
            const ADDRESS = 1;
            const SIZE_BITS = 8;
            const REPEAT = { count: 2, stride: -1 };
            v: uint = 0..8
        }
    }
},
command Simple = 9,
command OnlyOut { const ADDRESS = 10; const SIZE_BITS_OUT = 8; out { z: uint = 0..8 } },
buffer WoBuf: WO = 1
