config {
    type RegisterAddressType = i16;
    type CommandAddressType = u8;
    type BufferAddressType = u8;
    type DefmtFeature = "defmt-03";
}
#[cfg(feature = "blk")]
/// block doc
block B {
    const ADDRESS_OFFSET = 2;
    #[cfg(feature = "x")]
    /// doc reg
    register R {
        const ADDRESS = -3;
        const SIZE_BITS = 8;
        #[cfg(not(foo))]
        f: uint as enum En { #[cfg(bar)] A, B = default } = 0..2,
        g: bool = 2,
    },
    #[cfg(any(a, b))]
    command C { const ADDRESS = 4; const SIZE_BITS_IN = 8; in { #[cfg(z)] q: uint = 0..8 } },
    #[cfg(feature = "blk")]
    buffer Same = 3,
    #[cfg(all(p, q))]
    block Deep {
        #[cfg(r)]
        register Dr { const ADDRESS = 0; const SIZE_BITS = 8; w: uint = 0..8 }
    }
},
register Top {
    const ADDRESS = 1;
    const SIZE_BITS = 8;
    const REPEAT = { count: 2, stride: -1 };
    v: int = 0..8
}
