//! Structural facts about the generated code (see FACTS.md).  Everything is read off the syn AST;
//! nothing here may panic on unexpected shapes: unknown shape => null + a warning.

use std::collections::HashSet;

use proc_macro2::{Delimiter, TokenStream, TokenTree};
use quote::ToTokens;
use serde_json::{json, Map, Value};
use syn::visit::{self, Visit};
use syn::{
    Attribute, BinOp, Expr, ExprCall, ExprMatch, FnArg, GenericArgument, ImplItem, ImplItemFn, Item, ItemEnum,
    ItemImpl, ItemStruct, Meta, Pat, PathArguments, PathSegment, ReturnType, Stmt, Type, UnOp,
};

const MAX_WARNINGS: usize = 200;

pub struct Cx {
    warnings: Vec<String>,
}

impl Cx {
    fn warn(&mut self, s: impl Into<String>) {
        if self.warnings.len() < MAX_WARNINGS {
            self.warnings.push(s.into());
        }
    }
}

// ------------------------------------------------------------------------------------------------
// small helpers

/// `tokens.to_string()` with ALL whitespace removed.
/// The tokens without any whitespace BETWEEN them; the text of a literal (a string with blanks in it, say) stays as it is.
fn compact(ts: TokenStream) -> String {
    let mut out = String::new();
    for tt in ts {
        match tt {
            TokenTree::Group(g) => {
                let (open, close) = match g.delimiter() {
                    Delimiter::Parenthesis => ("(", ")"),
                    Delimiter::Brace => ("{", "}"),
                    Delimiter::Bracket => ("[", "]"),
                    Delimiter::None => ("", ""),
                };
                out.push_str(open);
                out.push_str(&compact(g.stream()));
                out.push_str(close);
            }
            TokenTree::Literal(l) => out.push_str(&l.to_string()),
            other => out.extend(other.to_string().chars().filter(|c| !c.is_whitespace())),
        }
    }
    out
}

fn cs<T: ToTokens>(t: &T) -> String {
    compact(t.to_token_stream())
}

fn ostr(o: Option<String>) -> Value {
    match o {
        Some(s) => Value::String(s),
        None => Value::Null,
    }
}

/// decimal digit string (optionally with leading '-') -> JSON number if it fits i64, else JSON string
fn num_json(d: &str) -> Value {
    match d.parse::<i64>() {
        Ok(v) => json!(v),
        Err(_) => json!(d),
    }
}

fn onum(o: Option<String>) -> Value {
    match o {
        Some(d) => num_json(&d),
        None => Value::Null,
    }
}

fn negate(d: String) -> String {
    match d.strip_prefix('-') {
        Some(rest) => rest.to_string(),
        None => format!("-{d}"),
    }
}

fn peel(mut e: &Expr) -> &Expr {
    loop {
        match e {
            Expr::Group(g) => e = &g.expr,
            Expr::Paren(p) => e = &p.expr,
            // `{ expr }` (prettyplease wraps long match arm bodies like this)
            Expr::Block(b) if b.label.is_none() && b.attrs.is_empty() && b.block.stmts.len() == 1 => match &b.block.stmts[0] {
                Stmt::Expr(inner, None) => e = inner,
                _ => return e,
            },
            _ => return e,
        }
    }
}

fn peel_ty(mut t: &Type) -> &Type {
    loop {
        match t {
            Type::Group(g) => t = &g.elem,
            Type::Paren(p) => t = &p.elem,
            _ => return t,
        }
    }
}

fn lit_int_digits(l: &syn::Lit) -> Option<String> {
    match l {
        syn::Lit::Int(i) => Some(i.base10_digits().to_string()),
        _ => None,
    }
}

/// Integer literal expression: `3`, `-3` (one negative literal token), `- 3` (unary minus), `(3)`, None-group.
fn expr_int(e: &Expr) -> Option<String> {
    match peel(e) {
        Expr::Lit(l) => lit_int_digits(&l.lit),
        Expr::Unary(u) if matches!(u.op, UnOp::Neg(_)) => expr_int(&u.expr).map(negate),
        _ => None,
    }
}

fn pat_int(p: &Pat) -> Option<String> {
    match p {
        Pat::Lit(l) => lit_int_digits(&l.lit),
        Pat::Paren(pp) => pat_int(&pp.pat),
        other => syn::parse2::<Expr>(other.to_token_stream()).ok().and_then(|e| expr_int(&e)),
    }
}

fn pat_ident_name(p: &Pat) -> Option<String> {
    match p {
        Pat::Ident(pi) => Some(pi.ident.to_string()),
        Pat::Type(pt) => pat_ident_name(&pt.pat),
        Pat::Paren(pp) => pat_ident_name(&pp.pat),
        _ => None,
    }
}

/// last segment of an `Expr::Path`
fn expr_path_last(e: &Expr) -> Option<String> {
    match peel(e) {
        Expr::Path(p) => p.path.segments.last().map(|s| s.ident.to_string()),
        _ => None,
    }
}

fn expr_path_segments(e: &Expr) -> Option<Vec<String>> {
    match peel(e) {
        Expr::Path(p) => Some(p.path.segments.iter().map(|s| s.ident.to_string()).collect()),
        _ => None,
    }
}

fn is_simple_ident(e: &Expr, name: &str) -> bool {
    match peel(e) {
        Expr::Path(p) => p.qself.is_none() && p.path.is_ident(name),
        _ => false,
    }
}

fn type_last_segment(t: &Type) -> Option<&PathSegment> {
    match peel_ty(t) {
        Type::Path(tp) => tp.path.segments.last(),
        _ => None,
    }
}

fn type_last_ident(t: &Type) -> Option<String> {
    type_last_segment(t).map(|s| s.ident.to_string())
}

fn is_unit(t: &Type) -> bool {
    matches!(peel_ty(t), Type::Tuple(tt) if tt.elems.is_empty())
}

/// only the *type* generic arguments of a path segment
fn type_args(seg: &PathSegment) -> Vec<&Type> {
    match &seg.arguments {
        PathArguments::AngleBracketed(ab) => ab
            .args
            .iter()
            .filter_map(|a| match a {
                GenericArgument::Type(t) => Some(t),
                _ => None,
            })
            .collect(),
        _ => Vec::new(),
    }
}

fn block_tail(b: &syn::Block) -> Option<&Expr> {
    match b.stmts.last() {
        Some(Stmt::Expr(e, _)) => Some(e),
        _ => None,
    }
}

fn idents_in(ts: TokenStream, out: &mut HashSet<String>) {
    for tt in ts {
        match tt {
            TokenTree::Ident(i) => {
                out.insert(i.to_string());
            }
            TokenTree::Group(g) => idents_in(g.stream(), out),
            _ => {}
        }
    }
}

// ------------------------------------------------------------------------------------------------
// attributes: cfg / doc

fn split_commas(ts: TokenStream) -> Vec<Vec<TokenTree>> {
    let mut pieces = vec![Vec::new()];
    for tt in ts {
        match &tt {
            TokenTree::Punct(p) if p.as_char() == ',' => pieces.push(Vec::new()),
            _ => pieces.last_mut().unwrap().push(tt),
        }
    }
    pieces
}

fn flatten_pred(tts: &[TokenTree], atoms: &mut Vec<String>) {
    // look through a None-delimited group around the whole predicate
    if let [TokenTree::Group(g)] = tts {
        if g.delimiter() == Delimiter::None {
            let inner: Vec<TokenTree> = g.stream().into_iter().collect();
            return flatten_pred(&inner, atoms);
        }
    }
    if let [TokenTree::Ident(i), TokenTree::Group(g)] = tts {
        if i == "all" && g.delimiter() == Delimiter::Parenthesis {
            for piece in split_commas(g.stream()) {
                if !piece.is_empty() {
                    flatten_pred(&piece, atoms);
                }
            }
            return;
        }
    }
    atoms.push(compact(tts.iter().cloned().collect()));
}

/// (cfg atoms sorted, cfg_raw)
fn cfg_of(attrs: &[Attribute]) -> (Vec<String>, Vec<String>) {
    let mut atoms = Vec::new();
    let mut raw = Vec::new();
    for a in attrs {
        if !a.path().is_ident("cfg") {
            continue;
        }
        match &a.meta {
            Meta::List(ml) => {
                raw.push(compact(ml.tokens.clone()));
                let mut tts: Vec<TokenTree> = ml.tokens.clone().into_iter().collect();
                if matches!(tts.last(), Some(TokenTree::Punct(p)) if p.as_char() == ',') {
                    tts.pop();
                }
                flatten_pred(&tts, &mut atoms);
            }
            other => {
                raw.push(cs(other));
                atoms.push(cs(other));
            }
        }
    }
    atoms.sort();
    (atoms, raw)
}

fn put_cfg(m: &mut Map<String, Value>, attrs: &[Attribute]) {
    let (cfg, raw) = cfg_of(attrs);
    m.insert("cfg".into(), json!(cfg));
    m.insert("cfg_raw".into(), json!(raw));
}

fn doc_of(attrs: &[Attribute]) -> String {
    let mut parts = Vec::new();
    for a in attrs {
        if !a.path().is_ident("doc") {
            continue;
        }
        if let Meta::NameValue(nv) = &a.meta {
            if let Expr::Lit(l) = peel(&nv.value) {
                if let syn::Lit::Str(s) = &l.lit {
                    parts.push(s.value());
                }
            }
        }
    }
    parts.join("\n").trim().to_string()
}

/// `feature = "x"` -> x
fn feature_of_tokens(tts: &[TokenTree]) -> Option<String> {
    match tts {
        [TokenTree::Ident(i), TokenTree::Punct(p), TokenTree::Literal(l)] if i == "feature" && p.as_char() == '=' => {
            syn::parse2::<syn::LitStr>(TokenTree::Literal(l.clone()).into()).ok().map(|l| l.value())
        }
        _ => None,
    }
}

/// feature of the LAST `#[cfg(feature = "..")]` attribute (the generator appends the defmt cfg after the item's own cfg)
fn last_cfg_feature(attrs: &[Attribute]) -> Option<String> {
    let last = attrs.iter().filter(|a| a.path().is_ident("cfg")).last()?;
    match &last.meta {
        Meta::List(ml) => {
            let tts: Vec<TokenTree> = ml.tokens.clone().into_iter().collect();
            feature_of_tokens(&tts)
        }
        _ => None,
    }
}

// ------------------------------------------------------------------------------------------------
// visitors

struct LoadStoreFinder<'a> {
    found: Option<&'a ExprCall>,
}

impl<'a> Visit<'a> for LoadStoreFinder<'a> {
    fn visit_expr_call(&mut self, c: &'a ExprCall) {
        if self.found.is_none() {
            if let Some(n) = expr_path_last(&c.func) {
                if n.starts_with("load_") || n.starts_with("store_") {
                    self.found = Some(c);
                    return;
                }
            }
        }
        visit::visit_expr_call(self, c);
    }
}

struct MatchFinder<'a> {
    found: Option<&'a ExprMatch>,
}

impl<'a> Visit<'a> for MatchFinder<'a> {
    fn visit_expr_match(&mut self, m: &'a ExprMatch) {
        if self.found.is_none() {
            self.found = Some(m);
        }
    }
}

fn find_match(f: &ImplItemFn) -> Option<&ExprMatch> {
    let mut v = MatchFinder { found: None };
    v.visit_block(&f.block);
    v.found
}

struct MacroFinder<'a> {
    last_ident: &'static str,
    found: Option<&'a syn::Macro>,
}

impl<'a> Visit<'a> for MacroFinder<'a> {
    fn visit_macro(&mut self, m: &'a syn::Macro) {
        if self.found.is_none() && m.path.segments.last().map(|s| s.ident == self.last_ident).unwrap_or(false) {
            self.found = Some(m);
        }
    }
}

#[derive(Default)]
struct DebugFieldFinder {
    struct_name: Option<String>,
    fields: Vec<String>,
}

impl<'a> Visit<'a> for DebugFieldFinder {
    fn visit_expr_method_call(&mut self, m: &'a syn::ExprMethodCall) {
        // receiver first so that the chain `.field(a).field(b)` is reported in source order
        self.visit_expr(&m.receiver);
        let first_str = m.args.first().and_then(|a| match peel(a) {
            Expr::Lit(l) => match &l.lit {
                syn::Lit::Str(s) => Some(s.value()),
                _ => None,
            },
            _ => None,
        });
        if m.method == "field" && m.args.len() == 2 {
            if let Some(s) = first_str {
                self.fields.push(s);
            }
        } else if m.method == "debug_struct" && self.struct_name.is_none() {
            self.struct_name = first_str;
        }
        for a in &m.args {
            self.visit_expr(a);
        }
    }
}

// ------------------------------------------------------------------------------------------------
// blocks

struct AddrCalc {
    count: Option<String>,
    address: Option<String>,
    op: Option<&'static str>,
    stride: Option<String>,
    internal_type: Option<String>,
}

fn is_self_base_address(e: &Expr) -> bool {
    match peel(e) {
        Expr::Field(f) => {
            matches!(&f.member, syn::Member::Named(n) if n == "base_address") && is_simple_ident(&f.base, "self")
        }
        _ => false,
    }
}

fn assert_count(mac: &syn::Macro) -> Option<String> {
    if !mac.path.is_ident("assert") {
        return None;
    }
    let e = syn::parse2::<Expr>(mac.tokens.clone()).ok()?;
    match peel(&e) {
        Expr::Binary(b) if matches!(b.op, BinOp::Lt(_)) && is_simple_ident(&b.left, "index") => expr_int(&b.right),
        _ => None,
    }
}

fn parse_addr_sum(e: &Expr, out: &mut AddrCalc) -> bool {
    let Expr::Binary(outer) = peel(e) else {
        return false;
    };
    // plain form: self.base_address + A
    if is_self_base_address(&outer.left) {
        if !matches!(outer.op, BinOp::Add(_)) {
            return false;
        }
        out.address = expr_int(&outer.right);
        return out.address.is_some();
    }
    // repeated form: (self.base_address + A) op ((index as T) * S)
    let op = match outer.op {
        BinOp::Add(_) => "+",
        BinOp::Sub(_) => "-",
        _ => return false,
    };
    let Expr::Binary(l) = peel(&outer.left) else {
        return false;
    };
    if !matches!(l.op, BinOp::Add(_)) || !is_self_base_address(&l.left) {
        return false;
    }
    let Expr::Binary(r) = peel(&outer.right) else {
        return false;
    };
    if !matches!(r.op, BinOp::Mul(_)) {
        return false;
    }
    let Expr::Cast(c) = peel(&r.left) else {
        return false;
    };
    if !is_simple_ident(&c.expr, "index") {
        return false;
    }
    out.address = expr_int(&l.right);
    out.op = Some(op);
    out.stride = expr_int(&r.right);
    out.internal_type = Some(cs(&*c.ty));
    out.address.is_some() && out.stride.is_some()
}

fn parse_address_init(e: &Expr, who: &str, cx: &mut Cx) -> AddrCalc {
    let mut out = AddrCalc { count: None, address: None, op: None, stride: None, internal_type: None };
    let ok = match peel(e) {
        Expr::Block(b) => {
            let mut ok = false;
            for s in &b.block.stmts {
                match s {
                    Stmt::Macro(m) => {
                        if let Some(c) = assert_count(&m.mac) {
                            out.count = Some(c);
                        }
                    }
                    Stmt::Expr(Expr::Macro(m), _) => {
                        if let Some(c) = assert_count(&m.mac) {
                            out.count = Some(c);
                        }
                    }
                    Stmt::Expr(e, None) => ok = parse_addr_sum(e, &mut out),
                    _ => {}
                }
            }
            if out.count.is_none() {
                cx.warn(format!("{who}: no `assert!(index < N)` found in address block"));
            }
            ok
        }
        other => parse_addr_sum(other, &mut out),
    };
    if !ok {
        cx.warn(format!("{who}: unrecognised address expression `{}`", cs(e)));
    }
    out
}

fn method_facts(block: &str, f: &ImplItemFn, cx: &mut Cx) -> Value {
    let name = f.sig.ident.to_string();
    let who = format!("block {block} method {name}");
    let mut m = Map::new();
    m.insert("name".into(), json!(name));
    put_cfg(&mut m, &f.attrs);
    m.insert("doc".into(), json!(doc_of(&f.attrs)));

    let indexed = f.sig.inputs.iter().any(|a| match a {
        FnArg::Typed(pt) => pat_ident_name(&pt.pat).as_deref() == Some("index"),
        _ => false,
    });
    m.insert("indexed".into(), json!(indexed));

    // ---- return type
    let mut kind: Option<&str> = None;
    let mut access = None;
    let mut field_set = None;
    let mut field_set_in = None;
    let mut field_set_out = None;
    let mut block_name = None;
    let mut ret_address_type = None;
    let mut ret_compact = None;
    let fs_name = |t: &Type| if is_unit(t) { None } else { type_last_ident(t) };
    match &f.sig.output {
        ReturnType::Type(_, ty) => {
            ret_compact = Some(cs(&**ty));
            match peel_ty(ty) {
                Type::Path(tp) => {
                    let segs: Vec<String> = tp.path.segments.iter().map(|s| s.ident.to_string()).collect();
                    let last = tp.path.segments.last();
                    let targs = last.map(type_args).unwrap_or_default();
                    let dd = tp.path.leading_colon.is_some() && segs.len() == 2 && segs[0] == "device_driver";
                    match (dd, segs.last().map(|s| s.as_str())) {
                        (true, Some("RegisterOperation")) => {
                            kind = Some("register");
                            ret_address_type = targs.get(1).map(|t| cs(*t));
                            field_set = targs.get(2).and_then(|t| fs_name(t));
                            access = targs.get(3).and_then(|t| type_last_ident(t));
                            if targs.len() != 4 {
                                cx.warn(format!("{who}: RegisterOperation with {} type args", targs.len()));
                            }
                        }
                        (true, Some("CommandOperation")) => {
                            kind = Some("command");
                            ret_address_type = targs.get(1).map(|t| cs(*t));
                            field_set_in = targs.get(2).and_then(|t| fs_name(t));
                            field_set_out = targs.get(3).and_then(|t| fs_name(t));
                            if targs.len() != 4 {
                                cx.warn(format!("{who}: CommandOperation with {} type args", targs.len()));
                            }
                        }
                        (true, Some("BufferOperation")) => {
                            kind = Some("buffer");
                            ret_address_type = targs.get(1).map(|t| cs(*t));
                            access = targs.get(2).and_then(|t| type_last_ident(t));
                            if targs.len() != 3 {
                                cx.warn(format!("{who}: BufferOperation with {} type args", targs.len()));
                            }
                        }
                        (_, Some(other)) => {
                            kind = Some("block");
                            block_name = Some(other.to_string());
                        }
                        _ => cx.warn(format!("{who}: empty return type path")),
                    }
                }
                _ => cx.warn(format!("{who}: return type is not a path")),
            }
        }
        ReturnType::Default => cx.warn(format!("{who}: no return type")),
    }
    m.insert("kind".into(), json!(kind));
    m.insert("access".into(), ostr(access));
    m.insert("field_set".into(), ostr(field_set));
    m.insert("field_set_in".into(), ostr(field_set_in));
    m.insert("field_set_out".into(), ostr(field_set_out));
    m.insert("block".into(), ostr(block_name));
    m.insert("ret_address_type".into(), ostr(ret_address_type));
    m.insert("ret".into(), ostr(ret_compact.clone()));

    // ---- body
    let mut addr_init: Option<&Expr> = None;
    let mut call: Option<&ExprCall> = None;
    for s in &f.block.stmts {
        match s {
            Stmt::Local(l) if pat_ident_name(&l.pat).as_deref() == Some("address") => {
                addr_init = l.init.as_ref().map(|i| &*i.expr);
            }
            Stmt::Expr(e, _) => {
                if let Expr::Call(c) = peel(e) {
                    if expr_path_last(&c.func).as_deref() == Some("new") {
                        call = Some(c);
                    }
                }
            }
            _ => {}
        }
    }
    let calc = match addr_init {
        Some(e) => parse_address_init(e, &who, cx),
        None => {
            cx.warn(format!("{who}: no `let address = ..` found"));
            AddrCalc { count: None, address: None, op: None, stride: None, internal_type: None }
        }
    };
    m.insert("count".into(), onum(calc.count));
    m.insert("address".into(), onum(calc.address));
    m.insert("op".into(), json!(calc.op));
    m.insert("stride".into(), onum(calc.stride));
    m.insert("internal_type".into(), ostr(calc.internal_type));

    let mut address_type = None;
    let mut reset_fn = None;
    let mut reset_fn_path = None;
    let mut ctor = None;
    let mut ctor_matches_ret = None;
    match call {
        Some(c) => {
            ctor = Some(cs(&*c.func));
            if let (Some(ct), Some(rt)) = (&ctor, &ret_compact) {
                let norm = |s: &str| s.replace("::<", "<").replace(",>", ">");
                ctor_matches_ret = Some(norm(ct.strip_suffix("::new").unwrap_or(ct)) == norm(rt));
            }
            match c.args.iter().nth(1).map(peel) {
                Some(Expr::Cast(cast)) if is_simple_ident(&cast.expr, "address") => {
                    address_type = Some(cs(&*cast.ty));
                }
                Some(e) if is_simple_ident(e, "address") => {}
                _ => cx.warn(format!("{who}: second argument of ::new is not `address [as T]`")),
            }
            if let Some(a2) = c.args.iter().nth(2) {
                reset_fn = expr_path_last(a2);
                reset_fn_path = Some(cs(a2));
                if reset_fn.is_none() {
                    cx.warn(format!("{who}: third argument of ::new is not a path"));
                }
            }
        }
        None => cx.warn(format!("{who}: no `..::new(..)` call found")),
    }
    m.insert("address_type".into(), ostr(address_type));
    m.insert("reset_fn".into(), ostr(reset_fn));
    m.insert("reset_fn_path".into(), ostr(reset_fn_path));
    m.insert("ctor".into(), ostr(ctor));
    m.insert("ctor_matches_ret".into(), json!(ctor_matches_ret));
    Value::Object(m)
}

/// `self.NAME(IDX?)` possibly wrapped in `.read()` / `.read_async()` / `.await` / `?`
fn parse_reg_read(e: &Expr) -> Option<(String, Option<Option<String>>, String, bool)> {
    // returns (method, index: None = no arg / Some(None) = unparsable arg / Some(Some(n)), read fn name, awaited)
    let mut e = peel(e);
    let mut awaited = false;
    loop {
        match e {
            Expr::Try(t) => e = peel(&t.expr),
            Expr::Await(a) => {
                awaited = true;
                e = peel(&a.base);
            }
            _ => break,
        }
    }
    let Expr::MethodCall(read) = e else {
        return None;
    };
    let Expr::MethodCall(reg) = peel(&read.receiver) else {
        return None;
    };
    if !is_simple_ident(&reg.receiver, "self") {
        return None;
    }
    let index = reg.args.first().map(expr_int);
    Some((reg.method.to_string(), index, read.method.to_string(), awaited))
}

fn read_all_facts(block: &str, f: &ImplItemFn, cx: &mut Cx) -> Value {
    let is_async = f.sig.asyncness.is_some();
    let who = format!("block {block} fn {}", f.sig.ident);
    let mut entries: Vec<Value> = Vec::new();
    let mut pending: Option<Map<String, Value>> = None;
    let n = f.block.stmts.len();
    for (i, s) in f.block.stmts.iter().enumerate() {
        match s {
            Stmt::Local(l) if pat_ident_name(&l.pat).as_deref() == Some("reg") => {
                if let Some(p) = pending.take() {
                    cx.warn(format!("{who}: `let reg` without callback"));
                    entries.push(Value::Object(p));
                }
                let mut m = Map::new();
                put_cfg(&mut m, &l.attrs);
                m.insert("async".into(), json!(is_async));
                let parsed = l.init.as_ref().and_then(|i| parse_reg_read(&i.expr));
                match parsed {
                    Some((method, index, read_fn, awaited)) => {
                        m.insert("method".into(), json!(method));
                        m.insert(
                            "index".into(),
                            match index {
                                None => Value::Null,
                                Some(None) => {
                                    cx.warn(format!("{who}: index argument is not an integer literal"));
                                    Value::Null
                                }
                                Some(Some(d)) => num_json(&d),
                            },
                        );
                        m.insert("read_fn".into(), json!(read_fn));
                        let expect = if is_async { "read_async" } else { "read" };
                        if read_fn != expect || awaited != is_async {
                            cx.warn(format!("{who}: unexpected read call `{read_fn}` (awaited={awaited})"));
                        }
                    }
                    None => {
                        cx.warn(format!("{who}: unrecognised `let reg = ..` initialiser"));
                        m.insert("method".into(), Value::Null);
                        m.insert("index".into(), Value::Null);
                        m.insert("read_fn".into(), Value::Null);
                    }
                }
                pending = Some(m);
            }
            Stmt::Expr(e, semi) => {
                let e = peel(e);
                if let Expr::Call(c) = e {
                    if is_simple_ident(&c.func, "callback") {
                        let mut m = match pending.take() {
                            Some(m) => m,
                            None => {
                                cx.warn(format!("{who}: callback without preceding `let reg`"));
                                let mut m = Map::new();
                                m.insert("cfg".into(), Value::Null);
                                m.insert("cfg_raw".into(), Value::Null);
                                m.insert("method".into(), Value::Null);
                                m.insert("index".into(), Value::Null);
                                m.insert("read_fn".into(), Value::Null);
                                m.insert("async".into(), json!(is_async));
                                m
                            }
                        };
                        let (ccfg, craw) = cfg_of(&c.attrs);
                        m.insert("callback_cfg".into(), json!(ccfg));
                        m.insert("callback_cfg_raw".into(), json!(craw));
                        let mut address = None;
                        let mut idx = None;
                        let mut stride = None;
                        if let Some(Expr::Binary(sum)) = c.args.first().map(peel) {
                            if matches!(sum.op, BinOp::Add(_)) {
                                address = expr_int(&sum.left);
                                if let Expr::Binary(prod) = peel(&sum.right) {
                                    if matches!(prod.op, BinOp::Mul(_)) {
                                        idx = expr_int(&prod.left);
                                        stride = expr_int(&prod.right);
                                    }
                                }
                            }
                        }
                        if address.is_none() || idx.is_none() || stride.is_none() {
                            cx.warn(format!(
                                "{who}: callback address is not `A + I * S`: `{}`",
                                c.args.first().map(cs).unwrap_or_default()
                            ));
                        }
                        m.insert("address".into(), onum(address));
                        m.insert("idx".into(), onum(idx));
                        m.insert("stride".into(), onum(stride));
                        let display = c.args.iter().nth(1).and_then(|a| match peel(a) {
                            Expr::Lit(l) => match &l.lit {
                                syn::Lit::Str(s) => Some(s.value()),
                                _ => None,
                            },
                            _ => None,
                        });
                        if display.is_none() {
                            cx.warn(format!("{who}: callback display name is not a string literal"));
                        }
                        m.insert("display".into(), ostr(display));
                        entries.push(Value::Object(m));
                        continue;
                    }
                    // trailing Ok(())
                    if i + 1 == n && semi.is_none() && is_simple_ident(&c.func, "Ok") {
                        continue;
                    }
                }
                cx.warn(format!("{who}: unexpected statement `{}`", cs(s)));
            }
            other => cx.warn(format!("{who}: unexpected statement `{}`", cs(other))),
        }
    }
    if let Some(p) = pending.take() {
        cx.warn(format!("{who}: `let reg` without callback"));
        entries.push(Value::Object(p));
    }
    Value::Array(entries)
}

/// first parameter type of `callback: impl FnMut(T, ..)`
fn callback_addr_type(f: &ImplItemFn) -> Option<String> {
    for a in &f.sig.inputs {
        let FnArg::Typed(pt) = a else { continue };
        if pat_ident_name(&pt.pat).as_deref() != Some("callback") {
            continue;
        }
        let Type::ImplTrait(it) = peel_ty(&pt.ty) else {
            return None;
        };
        for b in &it.bounds {
            if let syn::TypeParamBound::Trait(tb) = b {
                if let Some(seg) = tb.path.segments.last() {
                    if let PathArguments::Parenthesized(p) = &seg.arguments {
                        return p.inputs.first().map(cs);
                    }
                }
            }
        }
    }
    None
}

fn block_facts(st: &ItemStruct, im: Option<&ItemImpl>, cx: &mut Cx) -> Value {
    let name = st.ident.to_string();
    let mut m = Map::new();
    m.insert("name".into(), json!(name));
    m.insert("root".into(), json!(st.generics.lifetimes().next().is_none()));
    put_cfg(&mut m, &st.attrs);
    m.insert("doc".into(), json!(doc_of(&st.attrs)));
    let base_ty = st.fields.iter().find(|f| f.ident.as_ref().map(|i| i == "base_address").unwrap_or(false));
    if base_ty.is_none() {
        cx.warn(format!("block {name}: no base_address field"));
    }
    m.insert("base_address_type".into(), ostr(base_ty.map(|f| cs(&f.ty))));

    let mut methods = Vec::new();
    let mut read_all = Value::Null;
    let mut read_all_async = Value::Null;
    let mut reg_addr_ty = None;
    let mut reg_addr_ty_async = None;
    match im {
        None => {
            cx.warn(format!("block {name}: no inherent impl found"));
            m.insert("impl_cfg".into(), Value::Null);
            m.insert("impl_cfg_raw".into(), Value::Null);
        }
        Some(im) => {
            let (c, r) = cfg_of(&im.attrs);
            m.insert("impl_cfg".into(), json!(c));
            m.insert("impl_cfg_raw".into(), json!(r));
            // The generator emits new, interface, read_all_registers, read_all_registers_async (once each) before
            // the object methods; only the FIRST fn of each of those names is treated as fixed.
            let mut seen: HashSet<&'static str> = HashSet::new();
            for it in &im.items {
                let ImplItem::Fn(f) = it else {
                    cx.warn(format!("block {name}: non-fn impl item `{}`", cs(it).chars().take(60).collect::<String>()));
                    continue;
                };
                let fname = f.sig.ident.to_string();
                let fixed = ["new", "interface", "read_all_registers", "read_all_registers_async"]
                    .into_iter()
                    .find(|n| *n == fname && !seen.contains(n));
                match fixed {
                    Some(n) => {
                        seen.insert(n);
                        if n == "read_all_registers" {
                            reg_addr_ty = callback_addr_type(f);
                            read_all = read_all_facts(&name, f, cx);
                        } else if n == "read_all_registers_async" {
                            reg_addr_ty_async = callback_addr_type(f);
                            read_all_async = read_all_facts(&name, f, cx);
                        }
                    }
                    None => methods.push(method_facts(&name, f, cx)),
                }
            }
            for n in ["new", "interface", "read_all_registers", "read_all_registers_async"] {
                if !seen.contains(n) {
                    cx.warn(format!("block {name}: fn {n} missing"));
                }
            }
            if reg_addr_ty != reg_addr_ty_async {
                cx.warn(format!("block {name}: sync/async read_all callbacks have different address types"));
            }
        }
    }
    m.insert("register_address_type".into(), ostr(reg_addr_ty));
    m.insert("methods".into(), Value::Array(methods));
    m.insert("read_all".into(), read_all);
    m.insert("read_all_async".into(), read_all_async);
    Value::Object(m)
}

// ------------------------------------------------------------------------------------------------
// field sets

fn impl_entry(im: &ItemImpl) -> Value {
    let mut m = Map::new();
    m.insert("trait".into(), ostr(im.trait_.as_ref().map(|(_, p, _)| cs(p))));
    m.insert("for".into(), json!(cs(&*im.self_ty)));
    put_cfg(&mut m, &im.attrs);
    Value::Object(m)
}

fn impl_trait_last(im: &ItemImpl) -> Option<String> {
    im.trait_.as_ref().and_then(|(_, p, _)| p.segments.last().map(|s| s.ident.to_string()))
}

/// the single type argument of the impl's trait (`From<T>` -> T)
fn impl_trait_arg(im: &ItemImpl) -> Option<&Type> {
    let (_, p, _) = im.trait_.as_ref()?;
    type_args(p.segments.last()?).first().copied()
}

fn impl_mentions(im: &ItemImpl) -> HashSet<String> {
    let mut s = HashSet::new();
    idents_in(im.self_ty.to_token_stream(), &mut s);
    if let Some((_, p, _)) = &im.trait_ {
        idents_in(p.to_token_stream(), &mut s);
    }
    s
}

/// `Self { bits: EXPR }` in the tail of a constructor
fn ctor_bits_expr(f: &ImplItemFn) -> Option<&Expr> {
    match peel(block_tail(&f.block)?) {
        Expr::Struct(s) => s
            .fields
            .iter()
            .find(|fv| matches!(&fv.member, syn::Member::Named(n) if n == "bits"))
            .map(|fv| peel(&fv.expr)),
        _ => None,
    }
}

fn byte_array(e: &Expr) -> Option<Vec<Value>> {
    match e {
        Expr::Array(a) => a.elems.iter().map(|x| expr_int(x).map(|d| num_json(&d))).collect(),
        // `[b; N]` with literal b and N denotes N copies of b (what the array IS is reported, however it is spelled)
        Expr::Repeat(r) => {
            let elem = expr_int(&r.expr)?;
            let len: usize = expr_int(&r.len)?.parse().ok()?;
            if len > 4096 {
                return None;
            }
            Some(std::iter::repeat(num_json(&elem)).take(len).collect())
        }
        _ => None,
    }
}

fn load_store_facts(m: &mut Map<String, Value>, f: &ImplItemFn, want_prefix: &str, who: &str, cx: &mut Cx) {
    let mut v = LoadStoreFinder { found: None };
    v.visit_block(&f.block);
    let mut func = None;
    let mut carrier = None;
    let mut byte_order = None;
    let mut start = None;
    let mut end = None;
    match v.found {
        None => cx.warn(format!("{who}: no load_*/store_* call found")),
        Some(c) => {
            if let Expr::Path(p) = peel(&c.func) {
                if let Some(seg) = p.path.segments.last() {
                    let n = seg.ident.to_string();
                    if !n.starts_with(want_prefix) {
                        cx.warn(format!("{who}: expected a {want_prefix}* call, found {n}"));
                    }
                    func = Some(n);
                    let ta = type_args(seg);
                    carrier = ta.first().map(|t| cs(*t));
                    byte_order = ta.get(1).and_then(|t| type_last_ident(t));
                    if ta.len() != 2 {
                        cx.warn(format!("{who}: load/store call with {} type args", ta.len()));
                    }
                }
            }
            let args: Vec<&Expr> = c.args.iter().collect();
            let is_load = want_prefix == "load_";
            let (si, ei, bi, nargs) = if is_load { (1, 2, 0, 3) } else { (1, 2, 3, 4) };
            if args.len() != nargs {
                cx.warn(format!("{who}: load/store call with {} args", args.len()));
            }
            start = args.get(si).and_then(|e| expr_int(e));
            end = args.get(ei).and_then(|e| expr_int(e));
            if start.is_none() || end.is_none() {
                cx.warn(format!("{who}: start/end are not integer literals"));
            }
            let bits_arg_ok = args.get(bi).map(|e| {
                let s = cs(*e);
                if is_load {
                    s == "&self.bits"
                } else {
                    s == "&mutself.bits"
                }
            });
            if bits_arg_ok != Some(true) {
                cx.warn(format!("{who}: bits argument is not `&[mut] self.bits`"));
            }
        }
    }
    m.insert("func".into(), ostr(func));
    m.insert("carrier".into(), ostr(carrier));
    m.insert("byte_order".into(), ostr(byte_order));
    m.insert("start".into(), onum(start));
    m.insert("end".into(), onum(end));
}

fn method_on_raw<'a>(e: &'a Expr, var: &str) -> Option<(&'a syn::ExprMethodCall, String)> {
    match peel(e) {
        Expr::MethodCall(mc) if is_simple_ident(&mc.receiver, var) && mc.args.is_empty() => {
            Some((mc, mc.method.to_string()))
        }
        _ => None,
    }
}

fn getter_conv(f: &ImplItemFn) -> Option<&'static str> {
    let tail = peel(block_tail(&f.block)?);
    if is_simple_ident(tail, "raw") {
        return Some("none");
    }
    if let Some((_, m)) = method_on_raw(tail, "raw") {
        return match m.as_str() {
            "into" => Some("into"),
            "try_into" => Some("try_into"),
            _ => None,
        };
    }
    match tail {
        Expr::Unsafe(u) => {
            let inner = peel(block_tail(&u.block)?);
            if let Expr::MethodCall(mc) = inner {
                if mc.method == "unwrap_unchecked" && mc.args.is_empty() {
                    if let Some((_, m)) = method_on_raw(&mc.receiver, "raw") {
                        if m == "try_into" {
                            return Some("unsafe_into");
                        }
                    }
                }
            }
            None
        }
        Expr::Binary(b)
            if matches!(b.op, BinOp::Gt(_)) && is_simple_ident(&b.left, "raw") && expr_int(&b.right).as_deref() == Some("0") =>
        {
            Some("bool")
        }
        _ => None,
    }
}

fn setter_conv(f: &ImplItemFn) -> Option<&'static str> {
    for s in &f.block.stmts {
        if let Stmt::Local(l) = s {
            if pat_ident_name(&l.pat).as_deref() == Some("raw") {
                let init = peel(&l.init.as_ref()?.expr);
                if is_simple_ident(init, "value") {
                    return Some("none");
                }
                if let Expr::Cast(c) = init {
                    if is_simple_ident(&c.expr, "value") {
                        return Some("bool");
                    }
                }
                if let Some((_, m)) = method_on_raw(init, "value") {
                    if m == "into" {
                        return Some("into");
                    }
                }
                return None;
            }
        }
    }
    None
}

struct FsAcc {
    m: Map<String, Value>,
    name: String,
    new_as: Vec<Value>,
    getters: Vec<Value>,
    setters: Vec<Value>,
    impls: Vec<Value>,
}

fn fs_new(st: &ItemStruct, cx: &mut Cx) -> FsAcc {
    let name = st.ident.to_string();
    let mut m = Map::new();
    m.insert("name".into(), json!(name));
    put_cfg(&mut m, &st.attrs);
    m.insert("doc".into(), json!(doc_of(&st.attrs)));
    let bits = st.fields.iter().find(|f| f.ident.as_ref().map(|i| i == "bits").unwrap_or(false));
    let size_bytes = bits.and_then(|f| match peel_ty(&f.ty) {
        Type::Array(a) => expr_int(&a.len),
        _ => None,
    });
    if size_bytes.is_none() {
        cx.warn(format!("field set {name}: no `bits: [u8; N]` field"));
    }
    m.insert("size_bytes".into(), onum(size_bytes));
    for k in ["size_bits", "new", "new_zero_len", "debug_fields", "debug_struct_name", "defmt_feature", "defmt"] {
        m.insert(k.into(), Value::Null);
    }
    FsAcc { m, name, new_as: vec![], getters: vec![], setters: vec![], impls: vec![] }
}

fn fs_inherent(acc: &mut FsAcc, im: &ItemImpl, cx: &mut Cx) {
    let set = acc.name.clone();
    for it in &im.items {
        let ImplItem::Fn(f) = it else {
            cx.warn(format!("field set {set}: non-fn item in inherent impl"));
            continue;
        };
        let fname = f.sig.ident.to_string();
        let who = format!("field set {set} fn {fname}");
        if f.sig.receiver().is_none() {
            // constructors
            let bits = ctor_bits_expr(f);
            if fname == "new_zero" {
                let len = match bits {
                    Some(Expr::Repeat(r)) if expr_int(&r.expr).as_deref() == Some("0") => expr_int(&r.len),
                    _ => None,
                };
                if len.is_none() {
                    cx.warn(format!("{who}: body is not `Self {{ bits: [0; N] }}`"));
                }
                acc.m.insert("new_zero_len".into(), onum(len));
            } else if fname == "new" || fname.starts_with("new_as_") {
                let bytes = bits.and_then(byte_array);
                if bytes.is_none() {
                    cx.warn(format!("{who}: body is not `Self {{ bits: [b, ..] }}`"));
                }
                let bytes = bytes.map(Value::Array).unwrap_or(Value::Null);
                if fname == "new" {
                    acc.m.insert("new".into(), bytes);
                } else {
                    acc.new_as.push(json!({"name": fname, "bytes": bytes, "doc": doc_of(&f.attrs)}));
                }
            } else {
                cx.warn(format!("{who}: unknown associated function"));
            }
            continue;
        }
        let value_arg = f.sig.inputs.iter().find_map(|a| match a {
            FnArg::Typed(pt) if pat_ident_name(&pt.pat).as_deref() == Some("value") => Some(&*pt.ty),
            _ => None,
        });
        let mut m = Map::new();
        m.insert("name".into(), json!(fname));
        put_cfg(&mut m, &f.attrs);
        m.insert("doc".into(), json!(doc_of(&f.attrs)));
        match value_arg {
            None => {
                load_store_facts(&mut m, f, "load_", &who, cx);
                let ret = match &f.sig.output {
                    ReturnType::Type(_, t) => Some(cs(&**t)),
                    ReturnType::Default => None,
                };
                m.insert("ret".into(), ostr(ret));
                let conv = getter_conv(f);
                if conv.is_none() {
                    cx.warn(format!("{who}: unrecognised getter conversion"));
                }
                m.insert("conv".into(), json!(conv));
                acc.getters.push(Value::Object(m));
            }
            Some(ty) => {
                load_store_facts(&mut m, f, "store_", &who, cx);
                m.insert("arg".into(), json!(cs(ty)));
                let conv = setter_conv(f);
                if conv.is_none() {
                    cx.warn(format!("{who}: unrecognised setter conversion"));
                }
                m.insert("conv".into(), json!(conv));
                acc.setters.push(Value::Object(m));
            }
        }
    }
}

fn defmt_impl_facts(im: &ItemImpl, who: &str, cx: &mut Cx) -> Value {
    let mut m = Map::new();
    put_cfg(&mut m, &im.attrs);
    m.insert("feature".into(), ostr(last_cfg_feature(&im.attrs)));
    let mut format = None;
    let mut args: Option<Vec<Value>> = None;
    let mut finder = MacroFinder { last_ident: "write", found: None };
    finder.visit_item_impl(im);
    if let Some(mac) = finder.found {
        let parser = syn::punctuated::Punctuated::<Expr, syn::Token![,]>::parse_terminated;
        if let Ok(list) = syn::parse::Parser::parse2(parser, mac.tokens.clone()) {
            let list: Vec<&Expr> = list.iter().collect();
            if let Some(Expr::Lit(l)) = list.get(1).map(|e| peel(e)) {
                if let syn::Lit::Str(s) = &l.lit {
                    format = Some(s.value());
                }
            }
            args = Some(
                list.iter()
                    .skip(2)
                    .map(|e| match peel(e) {
                        Expr::MethodCall(mc) if is_simple_ident(&mc.receiver, "self") => json!(mc.method.to_string()),
                        _ => Value::Null,
                    })
                    .collect(),
            );
        }
    }
    if format.is_none() {
        cx.warn(format!("{who}: defmt::write! format string not found"));
    }
    m.insert("format".into(), ostr(format));
    m.insert("args".into(), args.map(Value::Array).unwrap_or(Value::Null));
    Value::Object(m)
}

fn fs_trait_impl(acc: &mut FsAcc, im: &ItemImpl, cx: &mut Cx) {
    let set = acc.name.clone();
    let segs: Vec<String> =
        im.trait_.as_ref().map(|(_, p, _)| p.segments.iter().map(|s| s.ident.to_string()).collect()).unwrap_or_default();
    match segs.last().map(|s| s.as_str()) {
        Some("FieldSet") => {
            let c = im.items.iter().find_map(|it| match it {
                ImplItem::Const(c) if c.ident == "SIZE_BITS" => Some(c),
                _ => None,
            });
            let v = c.and_then(|c| expr_int(&c.expr));
            if v.is_none() {
                cx.warn(format!("field set {set}: no integer `const SIZE_BITS`"));
            }
            acc.m.insert("size_bits".into(), onum(v));
        }
        Some("Debug") => {
            let mut v = DebugFieldFinder::default();
            v.visit_item_impl(im);
            acc.m.insert("debug_fields".into(), json!(v.fields));
            acc.m.insert("debug_struct_name".into(), ostr(v.struct_name));
        }
        Some("Format") if segs.first().map(|s| s == "defmt").unwrap_or(false) => {
            let feature = last_cfg_feature(&im.attrs);
            if feature.is_none() {
                cx.warn(format!("field set {set}: defmt::Format impl without trailing #[cfg(feature = \"..\")]"));
            }
            acc.m.insert("defmt_feature".into(), ostr(feature));
            acc.m.insert("defmt".into(), defmt_impl_facts(im, &format!("field set {set}"), cx));
        }
        _ => {}
    }
}

fn fs_finish(mut acc: FsAcc) -> Value {
    acc.m.insert("new_as".into(), Value::Array(acc.new_as));
    acc.m.insert("getters".into(), Value::Array(acc.getters));
    acc.m.insert("setters".into(), Value::Array(acc.setters));
    acc.m.insert("impls".into(), Value::Array(acc.impls));
    Value::Object(acc.m)
}

/// arms of the `match self {..}` in FieldSetValue's Debug / defmt::Format impls
fn fsv_arms(im: &ItemImpl) -> Value {
    let mut finder = MatchFinder { found: None };
    finder.visit_item_impl(im);
    let Some(mt) = finder.found else {
        return Value::Null;
    };
    let arms: Vec<Value> = mt
        .arms
        .iter()
        .map(|arm| {
            let mut m = Map::new();
            put_cfg(&mut m, &arm.attrs);
            let variant = match &arm.pat {
                Pat::Wild(_) => Some("wild".to_string()),
                Pat::TupleStruct(ts) => ts.path.segments.last().map(|s| s.ident.to_string()),
                Pat::Path(p) => p.path.segments.last().map(|s| s.ident.to_string()),
                _ => None,
            };
            m.insert("variant".into(), ostr(variant));
            Value::Object(m)
        })
        .collect();
    Value::Array(arms)
}

// ------------------------------------------------------------------------------------------------
// enums

struct EnumAcc {
    m: Map<String, Value>,
    name: String,
    impls: Vec<Value>,
}

fn enum_new(en: &ItemEnum, cx: &mut Cx) -> EnumAcc {
    let name = en.ident.to_string();
    let mut m = Map::new();
    m.insert("name".into(), json!(name));
    put_cfg(&mut m, &en.attrs);
    m.insert("doc".into(), json!(doc_of(&en.attrs)));
    let mut repr = None;
    let mut derives: Vec<String> = Vec::new();
    let mut defmt_feature = None;
    for a in &en.attrs {
        let Meta::List(ml) = &a.meta else { continue };
        if a.path().is_ident("repr") {
            repr = Some(compact(ml.tokens.clone()));
        } else if a.path().is_ident("derive") {
            for p in split_commas(ml.tokens.clone()) {
                if !p.is_empty() {
                    derives.push(compact(p.into_iter().collect()));
                }
            }
        } else if a.path().is_ident("cfg_attr") {
            let pieces = split_commas(ml.tokens.clone());
            let is_defmt_derive = pieces.iter().skip(1).any(|p| compact(p.iter().cloned().collect()) == "derive(defmt::Format)");
            if is_defmt_derive {
                defmt_feature = pieces.first().and_then(|p| feature_of_tokens(p));
                if defmt_feature.is_none() {
                    cx.warn(format!("enum {name}: cfg_attr(.., derive(defmt::Format)) predicate is not feature = \"..\""));
                }
            }
        }
    }
    m.insert("repr".into(), ostr(repr));
    m.insert("derives".into(), json!(derives));
    m.insert("defmt_feature".into(), ostr(defmt_feature));
    let variants: Vec<Value> = en
        .variants
        .iter()
        .map(|v| {
            let mut vm = Map::new();
            vm.insert("name".into(), json!(v.ident.to_string()));
            put_cfg(&mut vm, &v.attrs);
            let disc = v.discriminant.as_ref().and_then(|(_, e)| expr_int(e));
            if v.discriminant.is_some() && disc.is_none() {
                cx.warn(format!("enum {name} variant {}: discriminant is not an integer literal", v.ident));
            }
            vm.insert("discriminant".into(), onum(disc));
            vm.insert("payload".into(), json!(!v.fields.is_empty()));
            vm.insert(
                "payload_type".into(),
                match v.fields.iter().next() {
                    Some(f) => json!(cs(&f.ty)),
                    None => Value::Null,
                },
            );
            vm.insert("doc".into(), json!(doc_of(&v.attrs)));
            Value::Object(vm)
        })
        .collect();
    m.insert("variants".into(), Value::Array(variants));
    for k in ["base_type", "fallible", "from_arms", "default", "into_arms", "into_type"] {
        m.insert(k.into(), Value::Null);
    }
    EnumAcc { m, name, impls: vec![] }
}

/// target of a From/TryFrom arm: (target, wrapped)
fn from_target(e: &Expr) -> (Option<String>, Option<&'static str>) {
    match peel(e) {
        Expr::Path(_) => {
            let segs = expr_path_segments(e).unwrap_or_default();
            if segs.len() == 2 && segs[0] == "Self" {
                (Some(segs[1].clone()), None)
            } else {
                (None, None)
            }
        }
        Expr::Call(c) => {
            let segs = expr_path_segments(&c.func).unwrap_or_default();
            let strs: Vec<&str> = segs.iter().map(|s| s.as_str()).collect();
            match (strs.as_slice(), c.args.len()) {
                (["Ok"], 1) => (from_target(&c.args[0]).0, Some("ok")),
                (["Err"], 1) => (Some("err".into()), Some("err")),
                (["Self", "default"], 0) => (Some("default".into()), None),
                (["Self", v], 1) => (Some(format!("catch_all:{v}")), None),
                _ => (None, None),
            }
        }
        _ => (None, None),
    }
}

fn enum_from_impl(acc: &mut EnumAcc, im: &ItemImpl, fallible: bool, cx: &mut Cx) {
    let en = acc.name.clone();
    acc.m.insert("base_type".into(), ostr(impl_trait_arg(im).map(cs)));
    acc.m.insert("fallible".into(), json!(fallible));
    let f = im.items.iter().find_map(|it| match it {
        ImplItem::Fn(f) => Some(f),
        _ => None,
    });
    let Some(mt) = f.and_then(find_match) else {
        cx.warn(format!("enum {en}: no match expression in From/TryFrom impl"));
        return;
    };
    let mut arms = Vec::new();
    for arm in &mt.arms {
        let mut m = Map::new();
        put_cfg(&mut m, &arm.attrs);
        let mut binding = None;
        let pattern = match &arm.pat {
            Pat::Wild(_) => json!("wild"),
            Pat::Ident(pi) if pi.subpat.is_none() => {
                binding = Some(pi.ident.to_string());
                json!("wild")
            }
            p => match pat_int(p) {
                Some(d) => num_json(&d),
                None => {
                    cx.warn(format!("enum {en}: unrecognised From pattern `{}`", cs(p)));
                    Value::Null
                }
            },
        };
        if arm.guard.is_some() {
            cx.warn(format!("enum {en}: From arm with guard"));
        }
        m.insert("pattern".into(), pattern);
        m.insert("binding".into(), ostr(binding));
        let (target, wrapped) = from_target(&arm.body);
        if target.is_none() {
            cx.warn(format!("enum {en}: unrecognised From arm body `{}`", cs(&*arm.body)));
        }
        if target.as_deref() == Some("err") {
            // Err(::device_driver::ConversionError { source: val, target: "Name" })
            let mut tname = None;
            if let Expr::Call(c) = peel(&arm.body) {
                if let Some(Expr::Struct(s)) = c.args.first().map(peel) {
                    for fv in &s.fields {
                        if matches!(&fv.member, syn::Member::Named(n) if n == "target") {
                            if let Expr::Lit(l) = peel(&fv.expr) {
                                if let syn::Lit::Str(s) = &l.lit {
                                    tname = Some(s.value());
                                }
                            }
                        }
                    }
                }
            }
            m.insert("err_target_name".into(), ostr(tname));
        }
        m.insert("target".into(), ostr(target));
        m.insert("wrapped".into(), json!(wrapped));
        arms.push(Value::Object(m));
    }
    acc.m.insert("from_arms".into(), Value::Array(arms));
}

fn enum_default_impl(acc: &mut EnumAcc, im: &ItemImpl, cx: &mut Cx) {
    let en = acc.name.clone();
    let tail = im
        .items
        .iter()
        .find_map(|it| match it {
            ImplItem::Fn(f) if f.sig.ident == "default" => Some(f),
            _ => None,
        })
        .and_then(|f| block_tail(&f.block))
        .map(peel);
    let v = match tail {
        Some(Expr::Path(_)) => {
            let segs = expr_path_segments(tail.unwrap()).unwrap_or_default();
            if segs.len() == 2 && segs[0] == "Self" {
                Some(json!({"variant": segs[1], "payload": Value::Null}))
            } else {
                None
            }
        }
        Some(Expr::Call(c)) => {
            let segs = expr_path_segments(&c.func).unwrap_or_default();
            if segs.len() == 2 && segs[0] == "Self" && c.args.len() == 1 {
                match expr_int(&c.args[0]) {
                    Some(d) => Some(json!({"variant": segs[1], "payload": num_json(&d)})),
                    None => None,
                }
            } else {
                None
            }
        }
        _ => None,
    };
    match v {
        Some(v) => {
            acc.m.insert("default".into(), v);
        }
        None => {
            cx.warn(format!("enum {en}: unrecognised Default impl body"));
            acc.m.insert("default".into(), json!({"variant": Value::Null, "payload": Value::Null}));
        }
    }
}

fn enum_into_impl(acc: &mut EnumAcc, im: &ItemImpl, cx: &mut Cx) {
    let en = acc.name.clone();
    acc.m.insert("into_type".into(), json!(cs(&*im.self_ty)));
    let f = im.items.iter().find_map(|it| match it {
        ImplItem::Fn(f) => Some(f),
        _ => None,
    });
    let Some(mt) = f.and_then(find_match) else {
        cx.warn(format!("enum {en}: no match expression in Into impl"));
        return;
    };
    let mut arms = Vec::new();
    for arm in &mt.arms {
        let mut m = Map::new();
        put_cfg(&mut m, &arm.attrs);
        let (variant, value) = match &arm.pat {
            Pat::Path(p) => (p.path.segments.last().map(|s| s.ident.to_string()), onum(expr_int(&arm.body))),
            Pat::Ident(pi) if pi.subpat.is_none() && pi.by_ref.is_none() => {
                // a bare ident pattern could be a unit variant imported by name; the generator never emits it
                (Some(pi.ident.to_string()), onum(expr_int(&arm.body)))
            }
            Pat::TupleStruct(ts) => {
                let variant = ts.path.segments.last().map(|s| s.ident.to_string());
                let binding = ts.elems.first().and_then(pat_ident_name);
                let value = match (&binding, ts.elems.len()) {
                    (Some(b), 1) if is_simple_ident(&arm.body, b) => json!("payload"),
                    _ => onum(expr_int(&arm.body)),
                };
                (variant, value)
            }
            Pat::Wild(_) => (Some("wild".to_string()), onum(expr_int(&arm.body))),
            _ => (None, Value::Null),
        };
        if variant.is_none() || value.is_null() {
            cx.warn(format!("enum {en}: unrecognised Into arm `{} => {}`", cs(&arm.pat), cs(&*arm.body)));
        }
        m.insert("variant".into(), ostr(variant));
        m.insert("value".into(), value);
        arms.push(Value::Object(m));
    }
    acc.m.insert("into_arms".into(), Value::Array(arms));
}

fn enum_finish(mut acc: EnumAcc) -> Value {
    acc.m.insert("impls".into(), Value::Array(acc.impls));
    Value::Object(acc.m)
}

// ------------------------------------------------------------------------------------------------
// items

fn item_entry(it: &Item, prefix: &str) -> Value {
    let (kind, name, tr, attrs): (&str, String, Option<String>, &[Attribute]) = match it {
        Item::Struct(s) => ("struct", s.ident.to_string(), None, &s.attrs),
        Item::Enum(e) => ("enum", e.ident.to_string(), None, &e.attrs),
        Item::Mod(m) => ("mod", m.ident.to_string(), None, &m.attrs),
        Item::Fn(f) => ("fn", f.sig.ident.to_string(), None, &f.attrs),
        Item::Impl(i) => ("impl", cs(&*i.self_ty), i.trait_.as_ref().map(|(_, p, _)| cs(p)), &i.attrs),
        Item::Use(u) => ("other", format!("use:{}", cs(&u.tree)), None, &u.attrs),
        Item::Macro(m) => ("other", format!("macro:{}", cs(&m.mac.path)), None, &m.attrs),
        Item::Const(c) => ("other", format!("const:{}", c.ident), None, &c.attrs),
        Item::Static(c) => ("other", format!("static:{}", c.ident), None, &c.attrs),
        Item::Type(c) => ("other", format!("type:{}", c.ident), None, &c.attrs),
        Item::Trait(c) => ("other", format!("trait:{}", c.ident), None, &c.attrs),
        Item::Union(c) => ("other", format!("union:{}", c.ident), None, &c.attrs),
        _ => ("other", "?".to_string(), None, &[]),
    };
    let mut m = Map::new();
    m.insert("kind".into(), json!(kind));
    m.insert("path".into(), json!(format!("{prefix}{name}")));
    m.insert("name".into(), json!(name));
    m.insert("trait".into(), ostr(tr));
    put_cfg(&mut m, attrs);
    Value::Object(m)
}

// ------------------------------------------------------------------------------------------------
// entry point

struct BlockAcc<'a> {
    st: &'a ItemStruct,
    im: Option<&'a ItemImpl>,
}

fn field_sets_mod(items: &[Item], cx: &mut Cx) -> (Vec<Value>, Value) {
    let mut sets: Vec<FsAcc> = Vec::new();
    let mut fsv = Map::new();
    let mut fsv_seen = false;
    let mut from_impls: Vec<Value> = Vec::new();
    fsv.insert("variants".into(), Value::Null);
    fsv.insert("defmt_feature".into(), Value::Null);
    fsv.insert("debug_arms".into(), Value::Null);
    fsv.insert("defmt_arms".into(), Value::Null);
    fsv.insert("defmt_cfg".into(), Value::Null);

    for it in items {
        match it {
            Item::Struct(st) => sets.push(fs_new(st, cx)),
            Item::Enum(en) if en.ident == "FieldSetValue" => {
                if fsv_seen {
                    cx.warn("field_sets: more than one FieldSetValue enum");
                }
                fsv_seen = true;
                put_cfg(&mut fsv, &en.attrs);
                let variants: Vec<Value> = en
                    .variants
                    .iter()
                    .map(|v| {
                        let mut m = Map::new();
                        m.insert("name".into(), json!(v.ident.to_string()));
                        put_cfg(&mut m, &v.attrs);
                        m.insert("doc".into(), json!(doc_of(&v.attrs)));
                        m.insert(
                            "payload_type".into(),
                            match v.fields.iter().next() {
                                Some(f) => json!(cs(&f.ty)),
                                None => Value::Null,
                            },
                        );
                        Value::Object(m)
                    })
                    .collect();
                fsv.insert("variants".into(), Value::Array(variants));
            }
            Item::Enum(en) => cx.warn(format!("field_sets: unexpected enum {}", en.ident)),
            Item::Impl(im) => {
                let mentions = impl_mentions(im);
                let self_ident = type_last_ident(&im.self_ty);
                let mut attached = false;
                // most recent field set of each mentioned name
                let mut done: HashSet<String> = HashSet::new();
                for idx in (0..sets.len()).rev() {
                    let n = sets[idx].name.clone();
                    if !mentions.contains(&n) || done.contains(&n) {
                        continue;
                    }
                    done.insert(n.clone());
                    attached = true;
                    sets[idx].impls.push(impl_entry(im));
                    if self_ident.as_deref() == Some(n.as_str()) {
                        if im.trait_.is_none() {
                            fs_inherent(&mut sets[idx], im, cx);
                        } else {
                            fs_trait_impl(&mut sets[idx], im, cx);
                        }
                    }
                }
                // impls are pushed in reverse set order above only when one impl mentions several sets; fine.
                if self_ident.as_deref() == Some("FieldSetValue") {
                    attached = true;
                    match impl_trait_last(im).as_deref() {
                        Some("From") => {
                            let mut m = Map::new();
                            m.insert("for".into(), ostr(impl_trait_arg(im).and_then(type_last_ident)));
                            put_cfg(&mut m, &im.attrs);
                            // body: Self::X(val)
                            let variant = im
                                .items
                                .iter()
                                .find_map(|it| match it {
                                    ImplItem::Fn(f) => block_tail(&f.block),
                                    _ => None,
                                })
                                .and_then(|e| match peel(e) {
                                    Expr::Call(c) => expr_path_last(&c.func),
                                    _ => None,
                                });
                            m.insert("variant".into(), ostr(variant));
                            from_impls.push(Value::Object(m));
                        }
                        Some("Debug") => {
                            fsv.insert("debug_arms".into(), fsv_arms(im));
                        }
                        Some("Format") => {
                            fsv.insert("defmt_feature".into(), ostr(last_cfg_feature(&im.attrs)));
                            let (c, _) = cfg_of(&im.attrs);
                            fsv.insert("defmt_cfg".into(), json!(c));
                            fsv.insert("defmt_arms".into(), fsv_arms(im));
                        }
                        other => cx.warn(format!("field_sets: unexpected impl {other:?} for FieldSetValue")),
                    }
                }
                if !attached {
                    cx.warn(format!(
                        "field_sets: impl `{}` for `{}` belongs to no field set",
                        im.trait_.as_ref().map(|(_, p, _)| cs(p)).unwrap_or_default(),
                        cs(&*im.self_ty)
                    ));
                }
            }
            Item::Use(_) => {}
            other => cx.warn(format!("field_sets: unexpected item `{}`", cs(other).chars().take(60).collect::<String>())),
        }
    }
    if !fsv_seen {
        cx.warn("field_sets: no FieldSetValue enum");
    }
    fsv.insert("from_impls".into(), Value::Array(from_impls));
    (sets.into_iter().map(fs_finish).collect(), Value::Object(fsv))
}

pub fn extract(file: &syn::File) -> (Value, Vec<String>) {
    let mut cx = Cx { warnings: Vec::new() };
    let cx = &mut cx;

    let mut items_out: Vec<Value> = Vec::new();
    let mut blocks: Vec<BlockAcc> = Vec::new();
    let mut enums: Vec<EnumAcc> = Vec::new();
    let mut field_sets: Vec<Value> = Vec::new();
    let mut field_set_value = Value::Null;
    let mut fs_mod_seen = false;

    for it in &file.items {
        items_out.push(item_entry(it, ""));
        match it {
            Item::Struct(st) => blocks.push(BlockAcc { st, im: None }),
            Item::Impl(im) if im.trait_.is_none() => {
                let target = type_last_ident(&im.self_ty);
                let slot = blocks
                    .iter_mut()
                    .rev()
                    .find(|b| b.im.is_none() && Some(b.st.ident.to_string()) == target);
                match slot {
                    Some(b) => b.im = Some(im),
                    None => cx.warn(format!("top level: inherent impl for `{}` has no (free) struct", cs(&*im.self_ty))),
                }
            }
            Item::Impl(im) => {
                let mentions = impl_mentions(im);
                let self_ident = type_last_ident(&im.self_ty);
                let mut attached = false;
                let mut done: HashSet<String> = HashSet::new();
                for idx in (0..enums.len()).rev() {
                    let n = enums[idx].name.clone();
                    if !mentions.contains(&n) || done.contains(&n) {
                        continue;
                    }
                    done.insert(n.clone());
                    attached = true;
                    enums[idx].impls.push(impl_entry(im));
                    let tl = impl_trait_last(im);
                    if self_ident.as_deref() == Some(n.as_str()) {
                        match tl.as_deref() {
                            Some("Default") => enum_default_impl(&mut enums[idx], im, cx),
                            Some("From") => enum_from_impl(&mut enums[idx], im, false, cx),
                            Some("TryFrom") => enum_from_impl(&mut enums[idx], im, true, cx),
                            _ => {}
                        }
                    } else if tl.as_deref() == Some("From")
                        && impl_trait_arg(im).and_then(type_last_ident).as_deref() == Some(n.as_str())
                    {
                        enum_into_impl(&mut enums[idx], im, cx);
                    }
                }
                if !attached {
                    cx.warn(format!(
                        "top level: trait impl `{}` for `{}` belongs to no enum",
                        im.trait_.as_ref().map(|(_, p, _)| cs(p)).unwrap_or_default(),
                        cs(&*im.self_ty)
                    ));
                }
            }
            Item::Enum(en) => enums.push(enum_new(en, cx)),
            Item::Mod(md) if md.ident == "field_sets" => {
                if fs_mod_seen {
                    cx.warn("top level: more than one `mod field_sets`");
                }
                fs_mod_seen = true;
                match &md.content {
                    Some((_, inner)) => {
                        for it in inner {
                            items_out.push(item_entry(it, "field_sets::"));
                        }
                        let (sets, fsv) = field_sets_mod(inner, cx);
                        field_sets.extend(sets);
                        field_set_value = fsv;
                    }
                    None => cx.warn("top level: `mod field_sets;` without body"),
                }
            }
            other => cx.warn(format!("top level: unexpected item `{}`", cs(other).chars().take(60).collect::<String>())),
        }
    }
    if !fs_mod_seen {
        cx.warn("top level: no `mod field_sets`");
    }

    let blocks: Vec<Value> = blocks.iter().map(|b| block_facts(b.st, b.im, cx)).collect();
    let enums: Vec<Value> = enums.into_iter().map(enum_finish).collect();

    let facts = json!({
        "blocks": blocks,
        "field_sets": field_sets,
        "field_set_value": field_set_value,
        "enums": enums,
        "items": items_out,
    });
    (facts, std::mem::take(&mut cx.warnings))
}

#[cfg(test)]
mod tests {
    use super::*;
    use quote::quote;

    fn cfg_item(ts: TokenStream) -> (Vec<String>, Vec<String>) {
        let it: syn::ItemStruct = syn::parse2(ts).unwrap();
        cfg_of(&it.attrs)
    }

    #[test]
    fn cfg_flattening() {
        let (c, r) = cfg_item(quote! { #[cfg(all(a, all(feature = "x y", not(z)), any(p, all(q, r))))] #[doc = "d"] #[cfg(b)] struct S; });
        assert_eq!(c, vec!["a", "any(p,all(q,r))", "b", "feature=\"xy\"", "not(z)"]);
        assert_eq!(r, vec!["all(a,all(feature=\"xy\",not(z)),any(p,all(q,r)))", "b"]);
        let (c, _) = cfg_item(quote! { #[cfg(all())] struct S; });
        assert!(c.is_empty());
        let (c, _) = cfg_item(quote! { #[cfg(all(a, a,),)] struct S; });
        assert_eq!(c, vec!["a", "a"]);
        let (c, r) = cfg_item(quote! { struct S; });
        assert!(c.is_empty() && r.is_empty());
    }

    #[test]
    fn integers() {
        let e = |ts: TokenStream| expr_int(&syn::parse2::<Expr>(ts).unwrap());
        assert_eq!(e(quote! { 3 }).as_deref(), Some("3"));
        assert_eq!(e(quote! { -3 }).as_deref(), Some("-3"));
        assert_eq!(e(quote! { (-(0x10u8)) }).as_deref(), Some("-16"));
        assert_eq!(e(quote! { - -3 }).as_deref(), Some("3"));
        assert_eq!(e(quote! { x }), None);
        // one negative literal token, as the generator produces it
        let neg = proc_macro2::Literal::i64_unsuffixed(-7);
        assert_eq!(e(quote! { #neg }).as_deref(), Some("-7"));
        let big = proc_macro2::Literal::i128_unsuffixed(-170141183460469231731687303715884105728);
        assert_eq!(e(quote! { #big }).as_deref(), Some("-170141183460469231731687303715884105728"));
        // None-delimited group
        let g = proc_macro2::Group::new(Delimiter::None, quote! { 5 });
        assert_eq!(e(quote! { #g }).as_deref(), Some("5"));
        assert_eq!(num_json("9223372036854775807"), json!(9223372036854775807i64));
        assert_eq!(num_json("9223372036854775808"), json!("9223372036854775808"));
        assert_eq!(num_json("-9223372036854775809"), json!("-9223372036854775809"));
        assert_eq!(doc_of(&syn::parse2::<syn::ItemStruct>(quote! { #[doc = " a"] #[doc = ""] #[doc = "b "] struct S; }).unwrap().attrs), "a\n\nb");
    }

    #[test]
    fn unexpected_shapes_do_not_panic() {
        let f: syn::File = syn::parse2(quote! {
            pub struct Dev<I> { x: I }
            impl<I> Dev<I> { const X: u8 = 1; pub fn foo(&mut self) {} pub fn read_all_registers(&mut self) { let reg = 1; callback(); } }
            impl Foo {}
            impl From<u8> for Nothing { fn from(v: u8) -> Self { loop {} } }
            pub mod field_sets { pub struct A; impl A { pub fn new() {} pub fn g(&self) {} pub fn s(&mut self, value: u8) {} } enum Z {} fn f() {} }
            pub enum E { A = 1 + 2, B(u8, u8) }
            impl Default for E { fn default() -> Self { todo!() } }
            impl From<u8> for E { fn from(v: u8) -> Self { match v { 1..=2 => Self::A, x if x > 3 => Self::B(x, x), _ => panic!() } } }
            impl From<E> for u8 { fn from(v: E) -> Self { match v { E::A | E::B(..) => 1 } } }
            macro_rules! m { () => {} }
        })
        .unwrap();
        let (facts, warnings) = extract(&f);
        assert!(facts["blocks"].as_array().unwrap().len() == 1);
        assert!(!warnings.is_empty());
    }
}
