fn main() {}
