//! gen_runner: runs `device_driver_generation::transform_*` in-process on JSON-lines cases and reports
//! status / hashes / pretty output / MIR debug print / structural facts.  Protocol: see FACTS.md.

use std::cell::RefCell;
use std::io::{BufRead, BufWriter, Read, Write};
use std::panic::{catch_unwind, AssertUnwindSafe};

use proc_macro2::{TokenStream, TokenTree};
use serde_json::{json, Map, Value};

mod facts;

const STACK_BYTES: usize = 512 << 20;

thread_local! {
    static PANIC_LOC: RefCell<Option<String>> = const { RefCell::new(None) };
}

fn payload_string(p: Box<dyn std::any::Any + Send>) -> String {
    if let Some(s) = p.downcast_ref::<&str>() {
        (*s).to_string()
    } else if let Some(s) = p.downcast_ref::<String>() {
        s.clone()
    } else {
        "<non-string panic payload>".to_string()
    }
}

/// Runs `f` under catch_unwind; Err = (payload string, location if known).
fn guarded<T>(f: impl FnOnce() -> T) -> Result<T, (String, Option<String>)> {
    PANIC_LOC.with(|l| *l.borrow_mut() = None);
    match catch_unwind(AssertUnwindSafe(f)) {
        Ok(v) => Ok(v),
        Err(p) => {
            let loc = PANIC_LOC.with(|l| l.borrow_mut().take());
            Err((payload_string(p), loc))
        }
    }
}

fn fnv1a64(bytes: &[u8]) -> u64 {
    let mut h: u64 = 0xcbf29ce484222325;
    for b in bytes {
        h ^= *b as u64;
        h = h.wrapping_mul(0x100000001b3);
    }
    h
}

/// If `tt` starts with `[::] core|std :: compile_error ! <group>` returns (message, tokens consumed).
fn match_compile_error(tt: &[TokenTree]) -> Option<(String, usize)> {
    fn is_p(t: Option<&TokenTree>, c: char) -> bool {
        matches!(t, Some(TokenTree::Punct(p)) if p.as_char() == c)
    }
    fn is_i(t: Option<&TokenTree>, names: &[&str]) -> bool {
        matches!(t, Some(TokenTree::Ident(i)) if names.iter().any(|n| i == n))
    }
    let mut i = 0;
    if is_p(tt.get(i), ':') && is_p(tt.get(i + 1), ':') {
        i += 2;
    }
    if is_i(tt.get(i), &["core", "std"]) && is_p(tt.get(i + 1), ':') && is_p(tt.get(i + 2), ':') {
        i += 3;
    }
    if !is_i(tt.get(i), &["compile_error"]) || !is_p(tt.get(i + 1), '!') {
        return None;
    }
    i += 2;
    let Some(TokenTree::Group(g)) = tt.get(i) else {
        return None;
    };
    let msg = match syn::parse2::<syn::LitStr>(g.stream()) {
        Ok(l) => l.value(),
        Err(_) => g.stream().to_string(),
    };
    Some((msg, i + 1))
}

/// Some(messages, other_tokens_present) iff the stream begins with a compile_error! invocation.
fn compile_errors(ts: &TokenStream) -> Option<(Vec<String>, bool)> {
    let tt: Vec<TokenTree> = ts.clone().into_iter().collect();
    match_compile_error(&tt)?;
    let mut msgs = Vec::new();
    let mut other = false;
    let mut i = 0;
    while i < tt.len() {
        if let Some((m, n)) = match_compile_error(&tt[i..]) {
            msgs.push(m);
            i += n;
        } else {
            if !matches!(&tt[i], TokenTree::Punct(p) if p.as_char() == ';') {
                other = true;
            }
            i += 1;
        }
    }
    Some((msgs, other))
}

fn syn_err_string(e: &syn::Error) -> String {
    e.clone().into_iter().map(|e| e.to_string()).collect::<Vec<_>>().join(" | ")
}

fn wants(case: &Value) -> Vec<String> {
    match case.get("want").and_then(|w| w.as_array()) {
        Some(a) => a.iter().filter_map(|v| v.as_str().map(|s| s.to_string())).collect(),
        None => vec!["facts".to_string()],
    }
}

fn mir_string(syntax: &str, text: &str) -> String {
    use device_driver_generation as g;
    let r = guarded(|| match syntax {
        "dsl" => match syn::parse_str::<TokenStream>(text) {
            Err(e) => format!("ERR: DSL-LEX: {e}"),
            Ok(ts) => match g::_private_transform_dsl_mir(ts) {
                Ok(m) => format!("{m:#?}"),
                Err(e) => format!("ERR: {}", syn_err_string(&e)),
            },
        },
        "json" => match g::_private_transform_json_mir(text) {
            Ok(m) => format!("{m:#?}"),
            Err(e) => format!("ERR: {e:#}"),
        },
        "yaml" => match g::_private_transform_yaml_mir(text) {
            Ok(m) => format!("{m:#?}"),
            Err(e) => format!("ERR: {e:#}"),
        },
        "toml" => match g::_private_transform_toml_mir(text) {
            Ok(m) => format!("{m:#?}"),
            Err(e) => format!("ERR: {e:#}"),
        },
        other => format!("ERR: BAD-INPUT: unknown syntax {other:?}"),
    });
    match r {
        Ok(s) => s,
        Err((p, loc)) => match loc {
            Some(l) => format!("PANIC: {p} @ {l}"),
            None => format!("PANIC: {p}"),
        },
    }
}

fn bad_input(id: Value, msg: String) -> Value {
    json!({"id": id, "status": "error", "message": format!("BAD-INPUT: {msg}"),
           "parse_ok": Value::Null, "tokens_hash": Value::Null})
}

fn process_case(case: &Value) -> Value {
    use device_driver_generation as g;

    let id = case.get("id").cloned().unwrap_or(Value::Null);
    let Some(syntax) = case.get("syntax").and_then(|v| v.as_str()) else {
        return bad_input(id, "missing \"syntax\"".into());
    };
    let Some(text) = case.get("text").and_then(|v| v.as_str()) else {
        return bad_input(id, "missing \"text\"".into());
    };
    let name = case.get("name").and_then(|v| v.as_str()).unwrap_or("Dev");
    if !matches!(syntax, "dsl" | "json" | "yaml" | "toml") {
        return bad_input(id, format!("unknown syntax {syntax:?}"));
    }
    let want = wants(case);
    let w = |k: &str| want.iter().any(|x| x == k);

    let mut out = Map::new();
    out.insert("id".into(), id);
    out.insert("message".into(), Value::Null);
    out.insert("parse_ok".into(), Value::Null);
    out.insert("tokens_hash".into(), Value::Null);

    if w("mir") {
        out.insert("mir".into(), json!(mir_string(syntax, text)));
    }

    // ---- run the generator
    let generated: Result<Result<TokenStream, String>, (String, Option<String>)> = guarded(|| match syntax {
        "dsl" => match syn::parse_str::<TokenStream>(text) {
            Ok(ts) => Ok(g::transform_dsl(ts, name)),
            Err(e) => Err(format!("DSL-LEX: {e}")),
        },
        "json" => Ok(g::transform_json(text, name)),
        "yaml" => Ok(g::transform_yaml(text, name)),
        _ => Ok(g::transform_toml(text, name)),
    });

    let tokens = match generated {
        Err((payload, loc)) => {
            out.insert("status".into(), json!("panic"));
            out.insert("message".into(), json!(payload));
            out.insert("panic_location".into(), json!(loc));
            return Value::Object(out);
        }
        Ok(Err(lex)) => {
            out.insert("status".into(), json!("error"));
            out.insert("message".into(), json!(lex));
            return Value::Object(out);
        }
        Ok(Ok(ts)) => ts,
    };

    let token_string = tokens.to_string();
    out.insert("tokens_hash".into(), json!(format!("{:016x}", fnv1a64(token_string.as_bytes()))));

    if let Some((msgs, other)) = compile_errors(&tokens) {
        out.insert("status".into(), json!("error"));
        out.insert("message".into(), json!(msgs.join(" | ")));
        if other {
            out.insert("message_note".into(), json!("output contains tokens besides compile_error! invocations"));
        }
        if w("tokens") {
            out.insert("tokens".into(), json!(token_string));
        }
        return Value::Object(out);
    }

    out.insert("status".into(), json!("ok"));
    if w("tokens") {
        out.insert("tokens".into(), json!(token_string));
    }
    if w("internal") {
        // the type the emitted block structs declare for `base_address` (lir::Device::internal_address_type), read off
        // the token text without parsing it; all block structs of one device must agree
        let mut found: Vec<&str> = Vec::new();
        for (at, pat) in token_string.match_indices("base_address : ") {
            if let Some(ty) = token_string[at + pat.len()..].split(|c: char| !c.is_ascii_alphanumeric()).next() {
                let is_int_type = (ty.starts_with('u') || ty.starts_with('i')) && ty[1..].parse::<u32>().is_ok();
                if is_int_type && !found.contains(&ty) {
                    found.push(ty);
                }
            }
        }
        out.insert("internal".into(), json!(found));
    }
    drop(token_string);

    if w("noparse") && !w("facts") && !w("pretty") {
        // extension: skip the (expensive) syn parse of the output; parse_ok stays null
        return Value::Object(out);
    }

    let file = match guarded(|| syn::parse2::<syn::File>(tokens)) {
        Ok(Ok(f)) => {
            out.insert("parse_ok".into(), json!(true));
            f
        }
        Ok(Err(e)) => {
            out.insert("parse_ok".into(), json!(false));
            out.insert("parse_error".into(), json!(syn_err_string(&e)));
            return Value::Object(out);
        }
        Err((p, _)) => {
            out.insert("parse_ok".into(), json!(false));
            out.insert("parse_error".into(), json!(format!("syn panicked: {p}")));
            return Value::Object(out);
        }
    };

    if w("pretty") {
        match guarded(|| prettyplease::unparse(&file)) {
            Ok(s) => out.insert("pretty".into(), json!(s)),
            Err((p, _)) => out.insert("pretty".into(), json!(format!("PANIC in prettyplease: {p}"))),
        };
    }

    if w("facts") {
        match guarded(|| facts::extract(&file)) {
            Ok((facts, warnings)) => {
                out.insert("facts".into(), facts);
                out.insert("facts_warnings".into(), json!(warnings));
            }
            Err((p, loc)) => {
                out.insert("facts".into(), Value::Null);
                out.insert(
                    "facts_warnings".into(),
                    json!([format!("facts extraction panicked: {p} @ {}", loc.unwrap_or_default())]),
                );
            }
        }
    }

    Value::Object(out)
}

fn process_line(line: &str) -> Value {
    let case: Value = match serde_json::from_str(line) {
        Ok(v) => v,
        Err(e) => return bad_input(Value::Null, format!("input line is not JSON: {e}")),
    };
    let id = case.get("id").cloned().unwrap_or(Value::Null);
    match guarded(|| process_case(&case)) {
        Ok(v) => v,
        // Only reachable through a bug in this runner (every generator call is guarded separately).
        Err((p, loc)) => json!({"id": id, "status": "panic", "message": format!("RUNNER: {p}"),
                                "panic_location": loc, "parse_ok": Value::Null, "tokens_hash": Value::Null}),
    }
}

fn on_big_stack<T: Send + 'static>(f: impl FnOnce() -> T + Send + 'static) -> T {
    std::thread::Builder::new()
        .name("gen_runner-worker".into())
        .stack_size(STACK_BYTES)
        .spawn(f)
        .expect("spawn worker")
        .join()
        .expect("worker thread died")
}

fn usage() -> ! {
    eprintln!(
        "usage: gen_runner [--jobs N] <cases.jsonl | ->\n       gen_runner --one <dsl|json|yaml|toml> <file> <name> [facts,pretty,tokens,mir]\n       gen_runner --facts <file.rs>      (facts of an arbitrary Rust source file, for debugging)"
    );
    std::process::exit(2)
}

fn main() {
    std::panic::set_hook(Box::new(|info| {
        let loc = info.location().map(|l| format!("{}:{}:{}", l.file(), l.line(), l.column()));
        PANIC_LOC.with(|l| *l.borrow_mut() = loc);
    }));

    let args: Vec<String> = std::env::args().skip(1).collect();
    if args.first().map(|s| s.as_str()) == Some("--one") {
        if args.len() < 4 {
            usage();
        }
        let text = match std::fs::read_to_string(&args[2]) {
            Ok(t) => t,
            Err(e) => {
                eprintln!("gen_runner: cannot read {}: {e}", args[2]);
                std::process::exit(2)
            }
        };
        let want: Vec<String> = match args.get(4) {
            Some(w) => w.split(',').map(|s| s.trim().to_string()).filter(|s| !s.is_empty()).collect(),
            None => vec!["facts".into()],
        };
        let case = json!({"id": args[2], "syntax": args[1], "text": text, "name": args[3], "want": want});
        let res = on_big_stack(move || process_line(&case.to_string()));
        println!("{res}");
        return;
    }

    if args.first().map(|s| s.as_str()) == Some("--facts") {
        if args.len() != 2 {
            usage();
        }
        let text = match std::fs::read_to_string(&args[1]) {
            Ok(t) => t,
            Err(e) => {
                eprintln!("gen_runner: cannot read {}: {e}", args[1]);
                std::process::exit(2)
            }
        };
        let res = on_big_stack(move || match syn::parse_file(&text) {
            Err(e) => json!({"parse_ok": false, "parse_error": syn_err_string(&e)}),
            Ok(file) => match guarded(|| facts::extract(&file)) {
                Ok((f, w)) => json!({"parse_ok": true, "facts": f, "facts_warnings": w}),
                Err((p, loc)) => json!({"parse_ok": true, "facts": Value::Null,
                    "facts_warnings": [format!("facts extraction panicked: {p} @ {}", loc.unwrap_or_default())]}),
            },
        });
        println!("{res}");
        return;
    }

    let mut args = args;
    let mut jobs = 1usize;
    if args.first().map(|s| s.as_str()) == Some("--jobs") {
        jobs = match args.get(1).and_then(|n| n.parse::<usize>().ok()) {
            Some(n) if n >= 1 => n,
            _ => usage(),
        };
        args.drain(0..2);
    }
    if args.len() != 1 {
        usage();
    }
    let input: Box<dyn Read + Send> = if args[0] == "-" {
        Box::new(std::io::stdin())
    } else {
        match std::fs::File::open(&args[0]) {
            Ok(f) => Box::new(f),
            Err(e) => {
                eprintln!("gen_runner: cannot open {}: {e}", args[0]);
                std::process::exit(2)
            }
        }
    };

    if jobs == 1 {
        // Sequential: the worker itself writes and flushes every line before it starts the next case, so that
        // when a stack overflow kills the process the first missing output line is exactly the killer case.
        on_big_stack(move || {
            let reader = std::io::BufReader::new(input);
            let stdout = std::io::stdout();
            let mut w = BufWriter::with_capacity(1 << 16, stdout.lock());
            for line in reader.lines() {
                let res = match line {
                    Ok(l) => process_line(&l),
                    Err(e) => bad_input(Value::Null, format!("cannot read input line: {e}")),
                };
                let _ = serde_json::to_writer(&mut w, &res);
                let _ = w.write_all(b"\n");
                let _ = w.flush();
            }
            let _ = w.flush();
        });
        return;
    }

    // Parallel: N big-stack workers pull line indices from a shared counter; the main thread writes the results
    // in input order.  (After a process-killing stack overflow the first missing line need not be the killer.)
    let lines: Vec<Result<String, String>> =
        std::io::BufReader::new(input).lines().map(|l| l.map_err(|e| e.to_string())).collect();
    let lines = std::sync::Arc::new(lines);
    let next = std::sync::Arc::new(std::sync::atomic::AtomicUsize::new(0));
    let (tx, rx) = std::sync::mpsc::channel::<(usize, String)>();
    let mut handles = Vec::new();
    for k in 0..jobs.min(lines.len().max(1)) {
        let (lines, next, tx) = (lines.clone(), next.clone(), tx.clone());
        let h = std::thread::Builder::new()
            .name(format!("gen_runner-worker-{k}"))
            .stack_size(STACK_BYTES)
            .spawn(move || loop {
                let i = next.fetch_add(1, std::sync::atomic::Ordering::SeqCst);
                let Some(line) = lines.get(i) else { break };
                let res = match line {
                    Ok(l) => process_line(l),
                    Err(e) => bad_input(Value::Null, format!("cannot read input line: {e}")),
                };
                if tx.send((i, res.to_string())).is_err() {
                    break;
                }
            })
            .expect("spawn worker");
        handles.push(h);
    }
    drop(tx);
    let stdout = std::io::stdout();
    let mut w = BufWriter::with_capacity(1 << 16, stdout.lock());
    let mut pending: std::collections::BTreeMap<usize, String> = std::collections::BTreeMap::new();
    let mut want_idx = 0usize;
    for (i, s) in rx {
        pending.insert(i, s);
        while let Some(s) = pending.remove(&want_idx) {
            let _ = w.write_all(s.as_bytes());
            let _ = w.write_all(b"\n");
            want_idx += 1;
        }
        let _ = w.flush();
    }
    let _ = w.flush();
    for h in handles {
        let _ = h.join();
    }
}

#[cfg(test)]
mod tests {
    use super::*;
    use quote::quote;

    #[test]
    fn compile_error_detection() {
        let mut e = syn::Error::new(proc_macro2::Span::call_site(), "first \"quoted\" \\ msg");
        e.combine(syn::Error::new(proc_macro2::Span::call_site(), "second"));
        let (msgs, other) = compile_errors(&e.into_compile_error()).unwrap();
        assert_eq!(msgs, vec!["first \"quoted\" \\ msg".to_string(), "second".to_string()]);
        assert!(!other);

        let (msgs, other) = compile_errors(&quote! { ::core::compile_error!("a"); struct X; }).unwrap();
        assert_eq!(msgs, vec!["a".to_string()]);
        assert!(other);

        assert!(compile_errors(&quote! { struct X; ::core::compile_error!("a"); }).is_none());
        assert!(compile_errors(&quote! { pub struct Dev<I> { x: I } }).is_none());
        assert!(compile_errors(&TokenStream::new()).is_none());
        let (msgs, _) = compile_errors(&quote! { compile_error! { "bare" } }).unwrap();
        assert_eq!(msgs, vec!["bare".to_string()]);
    }

    #[test]
    fn fnv() {
        assert_eq!(fnv1a64(b""), 0xcbf29ce484222325);
        assert_eq!(fnv1a64(b"a"), 0xaf63dc4c8601ec8c);
    }
}
