#!/usr/bin/env bash
# Self test for gen_runner: runs the tool on the definitions in selftest/ and prints the extracted facts next to
# (a path to) the prettyplease output so they can be compared by eye.  Also asserts the protocol basics
# (one output line per input line, same order, expected status per case, no facts_warnings on accepted cases).
#
#   ./selftest.sh            build + run, print condensed facts
#   ./selftest.sh -v         additionally print the pretty output of every accepted case
set -euo pipefail
HERE="$(cd "$(dirname "$0")" && pwd)"
OUT=/verif/.cache/gen_runner/selftest
mkdir -p "$OUT"
VERBOSE="${1:-}"

( cd /verif/harness && CARGO_NET_OFFLINE=true CARGO_TARGET_DIR=/verif/.cache/target \
    RUSTFLAGS="--cfg device_driver_verif" cargo build --offline -q -p gen_runner )
BIN=/verif/.cache/target/debug/gen_runner

python3 - "$HERE/selftest" "$OUT/cases.jsonl" <<'EOF'
import json, os, sys
d, out = sys.argv[1], sys.argv[2]
with open(out, "w") as f:
    for fn in sorted(os.listdir(d)):
        syntax = fn.rsplit(".", 1)[1]
        text = open(os.path.join(d, fn)).read()
        f.write(json.dumps({"id": fn, "syntax": syntax, "text": text, "name": "Dev",
                            "want": ["facts", "pretty", "tokens", "mir"]}) + "\n")
    # protocol edge cases: default `want`, default name, junk line, unknown syntax
    f.write(json.dumps({"id": "default-want", "syntax": "dsl", "text": "config { type BufferAddressType = u8; } buffer B = 1"}) + "\n")
    f.write(json.dumps({"id": "noparse", "syntax": "dsl", "want": ["noparse"],
                        "text": "config { type BufferAddressType = u8; } buffer B = 1"}) + "\n")
    # generator panic on the unchanged tree (count > i64::MAX): must be reported as "panic", runner continues
    f.write(json.dumps({"id": "hugecount", "syntax": "dsl", "want": [],
                        "text": "config { type RegisterAddressType = u8; } register R { const ADDRESS = 0; "
                                "const SIZE_BITS = 8; const REPEAT = { count: 18446744073709551615, stride: 0 }; "
                                "v: uint = 0..8 }"}) + "\n")
    f.write("this is not json\n")
    f.write(json.dumps({"id": "bad-syntax", "syntax": "xml", "text": ""}) + "\n")
EOF

"$BIN" "$OUT/cases.jsonl" > "$OUT/out.jsonl"
# parallel mode must give byte-identical output
"$BIN" --jobs 4 "$OUT/cases.jsonl" > "$OUT/out.jobs4.jsonl"
cmp "$OUT/out.jsonl" "$OUT/out.jobs4.jsonl"
# --one mode must give the same answer as the batch mode
"$BIN" --one dsl "$HERE/selftest/t1_all.dsl" Dev facts,pretty,tokens,mir > "$OUT/one.json"

python3 - "$OUT" "$VERBOSE" <<'EOF'
import json, sys, os
out, verbose = sys.argv[1], sys.argv[2] == "-v"
cases = [l for l in open(os.path.join(out, "cases.jsonl"))]
res = [json.loads(l) for l in open(os.path.join(out, "out.jsonl"))]
assert len(cases) == len(res), (len(cases), len(res))
expect = {"t1_all.dsl": "ok", "t2_cfg.dsl": "ok", "t3_rejected.dsl": "error", "t4_syntax.dsl": "error",
          "t5_lex.dsl": "error", "t6_big.dsl": "ok", "t7.json": "ok", "t8.yaml": "ok", "t9.toml": "ok",
          "default-want": "ok", "noparse": "ok", "hugecount": ("panic", "error"), None: "error",
          "bad-syntax": "error"}
bad = 0
def J(x): return json.dumps(x, sort_keys=True)
for c, r in zip(cases, res):
    try: cid = json.loads(c).get("id")
    except Exception: cid = None
    assert r["id"] == cid, (r["id"], cid)
    print("=" * 100)
    print(f"case {cid}: status={r['status']} parse_ok={r.get('parse_ok')} hash={r.get('tokens_hash')} "
          f"message={r.get('message')!r}")
    if r["status"] == "panic":
        print("  panic_location:", r.get("panic_location"))
    if r["status"] not in (expect[cid] if isinstance(expect[cid], tuple) else (expect[cid],)):
        print(f"  !!! expected status {expect[cid]}"); bad += 1
    if "mir" in r:
        print("  mir:", r["mir"][:100].replace("\n", " "), "...")
    if r["status"] != "ok":
        continue
    if r.get("facts_warnings"):
        print("  !!! facts_warnings:", r["facts_warnings"]); bad += 1
    if "pretty" in r:
        p = os.path.join(out, f"{cid}.pretty.rs")
        open(p, "w").write(r["pretty"])
        print("  pretty ->", p)
        if verbose: print(r["pretty"])
    if "facts" not in r:
        continue
    f = r["facts"]
    for b in f["blocks"]:
        ms, ra, raa = b.pop("methods"), b.pop("read_all"), b.pop("read_all_async")
        print("  BLOCK", J(b))
        for m in ms: print("    method", J(m))
        for x in ra: print("    read_all", J(x))
        for x in raa: print("    read_all_async", J(x))
    for s in f["field_sets"]:
        g, st, im = s.pop("getters"), s.pop("setters"), s.pop("impls")
        print("  FIELDSET", J(s))
        for x in g: print("    getter", J(x))
        for x in st: print("    setter", J(x))
        print("    impls", " | ".join(f"{i['trait']} for {i['for']} {i['cfg']}" for i in im))
    print("  FIELD_SET_VALUE", J(f["field_set_value"]))
    for e in f["enums"]:
        v, fa, ia, im = e.pop("variants"), e.pop("from_arms"), e.pop("into_arms"), e.pop("impls")
        print("  ENUM", J(e))
        for x in v: print("    variant", J(x))
        for x in fa or []: print("    from_arm", J(x))
        for x in ia or []: print("    into_arm", J(x))
        print("    impls", " | ".join(f"{i['trait']} for {i['for']} {i['cfg']}" for i in im))
    print("  ITEMS", " ; ".join(f"{i['kind']}:{i['path']}" + (f"<{i['trait']}>" if i['trait'] else "")
                               + (f"{i['cfg']}" if i['cfg'] else "") for i in f["items"]))
one = json.load(open(os.path.join(out, "one.json")))
batch = next(r for r in (json.loads(l) for l in open(os.path.join(out, "out.jsonl"))) if r["id"] == "t1_all.dsl")
one["id"] = batch["id"]
if J(one) != J(batch):
    print("!!! --one output differs from batch output"); bad += 1
print("=" * 100)
print("SELFTEST", "FAILED" if bad else "OK", f"({len(res)} cases)")
sys.exit(1 if bad else 0)
EOF
