//! Runs device_driver::ops::{load,store}_{lsb0,msb0} on the cases of a case file and prints one
//! result line per case, in the same format as the extracted Coq model's driver.
//!
//! Case lines (hex without prefix, lower case):
//!   L <be:0|1> <msb0:0|1> <carrier 0..9> <s> <e> <hexdata>
//!   S <be> <msb0> <carrier> <s> <e> <sign:+|-><hexmagnitude> <hexdata>
//! Carriers: 0..4 = u8,u16,u32,u64,u128 ; 5..9 = i8,i16,i32,i64,i128
//! Output: L -> "<sign><hexmagnitude>" ; S -> "<hexdata>" ; a panic -> "PANIC"
//! With `--canary`, the slice handed to ops is embedded between 16 canary bytes on each side
//! and "CANARY" is printed if any of them changed.
use device_driver::ops::*;
use std::io::{BufRead, BufWriter, Write};

fn hex_to_bytes(h: &str) -> Vec<u8> {
    (0..h.len() / 2).map(|i| u8::from_str_radix(&h[2 * i..2 * i + 2], 16).unwrap()).collect()
}
fn bytes_to_hex(b: &[u8]) -> String {
    let mut s = String::with_capacity(b.len() * 2);
    for x in b {
        s.push_str(&format!("{:02x}", x));
    }
    s
}
fn parse_signed(v: &str) -> i128 {
    // two's complement: magnitude up to 2^128-1 for unsigned carriers, so go through u128
    let (neg, mag) = (v.starts_with('-'), u128::from_str_radix(&v[1..], 16).unwrap());
    if neg { (mag as i128).wrapping_neg() } else { mag as i128 }
}

macro_rules! do_load {
    ($t:ty, $be:expr, $msb0:expr, $d:expr, $s:expr, $e:expr) => {{
        let v: $t = unsafe {
            match ($be, $msb0) {
                (false, false) => load_lsb0::<$t, LE>($d, $s, $e),
                (true, false) => load_lsb0::<$t, BE>($d, $s, $e),
                (false, true) => load_msb0::<$t, LE>($d, $s, $e),
                (true, true) => load_msb0::<$t, BE>($d, $s, $e),
            }
        };
        v.fmt_val()
    }};
}
trait FmtVal { fn fmt_val(self) -> String; }
macro_rules! impl_fmt_u { ($($t:ty),*) => { $(impl FmtVal for $t { fn fmt_val(self) -> String { format!("+{:x}", self) } })* } }
macro_rules! impl_fmt_i { ($($t:ty),*) => { $(impl FmtVal for $t { fn fmt_val(self) -> String {
    let w = self as i128; if w < 0 { format!("-{:x}", w.unsigned_abs()) } else { format!("+{:x}", w) } } })* } }
impl_fmt_u!(u8, u16, u32, u64, u128);
impl_fmt_i!(i8, i16, i32, i64, i128);
macro_rules! do_store {
    ($t:ty, $be:expr, $msb0:expr, $v:expr, $s:expr, $e:expr, $d:expr) => {{
        let v = $v as $t;
        unsafe {
            match ($be, $msb0) {
                (false, false) => store_lsb0::<$t, LE>(v, $s, $e, $d),
                (true, false) => store_lsb0::<$t, BE>(v, $s, $e, $d),
                (false, true) => store_msb0::<$t, LE>(v, $s, $e, $d),
                (true, true) => store_msb0::<$t, BE>(v, $s, $e, $d),
            }
        }
    }};
}

const CANARY: u8 = 0xC5;

fn run_line(line: &str, canary: bool) -> String {
    let p: Vec<&str> = line.split_whitespace().collect();
    let be = p[1] == "1";
    let msb0 = p[2] == "1";
    let car: u32 = p[3].parse().unwrap();
    let s: usize = p[4].parse().unwrap();
    let e: usize = p[5].parse().unwrap();
    let is_load = p[0] == "L";
    let raw = hex_to_bytes(if is_load { p.get(6).copied().unwrap_or("") } else { p.get(7).copied().unwrap_or("") });
    let pad = if canary { 16 } else { 0 };
    let mut buf = vec![CANARY; raw.len() + 2 * pad];
    buf[pad..pad + raw.len()].copy_from_slice(&raw);
    let n = raw.len();
    let out = if is_load {
        let d = &buf[pad..pad + n];
        match car {
            0 => do_load!(u8, be, msb0, d, s, e),
            1 => do_load!(u16, be, msb0, d, s, e),
            2 => do_load!(u32, be, msb0, d, s, e),
            3 => do_load!(u64, be, msb0, d, s, e),
            4 => do_load!(u128, be, msb0, d, s, e),
            5 => do_load!(i8, be, msb0, d, s, e),
            6 => do_load!(i16, be, msb0, d, s, e),
            7 => do_load!(i32, be, msb0, d, s, e),
            8 => do_load!(i64, be, msb0, d, s, e),
            9 => do_load!(i128, be, msb0, d, s, e),
            _ => panic!("carrier"),
        }
    } else {
        let v = parse_signed(p[6]);
        {
            let d = &mut buf[pad..pad + n];
            match car {
                0 => do_store!(u8, be, msb0, v, s, e, d),
                1 => do_store!(u16, be, msb0, v, s, e, d),
                2 => do_store!(u32, be, msb0, v, s, e, d),
                3 => do_store!(u64, be, msb0, v, s, e, d),
                4 => do_store!(u128, be, msb0, v, s, e, d),
                5 => do_store!(i8, be, msb0, v, s, e, d),
                6 => do_store!(i16, be, msb0, v, s, e, d),
                7 => do_store!(i32, be, msb0, v, s, e, d),
                8 => do_store!(i64, be, msb0, v, s, e, d),
                9 => do_store!(i128, be, msb0, v, s, e, d),
                _ => panic!("carrier"),
            }
        }
        bytes_to_hex(&buf[pad..pad + n])
    };
    if canary && (buf[..pad].iter().any(|&b| b != CANARY) || buf[pad + n..].iter().any(|&b| b != CANARY)) {
        return "CANARY".to_string();
    }
    out
}

fn main() {
    let args: Vec<String> = std::env::args().collect();
    let canary = args.iter().any(|a| a == "--canary");
    let path = args.iter().skip(1).find(|a| !a.starts_with("--")).expect("case file");
    std::panic::set_hook(Box::new(|_| {}));
    let f = std::io::BufReader::new(std::fs::File::open(path).unwrap());
    let stdout = std::io::stdout();
    let mut w = BufWriter::new(stdout.lock());
    for line in f.lines() {
        let line = line.unwrap();
        if line.is_empty() || line.starts_with('#') {
            continue;
        }
        let r = std::panic::catch_unwind(|| run_line(&line, canary));
        match r {
            Ok(s) => writeln!(w, "{}", s).unwrap(),
            Err(_) => writeln!(w, "PANIC").unwrap(),
        }
    }
}
