#!/bin/sh
# Run once after a fresh restore (offline): build every Coq file, the extracted OCaml drivers and
# the Rust harness against /repo's current working tree.  Checks rebuild what they need anyway.
set -e
cd "$(dirname "$0")"
export CARGO_NET_OFFLINE=true
python3 tools/translate_tables.py
(cd coq && coq_makefile -f _CoqProject -o Makefile >/dev/null 2>&1 && (timeout 3000 make -j16 -k || echo "setup: some Coq files failed to build; the checks that need them will report it"))
mkdir -p .cache
[ -f harness/Cargo.lock ] || cp /repo/Cargo.lock harness/Cargo.lock
(cd harness && (CARGO_TARGET_DIR=/verif/.cache/target RUSTFLAGS="--cfg device_driver_verif" timeout 3000 cargo build --offline --workspace || echo "setup: some harness crates failed to build"))
echo "setup done"
