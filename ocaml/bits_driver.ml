(* Driver for the extracted ops.rs model: same case format and output as harness/ops_runner. *)
open Bits_model
include Zconv_inc

let cty_of_idx i = List.nth carriers i

let fail_str k = match k with
  | OOB -> "FAIL:OOB" | ShiftOvf -> "FAIL:ShiftOvf" | Underflow -> "FAIL:Underflow"
  | Overflow -> "FAIL:Overflow" | AssertFail -> "FAIL:Assert" | OutOfFuel -> "FAIL:Fuel"

let () =
  let path = Sys.argv.(1) in
  let ptrw = z_of_int 64 in
  let ic = open_in path in
  let out = Buffer.create (1 lsl 20) in
  (try
    while true do
      let line = input_line ic in
      if String.length line > 0 && line.[0] <> '#' then begin
        let p = Array.of_list (String.split_on_char ' ' line) in
        let bo = if p.(1) = "1" then BE else LE in
        let bito = if p.(2) = "1" then MSB0 else LSB0 in
        let c = cty_of_idx (int_of_string p.(3)) in
        let s = z_of_int (int_of_string p.(4)) and e = z_of_int (int_of_string p.(5)) in
        let res =
          if p.(0) = "L" then begin
            let data = bytes_of_hex (if Array.length p > 6 then p.(6) else "") in
            match load ptrw bo bito c data s e with
            | None -> "NOCOMPILE"
            | Some (Ok v) -> signed_hex_of_z v
            | Some (Fail k) -> fail_str k
          end else begin
            let v = z_of_signed_hex p.(6) in
            let data = bytes_of_hex (if Array.length p > 7 then p.(7) else "") in
            match store ptrw bo bito c v s e data with
            | None -> "NOCOMPILE"
            | Some (Ok d) -> hex_of_bytes d
            | Some (Fail k) -> fail_str k
          end in
        Buffer.add_string out res; Buffer.add_char out '\n';
        if Buffer.length out > (1 lsl 20) then (print_string (Buffer.contents out); Buffer.clear out)
      end
    done
  with End_of_file -> ());
  print_string (Buffer.contents out)
