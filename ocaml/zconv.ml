(* Conversions between OCaml strings/ints and the extracted positive/Z inductives.
   Hand-written, trusted (listed in DESIGN.md section 3). Parameterised by nothing: the
   extracted constructors are re-exported by each *_model.ml, so this file is textually
   included after `open <Model>`. *)
let rec pos_of_bits (bits : bool list) : positive option =
  (* bits LSB first; returns None for zero *)
  match bits with
  | [] -> None
  | b :: rest ->
    (match pos_of_bits rest with
     | None -> if b then Some XH else None
     | Some p -> Some (if b then XI p else XO p))

let bits_of_hex (h : string) : bool list =
  (* LSB first *)
  let n = String.length h in
  let acc = ref [] in
  for i = 0 to n - 1 do
    let c = h.[i] in
    let d = match c with
      | '0'..'9' -> Char.code c - 48
      | 'a'..'f' -> Char.code c - 87
      | 'A'..'F' -> Char.code c - 55
      | _ -> failwith "hex" in
    (* most significant nibble first in the string; we build MSB-first list then reverse *)
    acc := (d land 1 <> 0) :: (d land 2 <> 0) :: (d land 4 <> 0) :: (d land 8 <> 0) :: !acc
  done;
  !acc

let z_of_hexmag (neg : bool) (h : string) : z =
  match pos_of_bits (bits_of_hex h) with
  | None -> Z0
  | Some p -> if neg then Zneg p else Zpos p

let z_of_signed_hex (s : string) : z =
  let neg = s.[0] = '-' in
  z_of_hexmag neg (String.sub s 1 (String.length s - 1))

let z_of_int (i : int) : z =
  if i = 0 then Z0 else
  let rec bits k = if k = 0 then [] else (k land 1 = 1) :: bits (k lsr 1) in
  match pos_of_bits (bits (abs i)) with
  | None -> Z0
  | Some p -> if i < 0 then Zneg p else Zpos p

let rec bits_of_pos (p : positive) : bool list =
  match p with XH -> [true] | XO q -> false :: bits_of_pos q | XI q -> true :: bits_of_pos q

let hex_of_bits (bits : bool list) : string =
  (* bits LSB first *)
  let rec nibbles bs = match bs with
    | [] -> []
    | _ ->
      let take k l = let rec go k l acc = if k = 0 then (List.rev acc, l) else
                         match l with [] -> go (k-1) [] (false :: acc) | x :: t -> go (k-1) t (x :: acc) in go k l [] in
      let (n, rest) = take 4 bs in
      let v = List.fold_right (fun b acc -> acc * 2 + (if b then 1 else 0)) n 0 in
      v :: nibbles rest in
  let ns = List.rev (nibbles bits) in
  let rec strip l = match l with 0 :: (_ :: _ as t) -> strip t | _ -> l in
  let ns = strip ns in
  String.concat "" (List.map (fun v -> String.make 1 "0123456789abcdef".[v]) ns)

let signed_hex_of_z (v : z) : string =
  match v with
  | Z0 -> "+0"
  | Zpos p -> "+" ^ hex_of_bits (bits_of_pos p)
  | Zneg p -> "-" ^ hex_of_bits (bits_of_pos p)

let int_of_z (v : z) : int =
  let rec go p = match p with XH -> 1 | XO q -> 2 * go q | XI q -> 2 * go q + 1 in
  match v with Z0 -> 0 | Zpos p -> go p | Zneg p -> - (go p)

let bytes_of_hex (h : string) : z list =
  let n = String.length h / 2 in
  List.init n (fun i -> z_of_int (int_of_string ("0x" ^ String.sub h (2 * i) 2)))

let hex_of_bytes (l : z list) : string =
  String.concat "" (List.map (fun b -> Printf.sprintf "%02x" (int_of_z b)) l)
