(* Driver for the extracted protocol-layer model: same case format and output as
   harness/proto_runner (see the header of its main.rs).  Hand-written, trusted: parsing of case
   lines and printing only; every decision is taken by the extracted functions
   case_reg / case_cmd / case_buf. *)
open Proto_model
include Zconv_inc

let rec nat_of_int n = if n <= 0 then O else S (nat_of_int (n - 1))
let rec int_of_nat n = match n with O -> 0 | S m -> 1 + int_of_nat m

let bytes_of_tok s = if s = "-" then [] else bytes_of_hex s
let tok_of_bytes b = match b with [] -> "-" | _ -> hex_of_bytes b
let zs v = string_of_int (int_of_z v)

let parse_script s : resp list * nat list =
  if s = "-" then ([], []) else
  let es = String.split_on_char ',' s in
  let one e =
    match String.split_on_char ':' e with
    | [r; d; p] ->
      let n = int_of_string (String.sub r 1 (String.length r - 1)) in
      let res = if r.[0] = 'k' then ROk (nat_of_int n) else RErr (z_of_int n) in
      ({ r_res = res; r_data = bytes_of_tok d }, nat_of_int (int_of_string p))
    | _ -> failwith "script entry" in
  let l = List.map one es in
  (List.map fst l, List.map snd l)

let ckind_of s = if s = "x" then CkXor else CkSet

let ev_str ((c, _) : call * resp) = match c with
  | RegWrite (a, sz, d) -> Printf.sprintf "rw(%s,%s,%s)" (zs a) (zs sz) (tok_of_bytes d)
  | RegRead (a, sz, b) -> Printf.sprintf "rr(%s,%s,%s)" (zs a) (zs sz) (tok_of_bytes b)
  | CmdDispatch (a, si, i, so, o) ->
    Printf.sprintf "cd(%s,%s,%s,%s,%s)" (zs a) (zs si) (tok_of_bytes i) (zs so) (tok_of_bytes o)
  | BufWrite (a, d) -> Printf.sprintf "bw(%s,%s)" (zs a) (tok_of_bytes d)
  | BufFlush a -> Printf.sprintf "bf(%s)" (zs a)
  | BufRead (a, b) -> Printf.sprintf "br(%s,%s)" (zs a) (tok_of_bytes b)

let events_str t = match t with [] -> "-" | _ -> String.concat "," (List.map ev_str t)

let stop_str s = match s with
  | StopWriteZero -> "PANIC:writezero" | StopSliceIndex -> "PANIC:slice" | StopOutOfFuel -> "PANIC:fuel"

let bytes_res_str r = match r with
  | ROk b -> "ok:" ^ tok_of_bytes b
  | RErr e -> "err:" ^ zs e

let bufout_str o = match o with
  | OutCount (ROk n, b) -> Printf.sprintf "n:%d:%s" (int_of_nat n) (tok_of_bytes b)
  | OutCount (RErr e, b) -> Printf.sprintf "err:%s:%s" (zs e) (tok_of_bytes b)
  | OutUnit (ROk _) -> "ok"
  | OutUnit (RErr e) -> "err:" ^ zs e
  | OutRx (RxOk, b) -> "rxok:" ^ tok_of_bytes b
  | OutRx (RxErr RxUnexpectedEof, b) -> "rxeof:" ^ tok_of_bytes b
  | OutRx (RxErr (RxOther e), b) -> Printf.sprintf "rxother:%s:%s" (zs e) (tok_of_bytes b)

let seg_str fmt ((t, n), o) =
  let r = match o with Done v -> fmt v | Stopped s -> stop_str s in
  Printf.sprintf "%s => %s p%d" (events_str t) r (int_of_nat n)

(* the harness stops a sequence at the first panic *)
let rec upto_panic l = match l with
  | [] -> []
  | ((_, Stopped _) as x) :: _ -> [x]
  | x :: rest -> x :: upto_panic rest

let case_line (p : string array) : string =
  match p.(0) with
  | "R" ->
    let async = p.(1) = "a" in
    let sz = z_of_int (int_of_string p.(2)) and a = z_of_int (int_of_string p.(3)) in
    let reset = bytes_of_tok p.(4) in
    let ops = List.map (fun o ->
        match String.split_on_char '.' o with
        | [op; k; pat] ->
          let op = (match op with "w" -> OpWrite | "z" -> OpWriteZero | "r" -> OpRead | "m" -> OpModify
                                  | _ -> failwith "op") in
          ((op, ckind_of k), bytes_of_tok pat)
        | _ -> failwith "op") (String.split_on_char ',' p.(5)) in
    let (script, sched) = parse_script p.(6) in
    let segs = upto_panic (case_reg async script sched a sz reset ops) in
    String.concat " | " (List.map (seg_str bytes_res_str) segs)
  | "C" ->
    let async = p.(1) = "a" in
    let shape = (match p.(2) with "n" -> ShNone | "i" -> ShIn | "o" -> ShOut | "b" -> ShInOut | _ -> failwith "shape") in
    let a = z_of_int (int_of_string p.(3)) in
    let szi = z_of_int (int_of_string p.(4)) and szo = z_of_int (int_of_string p.(5)) in
    let (k, pat) = (match String.split_on_char '.' p.(6) with [k; pat] -> (ckind_of k, bytes_of_tok pat) | _ -> failwith "closure") in
    let (script, sched) = parse_script p.(7) in
    seg_str bytes_res_str (case_cmd async script sched shape a szi szo k pat)
  | "B" ->
    let entry = (match p.(1) with "s" -> EnSync | "a" -> EnAsync | "t" -> EnTrait | "u" -> EnTraitAsync | _ -> failwith "entry") in
    let op = (match p.(2) with "w" -> BoWrite | "W" -> BoWriteAll | "f" -> BoFlush | "r" -> BoRead | "R" -> BoReadExact
                               | _ -> failwith "bufop") in
    let a = z_of_int (int_of_string p.(3)) in
    let buf = bytes_of_tok p.(4) in
    let (script, sched) = parse_script p.(5) in
    seg_str bufout_str (case_buf entry op script sched a buf)
  | _ -> failwith "case kind"

let () =
  let path = Sys.argv.(1) in
  let ic = open_in path in
  let out = Buffer.create (1 lsl 20) in
  (try
    while true do
      let line = input_line ic in
      if String.length line > 0 && line.[0] <> '#' then begin
        let p = Array.of_list (String.split_on_char ' ' line) in
        let res = (try case_line p with Failure m -> "DRIVER-ERROR:" ^ m) in
        Buffer.add_string out res; Buffer.add_char out '\n';
        if Buffer.length out > (1 lsl 20) then (print_string (Buffer.contents out); Buffer.clear out)
      end
    done
  with End_of_file -> ());
  print_string (Buffer.contents out)
