#!/usr/bin/env python3
"""Regenerates /verif/MANIFEST.json from the table below (kept in one place so it stays valid)."""
import json, os
V = os.path.dirname(os.path.dirname(os.path.abspath(__file__)))
TB = ("Trusted: Coq 8.16.1 kernel (no axioms: every property theorem is closed under the global context), the hand-written "
      "Gallina model tied to /repo by the correspondence check run on every invocation (generator quality bounds it), "
      "ExtrOcamlBasic extraction + OCaml drivers / coqc vm_compute evaluation, the Rust harness and python generators.")
CLAIMS = {
 "C01": ("Unbounded theorems C01_load_layout / C01_store_layout: the statement-by-statement model of ops.rs places every field bit at the documented physical position for all orders, carriers, buffer lengths and in-bounds ranges; tied to /repo by running extracted model and real ops on an exhaustive geometry each run; DedupCast table translated from source and its adequacy re-proved; plus a generated-level phase: compiled field sets with every (byte order, bit order) choice at object and global level and whole/partial-byte sizes, every getter/setter on random bytes vs Layout.v on the DECLARED orders (the generator's choice of load/store function and byte-order type parameter).",
         "64-bit host only exercised (16/32-bit DedupCast rows proved, not run). " + TB, "5 C01"),
 "C02": ("Theorems C02_isolation, C02_load_local, C02_roundtrip_unsigned, C02_roundtrip_signed_full, C02_setter_sequences (induction over any list of disjoint setter calls) over the ops.rs model; the signed-narrow clause is refuted by C02_signed_narrow_refuted (genuine defect D1, known finding) with C02_roundtrip_signed_narrow_partial as the strongest true statement; tie = exhaustive-geometry correspondence + an implementation-only round-trip/isolation oracle + generated level: sequences of setter calls on COMPILED generated field sets (every set-bit outside the declared range unchanged by physical position, disjoint fields read as before, read-back, bytes = FieldSetGen.setter_call on the real MIR).",
         "The generated-level phase samples definitions and sequences (boundary-biased), it is not exhaustive. " + TB, "5 C02"),

 "C05": ("Unbounded theorems over an interaction model of register.rs (blocking and async halves transcribed separately): C05_write, C05_write_with_zero, C05_read, C05_modify (no write after a failed read), C05_async_equiv / C05_async_equiv_seq (same interface calls and results for every oracle, closure and Pending schedule); tie = exhaustive scripted histories (ops x error positions x Pending counts) run through the real crate with mock interfaces and a hand-rolled executor vs the extracted model.",
         "The compiler's async lowering is modelled as 'Pending any finite number of times at each await' and tied only by the correspondence; the ref-reset clause is covered with C08. " + TB, "5 C05"),
 "C09": ("Theorems C09_dispatch_none/in/out/inout and C09_async_equiv over the transcribed command.rs for all oracles, closures, sizes and schedules; tie = exhaustive scripted histories over the four shapes x sizes x error/Pending patterns vs the extracted model. Generator clause (CmdShape.v): C09_unit_iff_no_fields, C09_generated_dispatch (composition with the four proven bodies: exactly one call; declared size and ceil(size/8) bytes in a direction with fields, (0, empty) in one without), C09_transferred_sizes, C09_ref_takes_target_shape; tie = command-centred definitions through the real generator: accessor type parameters from the token stream and dispatch_command arguments of the compiled accessor vs CmdShape.v on the real MIR and the property's wording.",
         "Async lowering modelled as arbitrary finite Pending counts. CmdShape.v is a hand transcription of get_method's command arm. " + TB, "5 C09"),
 "C10": ("Theorems C10_passthrough, C10_write_all(+meaning), C10_read_exact(+meaning), C10_async_equiv, C10_trait_equiv (incl. termination by fuel lemma) over the transcribed buffer.rs and the embedded-io provided methods; tie = every outcome sequence over {accept 1..n, 0, Err} at the bound x entry points (inherent / trait / async) vs the extracted model, plus long requests (255..70000 bytes, thorough ..200000) through every entry point with the interface taking everything, all but one byte, 65535, half or a random count per call.",
         "embedded-io 0.6.1 provided methods transcribed from the registry source. " + TB, "5 C10"),
 "C06": ("C06_emitted_sets_are_the_declared_ones, C06_getter_reads_declared_range / C06_setter_writes_declared_range (composition of the emission model with the C01 layout theorems), C06_carrier_minimal, C06_getter_iff_readable / setter_iff_writable, C06_effective_byte_order, C06_bytes_roundtrip / C06_binops_act_on_all_bits / C06_not_acts_on_all_bits (byte array in and out, &,|,^,! on every bit), C06_ops_choice_from_source (the (byte order, bit order) -> ops function table TRANSLATED from field_set_transform.rs on every build); tie = every field-set fact of the real token stream vs FieldSetGen.v on the real MIR in all four syntaxes + an abstract-definition oracle for effective orders/access (finds D5, known finding) + compiled field sets driven with bytes vs the Coq reference interpreter.",
         "From/Into/bit-operator bodies are constant emitted text, modelled as such (fs_from_bytes .. fs_not) and compared with the compiled field sets at L2. Name normalisation is modelled in C14 (Case.v). " + TB, "5 C06"),
 "C11": ("C11_accept_iff_wf (both directions, every device, any nesting), C11_error_names_object, C11_overlap_all_pairs over the transcribed byte_order_specified / bool_fields_checked / bit_ranges_validated; tie = boundary-biased layouts in four syntaxes through the real transform_*, model evaluated on the MIR the real front end produced, accept/reject + error kind + names compared; generator panic = violation.",
         "Text->MIR front ends are exercised, not modelled (C16). " + TB, "5 C11"),
 "C17": ("C17_ops_exist_iff etc. proved over tables TRANSLATED from lib.rs / register.rs / buffer.rs on every run (a source edit that changes which operations an access offers breaks the proof), plus field accessor and effective-access theorems; tie for 'does / does not compile': a probe crate with one function per (placement, access, operation), rustc diagnostics mapped per probe and compared with the model's forbidden set.",
         "rustc is the observer for compilation; translator is regex/lexer-level; manifest-level defaults are known finding D5; WO fields hit D7. " + TB, "5 C17"),
 "C20": ("C20_accepted_output_order_independent, C20_error_order_refuted (+partial), C20_cli_status, C20_dispatch_on_extension over models of the hash-container passes (iteration order an explicit parameter) and of the CLI/macro dispatch; run-time facts (process/thread/hash-seed independence, files, macro expansion) tied by repeated CLI processes, threads, -o vs stdout, and a create_device! crate next to included CLI output.",
         "Partial by nature: determinism of the real binary is observed over K runs, not proved; D13 (error choice among several dangling refs) is a known finding. " + TB, "5 C20"),

 "C19": ("PARTIAL BY NATURE. Coq carries the name/reference/literal obligations of the emitted items (Emit.v: wf_output): machine-checked refutations with witnesses (open classes: D7 WO field, D20 output-identifier collisions names_unique does not see, D21 keyword identifiers, D22 a literal of the address arithmetic outside the type of its position; repaired in /repo, obligation kept so that a return is reported: D8, D9 block-ref duplicates, D12, D16, D17); the failing obligation Emit.v computes on the real MIR of EVERY compiled definition is compared with rustc's verdict (no failing obligation => must compile; a failing obligation => must fail with that class's recorded error; a predicted failure that compiles breaks the correspondence) and C19_wf_output_partial for definitions outside those classes; that rustc accepts the output is tied by the correspondence alone: batches of accepted cfg-free definitions over the documented language are cargo-checked as no_std-compatible modules, every diagnostic mapped to its definition; known classes must fail exactly as recorded, anything else is a violation; syn parse and accessor presence are checked too.",
         "rustc/cargo are the observers; Rust's type system is not modelled. " + TB, "5 C19"),

 "C04": ("C04_address_chain_exact / C04_address_exact (induction over any chain of nested block accessors: the emitted checked arithmetic, if it does not panic, equals sum(offset + index*stride) in the integers, negative values included), C04_index_guard(+chain), C04_ref_address, C04_read_all_visits, C04_read_all_reports_bus_address_nonroot/_root (reported address = bus address; D2 was repaired in /repo); tie = accepted random trees compiled with a recording mock: every valid index tuple and the first invalid index per level called in a debug build; bus address vs the Coq model on the real MIR and vs the property's formula from the abstract definition; read_all_registers on every block instance.",
         "Block refs are inside since D9 was repaired in /repo (7e1bb11): their accessors and every path through them are generated, modelled (Addr04.block_children) and compiled; index-as-IT wrap and IT overflow are C13's (proved absent since D3/D3b were repaired). " + TB, "5 C04"),

 "C08": ("C08_accept_iff, C08_bytes, C08_no_bit_at_or_above_size, C08_out_of_range_bit_uses_C01_numbering (the rejection rule is stated with C01's setbit), C08_never_panics for EVERY size 1..128 by bit-level reasoning, plus device-level C08_new_constructor, C08_ref_override_own_constructor, C08_ref_without_override_uses_new over the transcribed reset_values_converted and the emitter's constructors; tie = per size x orders x forms x boundary values: real generator vs Coq model on the real MIR vs a transcription of the property text (L1 constructor literals) and compiled drivers' write(|_| ()) / write_async wire bytes (L2), including same-named registers under mutually exclusive cfgs with different reset values in both declaration orders.",
         "bitvec's Lsb0/Msb0 views are modelled by their documented numbering. " + TB, "5 C08"),
 "C12": ("C12_claimed_eq_instances (the pass's expansion = the spec's instance list for every tree incl. block repeats, nesting, refs, block refs), C12_pairwise_complete, C12_reject_iff_collision (full since the repair of D10), C12_kinds_never_collide, C12_error_names_both; tie = near-colliding trees (exhaustive pair family + random) through the real generator vs model and spec on the real MIR: verdict, both names with indices, address; plus a flag family (two plain objects x {flag absent, explicit false, explicit true} x same/other address in all four syntaxes) judged by an oracle on the ABSTRACT definition, so that a front end misreading the flag is seen.",
         "Fuel-bounded expansion: a block named like the device loops forever in the real pass (D11b, noted). " + TB, "5 C12"),
 "C13": ("C13_accepted_all_fit and C13_accepted_no_overflow_full for EVERY instance of EVERY accepted tree (no class excluded since the min/max walk was repaired in /repo de9122d + 22a2001: block repeats, block refs, refs keeping their target's address or repeat, i128 arithmetic), C13_walk_exact (the walk's (min, max) is exactly the min and max of 0 and the points of its filter), C13_walk_bounds_instances, C13_internal_type_covers(+_instances), C13_error_states_bound, C13_unfit_walk_range_rejected, C13_missing_type_rejected, C13_address_type_bounds_from_source (Integer::min_value / max_value TRANSLATED from mir/mod.rs on every build); C13_accepted_no_overflow_full is UNCONDITIONAL since the internal type was repaired in /repo (6e3a361, D3b): every cast, product and sum of the emitted address arithmetic is exact in the internal type (C13_steps_product_ok_holds, C13_index_casts_exact, C13_internal_type_covers_method_literals), C13_pass_order_from_source; six historical witnesses of the repaired defects (D3, D3b, D4, D4b, D4c, D3c) about the pre-repair models; no open finding; tie = trees whose extreme instance sits at type.min/max + {-2..2} (blocks, repeats, refs with/without overrides, block refs, i64 extremes) through the real generator vs model and spec on the real MIR, corpus of the nine witnesses with written-down expectations, refs respelled in every spelling that normalises to the declared name, the type the emitted block structs declare for base_address vs the model's internal type on every accepted definition, compiled drivers in debug and release for every instance of accepted definitions.",
         "Full for the property as stated; the literal positions of the ROOT read_all_registers (typed in the register address type, not the internal type) are D22, a C19 finding. " + TB, "5 C13"),
 "C14": ("C14_accept_iff (full iff for cfg-free definitions, any depth, over an ASCII model of convert_case 0.6), C14_search_finds_declared, C14_accepted_refs_resolve, C14_lowering_terminates_iff_acyclic, C14_recursive_check_iff / _total (the repaired refs_validated rejects exactly the recursive block refs; D11 was repaired in /repo df1ac90), C14_accepted_is_acyclic, C14_accepted_expansion_terminates, C14_self_ref_refuted (historical), front-end rejection theorems, C14_snake_idempotent, C14_pascal_idempotent_refuted/_partial, C14_device_name_check; tie = (A) thousands of ASCII names through the real front ends vs Case.v, (B) trees with colliding spellings / dangling / wrong-kind refs / layout overrides vs the model on the real MIR (error kind + names; resolved targets; emitted names).",
         "convert_case modelled for ASCII only; uniqueness over (name, cfg) pairs is stated for cfg-free definitions. " + TB, "5 C14"),
 "C18": ("C18_gates_are_conjunctions_fixed / C18_fixed_walk_correct (all trees, by tree induction with a stack invariant; the model follows the repaired walk since /repo 7d9ba5c), C18_combine_atoms, C18_no_cfg_unconditional, C18_never_panics, and the historical C18_multi_level_exit_refuted / C18_partial about the pop-once walk (D6, fixed); tie = random trees of depth 0..4 with frequent multi-level exits: every #[cfg] attribute of every emitted item (flattened atom sets and literal all(..) nesting) vs the model and vs the structural spec.",
         "cfg predicates are treated as opaque atoms. " + TB, "5 C18"),

 "C07": ("C07_roundtrip, C07_from_num_precedence, C07_error_payload, C07_infallible_getter_total (UnsafeInto chosen => the getter is Ok for every bit pattern, incl. reuse by name on narrower/equal fields) over a model of the emitted match (first arm wins), Default and the getter choice in which an Err at unwrap_unchecked is UB; C07_infallible_getter_total_any_build (EVERY build of every accepted definition, no cfg-free hypothesis, since D18 was repaired in /repo 6916a8d: the getter choice quantifies over all same-named generated enums), C07_cfg_reuse_refuted (historical, about the first-hit rule); tie = compiled enums and getters evaluated on EVERY raw value 0..2^w-1 (debug; Miri on the unsafe subset in the thorough tier) vs the Coq tables.",
         "rustc/Miri are the observers of UB symptoms; the cfg-reuse family (9 definitions x 2 builds) is compared with the model. " + TB, "5 C07"),
 "C15": ("C15_numberings_agree, C15_implicit_numbering, C15_reject_iff_after_repairs (the full iff for the pass as it is since D12, D16 and D17 were fixed in /repo: 'does not fit' = above 2^w-1, below 0 on an unsigned field, outside the signed repr of an int field), C15_reject_iff_after_repair (the D12-only model, historical), C15_reject_sound, C15_infallible_iff_total (fuelled coverage walk = unbounded statement, pigeonhole), C15_device_accept_iff; historical C15_duplicate_numbers_refuted / _partial about the unrepaired pass; tie = exhaustive enums at small bounds + random (widths 1..16, cfg, int, 4 syntaxes): verdict, error kind and the emitted discriminants vs model and spec on the real MIR.",
         "Widths >= 127 bits panic in a debug-profile generator (noted, outside the property's 1..16). " + TB, "5 C15"),

 "C16": ("C16_front_ends_agree (FULL, no hypothesis on the defaults since D5 was repaired): for every well-formed abstract definition and every structural spelling, lower_dsl (to_dsl d) and lower_manifest (to_manifest d) give the same MIR or reject in the same class; C16_both_implement_the_meaning, C16_same_decision_and_output, C16_defaults_applied, C16_defaults_ignored_would_differ (the pre-fix lowering differs: not vacuous), C16_dsl_first_item_wins; tie = (text) six streams of abstract definitions rendered into DSL/JSON/YAML/TOML with random spellings: verdict, tokens hash and MIR Debug strings identical across the four; (model) Front.v's two lowerings vs the real MIR of each front end.",
         "The text parsers (syn, serde_json, yaml-rust2, toml, dd-manifest-tree integer forms) are exercised, not modelled; descriptions compared at text level only; D19 (cfg token spacing) was repaired in /repo (aaadff3); the spacing probe reports a violation if it returns. " + TB, "5 C16"),
 "C03": ("Ops half: C03_ops_safe_load/store and C03_store_footprint — in the model every out-of-slice access, usize underflow or over-wide shift is a Fail, and in-bounds calls are proved never to Fail and to change no byte outside the covered bytes; tie = canary-guarded debug build of the real ops vs the model on the exhaustive geometry. Generator half: accepted definitions only emit in-bounds call sites (C03_accepted_accessors_in_bounds) checked against the call sites of real generator output.",
         "Release-build UB is not observable directly; debug_assert!/canaries/Miri (thorough) are the observers. " + TB, "5 C03"),
}
ALL = [json.loads(l)["id"] for l in open(os.path.join(V, "properties.jsonl"))]


def main():
    extra = {}
    p = os.path.join(V, "tools", "manifest_claims.json")
    if os.path.exists(p):
        extra = json.load(open(p))
    claims = dict(CLAIMS)
    for k, v in extra.get("claims", {}).items():
        claims[k] = tuple(v)
    na = extra.get("not_applicable", {})
    checks = []
    for pid in ALL:
        if pid not in claims or not os.path.exists(os.path.join(V, "tools", "checks", pid.lower() + ".py")):
            continue
        text, note, ref = claims[pid]
        checks.append({
            "property_id": pid,
            "quick_cmd": f"./check {pid} --tier quick",
            "thorough_cmd": f"./check {pid} --tier thorough",
            "evidence_file": f"/verif/evidence/{pid}.json",
            "replay_cmd_template": f"./check {pid} --replay {{path}}",
            "engine": "coq-proof+correspondence",
            "level_claimed": {"category": "proof", "text": text, "design_ref": "DESIGN.md section " + ref},
            "level_note": note,
            "technique": "Rocq/Coq 8.16 proof over a Gallina model + differential correspondence with the real code",
        })
    claimed = {c["property_id"] for c in checks}
    m = {
        "version": 1,
        "setup_cmd": "./setup.sh",
        "hooks": {"guard": "device_driver_verif",
                  "enable": "RUSTFLAGS=\"--cfg device_driver_verif\" (set by tools/vlib.py for every harness build; no hook is needed: every observation point is public API)",
                  "baseline_off_cmd": "cd /repo && cargo test --workspace --no-fail-fast --offline",
                  "source_commits": extra.get("hook_commits", []), "add_only": True},
        "engines": [{"name": "coq-proof+correspondence", "path": "/verif/check", "serves_properties": sorted(claimed),
                     "kind_free_text": "Coq 8.16 theorems about hand-written Gallina models; models tied to the code by differential runs (extracted OCaml / coqc vm_compute vs the real crates) and by tables translated from the Rust source"}],
        "checks": checks,
        "notes": "See DESIGN.md. KNOWN_FINDINGS.jsonl lists genuine defects (open / fixed).",
        "not_applicable": [{"property_id": p, "reason": na.get(p, "check not built yet in this session (planned: DESIGN.md section 5)")}
                           for p in ALL if p not in claimed],
    }
    json.dump(m, open(os.path.join(V, "MANIFEST.json"), "w"), indent=1)
    print("claimed:", sorted(claimed))


if __name__ == "__main__":
    main()
