#!/bin/bash
# Usage: tools/seed_verify.sh <worktree> : confirms (1) suite passes with patch (2) demo fails with patch (3) demo passes without.
set -u
W="$1"
cd "$W" || exit 2
export CARGO_NET_OFFLINE=true
LW=$(mktemp); LO=$(mktemp)
DEMO=$(python3 -c "import json;print(json.load(open('SEED/meta.json'))['demo_cmd'])")
git diff --quiet && { echo "worktree has no change applied"; git apply SEED/patch.diff || exit 2; }
echo "== suite with patch"; cargo test --workspace --offline 2>&1 | grep "test result" | awk '{p+=$4; f+=$6} END {print "passed",p,"failed",f}'
echo "== demo with patch (expect failure)"; bash -c "$DEMO" > $LW 2>&1; echo "rc=$?"; grep -E "test result" $LW | head -3; echo "  FAILED/panicked/error lines: $(grep -cE "FAILED|panicked|^error" $LW)"
git apply -R SEED/patch.diff   # (never git stash: the stash is shared by all worktrees of a repository)
echo "== demo without patch (expect success)"; bash -c "$DEMO" > $LO 2>&1; echo "rc=$?"; grep -E "test result" $LO | head -5
git apply SEED/patch.diff
# remove the copied demo file(s)
git status --short | grep '^??' | grep -v SEED | awk '{print $2}' | grep -E "demo|seed_" | xargs -r rm -f
git diff --stat | tail -1
rm -f $LW $LO
