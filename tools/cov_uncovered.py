#!/usr/bin/env python3
"""Lists the source lines of /repo that `llvm-cov show` reports with an execution count of 0, grouped in runs,
skipping `#[cfg(test)]` modules.  Input: the text output of llvm-cov show.  See tools/coverage.sh."""
import re, sys

cur, in_tests, runs, run = None, False, {}, None
for line in open(sys.argv[1], errors="replace"):
    line = line.rstrip("\n")
    m = re.match(r"^(/\S+\.rs):$", line)
    if m:
        cur, in_tests, run = m.group(1), False, None
        continue
    m = re.match(r"^\s*(\d+)\|\s*([0-9.kMGE]*)\|(.*)$", line)
    if not m or cur is None:
        continue
    no, cnt, src = int(m.group(1)), m.group(2), m.group(3)
    if re.search(r"#\[cfg\(test\)\]", src):
        in_tests = True
    if in_tests:
        continue
    if cnt == "0":
        if run and run[1] == no - 1:
            run[1] = no
            run[2].append(src)
        else:
            run = [no, no, [src]]
            runs.setdefault(cur, []).append(run)
    elif cnt == "":
        # a line without counter (blank, comment, continuation) does not end a run
        if run and run[1] == no - 1:
            run[1] = no
            run[2].append(src)
    else:
        run = None
tot = 0
for f in sorted(runs):
    print(f"== {f}")
    for a, b, src in runs[f]:
        while src and not src[-1].strip():
            src.pop(); b -= 1
        n = sum(1 for s in src if s.strip())
        tot += n
        print(f"  {a}-{b}:")
        for s in src[:12]:
            print("      " + s)
        if len(src) > 12:
            print(f"      ... ({len(src) - 12} more)")
print(f"TOTAL uncovered non-blank lines: {tot}")
