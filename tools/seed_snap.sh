#!/bin/bash
# Usage: tools/seed_snap.sh <seed-dir-with-patch.diff | patch file> <check ids...>
# Runs the given checks against a SNAPSHOT of /repo's HEAD with the change applied (never against /repo itself):
# scratch worktree /tmp/verif-snap, VERIF_REPO mode of tools/vlib.py (everything built from the snapshot lives under
# .cache/alt/, evidence and replays included).  Prints the VIOLATION / OK lines.  -R as first argument applies the patch
# in reverse (to test that a repaired defect is reported again).
REV=""
[ "$1" = "-R" ] && { REV="-R"; shift; }
S="$1"; shift
[ -d "$S" ] && P="$S/patch.diff" || P="$S"
P=$(readlink -f "$P")
cd "$(dirname "$0")/.."
SNAP=${VERIF_SNAP:-/tmp/verif-snap}
if [ ! -d "$SNAP" ]; then git -C /repo worktree add --detach "$SNAP" HEAD >/dev/null 2>&1 || exit 2; fi
git -C "$SNAP" checkout -q --detach "$(git -C /repo rev-parse HEAD)" && git -C "$SNAP" reset -q --hard && git -C "$SNAP" clean -qfd -e target
cp /repo/Cargo.lock "$SNAP/Cargo.lock"
git -C "$SNAP" apply $REV "$P" || { echo "patch does not apply"; exit 2; }
for c in "$@"; do
  echo "--- ./check $c (snapshot with $(basename "$S"))"
  VERIF_REPO="$SNAP" timeout 1500 ./check $c 2>&1 | grep -E "^VIOLATION|^KNOWN-FINDING|OK \(|Traceback|Error" | head -6
done
git -C "$SNAP" reset -q --hard
