#!/bin/bash
# Usage: tools/seedgen/prepare_round.sh <round-number>
# Creates one scratch worktree of /repo per property under /tmp/seed<round>-Cxx with PROPERTY.txt (the property text
# only) and PREVIOUS.txt (what the earlier kept changes for that property did), ready for an independent sub-agent.
# Nothing from /verif's checks or models is copied.  Remove each worktree when done:
#   git -C /repo worktree remove --force /tmp/seed<round>-Cxx
R=$1
cd /verif
cp /repo/Cargo.lock /tmp/Cargo.lock.seed 2>/dev/null
for i in $(seq -w 1 20); do
  W=/tmp/seed$R-C$i
  git -C /repo worktree add --detach $W HEAD >/dev/null 2>&1
  cp /repo/Cargo.lock $W/Cargo.lock 2>/dev/null
  python3 - "$i" "$W" <<'P'
import json,sys,glob,os
i,W=sys.argv[1],sys.argv[2]
pid="C"+i
for l in open('/verif/properties.jsonl'):
    d=json.loads(l)
    if d['id']==pid:
        open(W+'/PROPERTY.txt','w').write(f"{d['id']}: {d['title']}\n\n{d['statement']}\n\nQuantifier: {d.get('quantifier','')}\n\nAnchors: {json.dumps(d.get('anchors'))}\n")
prev=[]
for m in sorted(glob.glob(f'/verif/seeded/{pid}*/meta.json')):
    d=json.load(open(m))
    prev.append(f"- {os.path.basename(os.path.dirname(m))}: {d.get('summary')}\n  needs: {d.get('needs')}\n  files: {d.get('files')}\n")
open(W+'/PREVIOUS.txt','w').write("Changes already made by others to break this property (yours must differ from ALL of them):\n\n"+"\n".join(prev))
P
done
git -C /repo worktree list | wc -l
