#!/bin/bash
# ROUND=<n> tools/seedgen/process_seed.sh Cxx check1 check2 ... : verify the seed in its worktree /tmp/seed<n>-Cxx, copy it to
# seeded/Cxx-<n>, run the given checks against a snapshot with the change applied (tools/seed_snap.sh)
id=$1; shift
R=${ROUND:-6}; W=/tmp/seed$R-$id
cd /verif
[ -f $W/SEED/patch.diff ] || { echo "$id: no SEED/patch.diff"; exit 1; }
echo "##### $id verify: $(tools/seed_verify.sh $W 2>&1 | tr '\n' ' ' | cut -c1-400)"
d=seeded/$id-$R; mkdir -p $d
cp -r $W/SEED/. $d/      # every file the agent saved (demo data files included)
tools/seed_snap.sh /verif/$d "$@" 2>&1 | cut -c1-220
