#!/bin/bash
# proc6.sh Cxx check1 check2 ... : verify the round-6 seed in its worktree, copy it to seeded/Cxx-6, run checks on a snapshot
id=$1; shift
R=${ROUND:-6}; W=/tmp/seed$R-$id
cd /verif
[ -f $W/SEED/patch.diff ] || { echo "$id: no SEED/patch.diff"; exit 1; }
echo "##### $id verify: $(tools/seed_verify.sh $W 2>&1 | tr '\n' ' ' | cut -c1-400)"
d=seeded/$id-$R; mkdir -p $d
cp $W/SEED/patch.diff $W/SEED/meta.json $d/; for f in README.md demo.rs demo.sh demo.dsl ub_demo.rs; do [ -f $W/SEED/$f ] && cp $W/SEED/$f $d/; done
ls $W/SEED | grep -vE "patch.diff|meta.json|README.md|demo.rs|demo.sh|demo.dsl|ub_demo.rs" | sed "s/^/   extra file: /"
tools/seed_snap.sh /verif/$d "$@" 2>&1 | cut -c1-220
