"""C20 — generation is deterministic; CLI and macro agree with the library.

Coq side: props/C20.v (theories/Determ.v, DetermProofs.v).  This module is the correspondence:
  A. Coq (vm_compute on generated cases files, theories/DetermShow.v): parser dispatch for every path, and for every
     structured definition the refs_validated/reset_values_converted model (outcome under two orders + candidate errors).
  B. lib_runner (harness): the library called from 8 threads x R repetitions per input, pretty-printed as the CLI does.
  C. the real device-driver-cli binary, K fresh processes per input to stdout + one run with -o.
  D. Coq: the CLI model evaluated on (path, content, -o, library output) -> exit status, writes.
  E. comparisons (determinism, sinks, status, model vs code), D13 handled through KNOWN_FINDINGS.jsonl.
  F. probe crate: create_device! (inline DSL, relative / absolute manifest paths, four extensions) next to include!d CLI
     output, same scripted calls against recording mocks; rejected inputs through the macro must not compile.
"""
import concurrent.futures, json, os, random, re, shutil, subprocess, time
import vlib
from checks import c20_corpus as C

CLI_TARGET = os.path.join(vlib.CACHE, "target-repo")
CLI = os.path.join(CLI_TARGET, "debug", "device-driver-cli")
PARSERS = ("json", "yaml", "toml", "dsl")
REFS_RE = re.compile(r'^(Block|Register|Command) ref "([^"]*)" refers to unknown (block|register|command) "([^"]*)"$')
KIND_TAG = {"Block": "B", "Register": "R", "Command": "C"}

RULE = ("distinct = (input name, syntax/extension, sink) combinations actually run; inputs = hand corpus (accepted: registers, "
        "reset values, enums, commands, buffers, blocks, refs, repeats, cfg, signed addresses, defaults; rejected: duplicate names, "
        "1/2/3/4/6 dangling refs incl. D13, overlaps, bad ranges, missing config, text-level garbage) rendered in DSL/JSON/YAML/TOML + "
        "seeded random small definitions + odd paths (no/unknown/upper-case extension, content/extension mismatch, missing file, "
        "uncreatable -o); evaluations = CLI process runs + library thread runs + probe trace pairs")


# ------------------------------------------------------------------------------------------------ helpers

def coq_str(s):
    return '"' + s.replace('"', '""') + '"'


def coq_opt_str(s):
    return "None" if s is None else "(Some " + coq_str(s) + ")"


TOKEN = re.compile(r'"(?:[^"]|"")*"|\[|\]|;')


def parse_coq_lists(txt):
    """Parses `[...]` with nested lists of string literals (as printed by Coq) into python lists."""
    toks = TOKEN.findall(txt)
    pos = [0]

    def val():
        t = toks[pos[0]]
        pos[0] += 1
        if t == "[":
            out = []
            if toks[pos[0]] == "]":
                pos[0] += 1
                return out
            while True:
                out.append(val())
                t2 = toks[pos[0]]
                pos[0] += 1
                if t2 == "]":
                    return out
                assert t2 == ";", t2
        assert t.startswith('"'), t
        return t[1:-1].replace('""', '"')
    return val()


def run_coq_file(work, name, body, timeout=900):
    d = os.path.join(work, "coq")
    os.makedirs(d, exist_ok=True)
    p = os.path.join(d, name + ".v")
    with open(p, "w") as f:
        f.write("From Coq Require Import List String Ascii ZArith.\nFrom DD Require Import Common Determ DetermShow.\n"
                "Import ListNotations.\nOpen Scope string_scope.\nSet Printing Depth 1000000.\nSet Printing Width 200.\n")
        f.write(body)
    # big string literals (20-30 kB of generated code) are deep terms: coqc needs more than the default 8 MB stack
    rc, out = vlib.run("ulimit -s unlimited 2>/dev/null || ulimit -s 1000000; exec coqc -Q %s DD -Q %s DDGen %s"
                       % (os.path.join(vlib.COQ, "theories"), os.path.join(vlib.COQ, "gen"), p), cwd=d, timeout=timeout)
    return rc, out


def section(out, name):
    """Text of `name = ...` up to the type annotation line `     : list ...`."""
    m = re.search(r"^" + re.escape(name) + r" =(.*?)^\s+: list", out, flags=re.S | re.M)
    return m.group(1) if m else None


def rust_unescape(lit):
    out = []
    i = 0
    while i < len(lit):
        ch = lit[i]
        if ch != "\\":
            out.append(ch)
            i += 1
            continue
        n = lit[i + 1]
        if n == "n":
            out.append("\n")
        elif n == "t":
            out.append("\t")
        elif n == "r":
            out.append("\r")
        elif n == "0":
            out.append("\0")
        elif n == "u":
            j = lit.index("}", i)
            out.append(chr(int(lit[i + 3:j], 16)))
            i = j + 1
            continue
        elif n == "\n":
            i += 2
            while i < len(lit) and lit[i] in " \t\n":
                i += 1
            continue
        else:
            out.append(n)
        i += 2
    return "".join(out)


def error_message(text):
    """Message of a pretty-printed `::core::compile_error!("...")` (first invocation), or None."""
    if not text.startswith("::core::compile_error!"):
        return None
    a = text.find('"')
    if a < 0:
        return None
    i = a + 1
    while i < len(text):
        if text[i] == "\\":
            i += 2
            continue
        if text[i] == '"':
            break
        i += 1
    return rust_unescape(text[a + 1:i])


def refs_error(text):
    """(kind tag, ref name, target) if the text is a refs_validated error."""
    m = error_message(text)
    if m is None:
        return None
    mm = REFS_RE.match(m)
    if not mm:
        return None
    return f"{KIND_TAG[mm.group(1)]}:{mm.group(2)}:{mm.group(4)}"


def d13_status():
    """'open' | 'fixed' | None, from KNOWN_FINDINGS.jsonl (the file's status drives the behaviour)."""
    p = os.path.join(vlib.VERIF, "KNOWN_FINDINGS.jsonl")
    st = None
    entry = None
    if os.path.exists(p):
        for line in open(p):
            line = line.strip()
            if not line or line.startswith("#"):
                continue
            try:
                d = json.loads(line)
            except json.JSONDecodeError:
                continue
            if d.get("id") == "D13" and d.get("property") == "C20":
                st = d.get("status")
                entry = d
    return st, entry


# ------------------------------------------------------------------------------------------------ inputs

def make_inputs(ctx, inp_dir):
    rng = random.Random(ctx.seed)
    inputs = []
    adefs = {}

    def add(name, syntax, text, label, adef_name=None, path=None, special=None):
        iid = "i%04d" % len(inputs)
        if path is None:
            path = os.path.join(inp_dir, f"{name}.{syntax}")
        if text is not None:
            os.makedirs(os.path.dirname(path), exist_ok=True)
            with open(path, "w") as f:
                f.write(text)
        inputs.append({"id": iid, "name": name, "syntax": syntax, "path": path, "text": text, "label": label,
                       "adef": adef_name, "special": special or {}})

    acc = C.accepted_corpus()
    for name, d in acc.items():
        adefs[name] = d
        for syn in C.SYNTAXES:
            add(name, syn, C.RENDER[syn](d), "accepted", adef_name=name)
    for name, (d, tag) in C.rejected_corpus().items():
        adefs[name] = d
        for syn in C.SYNTAXES:
            add(name, syn, C.RENDER[syn](d), "rejected:" + tag, adef_name=name)
    for name, m in C.RAW_REJECTED.items():
        for syn in C.SYNTAXES:
            add("raw_" + name, syn, m[syn], "raw")
    for name, m in C.DECISION.items():
        for syn in C.SYNTAXES:
            add("dec_" + name, syn, m[syn], "decision")
    nrand = 16 if ctx.tier == "quick" else 120
    for k in range(nrand):
        d = C.random_def(rng, k)
        name = "rand%03d" % k
        adefs[name] = d
        syns = C.SYNTAXES if ctx.tier == "thorough" else [C.SYNTAXES[k % 4], C.SYNTAXES[(k + 1 + k // 4) % 4]]
        for syn in dict.fromkeys(syns):
            add(name, syn, C.RENDER[syn](d), "random", adef_name=name)
    # odd paths: dispatch / environment
    base = acc["regs_basic"]
    odd = os.path.join(inp_dir, "odd")
    j, y, t, dsl = C.to_json(base), C.to_yaml(base), C.to_toml(base), C.to_dsl(base)
    add("odd_upper_ext", "JSON", j, "odd", path=os.path.join(odd, "x.JSON"))
    add("odd_yml", "yml", y, "odd", path=os.path.join(odd, "x.yml"))
    add("odd_noext", "", j, "odd", path=os.path.join(odd, "noext"))
    add("odd_dotfile", "", j, "odd", path=os.path.join(odd, ".json"))
    add("odd_double_ext", "json", j, "odd", path=os.path.join(odd, "x.tar.json"))
    add("odd_empty_ext", "", j, "odd", path=os.path.join(odd, "x."))
    add("odd_dir_with_ext", "", j, "odd", path=os.path.join(odd, "dir.json", "inner"))
    add("odd_toml_named_json", "json", t, "odd", path=os.path.join(odd, "cross_t.json"))
    add("odd_json_named_toml", "toml", j, "odd", path=os.path.join(odd, "cross_j.toml"))
    add("odd_json_named_yaml", "yaml", j, "odd", path=os.path.join(odd, "cross_j.yaml"))
    add("odd_yaml_named_dsl", "dsl", y, "odd", path=os.path.join(odd, "cross_y.dsl"))
    add("odd_dsl_named_json", "json", dsl, "odd", path=os.path.join(odd, "cross_d.json"))
    add("odd_missing", "json", None, "odd", path=os.path.join(odd, "missing.json"))
    add("odd_missing_unknown_ext", "txt", None, "odd", path=os.path.join(odd, "missing.txt"))
    add("odd_uncreatable_out", "json", j, "odd", path=os.path.join(odd, "uncreatable.json"), special={"uncreatable": True})
    add("odd_relative_path", "yaml", y, "odd", path=os.path.join(odd, "rel.yaml"), special={"relative": True})
    return inputs, adefs


# ------------------------------------------------------------------------------------------------ stages

def stage_coq_models(ctx, inputs, adefs):
    names = sorted(adefs)
    body = "Definition r_dispatch := Eval vm_compute in (map show_dispatch [\n" + \
           ";\n".join(coq_str(i["cli_path"]) for i in inputs) + "]).\nPrint r_dispatch.\n"
    if names:
        body += "Definition r_model := Eval vm_compute in [\n" + ";\n".join("model_case " + C.to_coq_device(adefs[n]) for n in names) + \
                "].\nPrint r_model.\n"
    rc, out = run_coq_file(ctx.work, "batch1", body)
    if rc != 0:
        return None, None, "coqc failed on batch1.v: " + out[-1500:]
    disp = parse_coq_lists(section(out, "r_dispatch"))
    model = parse_coq_lists(section(out, "r_model")) if names else []
    if len(disp) != len(inputs) or len(model) != len(names):
        return None, None, "batch1 output has the wrong length"
    return disp, {n: {"id": m[0], "rev": m[1], "cands": m[2:]} for n, m in zip(names, model)}, None


def stage_lib(ctx, inputs, libdir, threads, reps):
    shutil.rmtree(libdir, ignore_errors=True)
    os.makedirs(libdir)
    lines = [f'{i["id"]}\t{i["parser"]}\t{i["path"]}\tDev' for i in inputs if i["parser"] in PARSERS and i["text"] is not None]
    nsh = 4
    res = {}
    files = []
    for s in range(nsh):
        chunk = lines[s::nsh]
        if not chunk:
            continue
        p = os.path.join(libdir, f"list{s}.txt")
        open(p, "w").write("\n".join(chunk) + "\n")
        files.append(p)

    def one(p):
        # the shards run under different RUST_BACKTRACE settings; the CLI runs of stage_cli vary it per run: what the
        # process environment says about backtraces must not reach the output (seed C20-7: `{error:?}` in compile_error!)
        bt = BACKTRACE_SETTINGS[files.index(p) % len(BACKTRACE_SETTINGS)]
        return vlib.run([vlib.bin_path("lib_runner"), p, libdir, str(threads), str(reps)], timeout=1500,
                        env={"RUST_BACKTRACE": bt if bt is not None else "0"})
    with concurrent.futures.ThreadPoolExecutor(max_workers=nsh) as ex:
        outs = list(ex.map(one, files))
    for rc, out in outs:
        if rc != 0:
            return None, "lib_runner failed: " + out[-800:]
        for line in out.splitlines():
            f = line.split("\t")
            if len(f) == 5 and f[0].startswith("i"):
                texts = []
                for k in range(int(f[3])):
                    p = os.path.join(libdir, f[0] + ".lib" + (f".{k}" if k else ""))
                    texts.append(open(p, "rb").read())
                res[f[0]] = {"status": f[1], "tokerr": f[2] == "1", "ndistinct": int(f[3]), "nruns": int(f[4]), "texts": texts}
    return res, None


def stage_history(ctx, inputs, lib, libdir, stats):
    """`independent of process, thread`: every input generated by ONE long-lived thread after all kinds of other inputs
    (three orders) must give what a fresh thread gives (lib_runner hist mode).  Inputs that are nondeterministic on
    fresh threads already (a recorded class) are left out."""
    ok_ids = {i for i, l in lib.items() if l["ndistinct"] == 1}
    lines = [f'{i["id"]}\t{i["parser"]}\t{i["path"]}\tDev' for i in inputs
             if i["parser"] in PARSERS and i["text"] is not None and i["id"] in ok_ids]
    p = os.path.join(libdir, "hist_list.txt")
    open(p, "w").write("\n".join(lines) + "\n")
    rc, out = vlib.run([vlib.bin_path("lib_runner"), p, libdir, "hist", str(ctx.seed)], timeout=1500, env={"RUST_BACKTRACE": "0"})
    if rc != 0 or "HSUMMARY" not in out:
        return "lib_runner hist mode failed: " + out[-800:]
    byid = {i["id"]: i for i in inputs}
    for line in out.splitlines():
        f = line.split("\t")
        if f[0] == "HSUMMARY":
            stats["history_runs"], stats["history_differences"] = int(f[1]), int(f[2])
        elif f[0] == "H" and len(f) == 5:
            i, prev = byid[f[1]], byid.get(f[4])
            a = open(os.path.join(libdir, f[1] + ".fresh"), "rb").read()
            b = open(os.path.join(libdir, f[1] + ".hist"), "rb").read()
            report(ctx, "history-dependent", {
                "what": "the output for an input depends on what the same thread generated before it (fresh thread vs a thread that "
                        "has generated other inputs): generation is not a function of its input",
                "failing_input": {"name": i["name"], "syntax": i["syntax"], "text": (i["text"] or "")[:3000]},
                "generated_just_before": None if prev is None else {"name": prev["name"], "syntax": prev["syntax"], "text": (prev["text"] or "")[:3000]},
                "pass_and_position": [int(f[2]), int(f[3])], "first_difference": first_difference(a, b)})
    return None


STALE = b"// stale content of an earlier run\n" * 40000      # 1.4 MB: longer than any output generated here


BACKTRACE_SETTINGS = ("0", "1", None, "full")      # None: variable absent from the environment


def cli_once(inp, outpath, cwd, bt="0"):
    cmd = [CLI, "-m", inp["cli_path"], "-d", "Dev"]
    if outpath:
        try:
            os.remove(outpath)
        except OSError:
            pass
        if outpath.endswith(".pre.rs"):       # -o onto an EXISTING, longer file
            with open(outpath, "wb") as f:
                f.write(STALE)
        cmd += ["-o", outpath]
    e = dict(os.environ)
    e.pop("RUST_BACKTRACE", None)
    e.pop("RUST_LIB_BACKTRACE", None)
    if bt is not None:
        e["RUST_BACKTRACE"] = bt
    try:
        p = subprocess.run(cmd, cwd=cwd, env=e, stdout=subprocess.PIPE, stderr=subprocess.PIPE, timeout=120)
        rc, so, se = p.returncode, p.stdout, p.stderr
    except subprocess.TimeoutExpired:
        rc, so, se = 124, b"", b"[timeout]"
    fc = None
    if outpath and os.path.exists(outpath):
        fc = open(outpath, "rb").read()
    return rc, so, fc, se[-300:].decode(errors="replace")


def stage_cli(ctx, inputs, outdir, K, K_many):
    shutil.rmtree(outdir, ignore_errors=True)
    os.makedirs(outdir)
    tasks = []
    for i in inputs:
        k = K_many if i.get("many") else K
        for r in range(k):
            tasks.append((i, None, BACKTRACE_SETTINGS[r % len(BACKTRACE_SETTINGS)]))
        if i["special"].get("uncreatable"):
            tasks.append((i, os.path.join(outdir, "no_such_dir_" + i["id"], "x.rs"), "1"))
        else:
            tasks.append((i, os.path.join(outdir, i["id"] + ".rs"), "1"))
            tasks.append((i, os.path.join(outdir, i["id"] + ".pre.rs"), None))
    for i in inputs:
        i["runs"] = []
        i["file_run"] = None
        i["pre_run"] = None

    def one(t):
        i, outpath, bt = t
        return t, cli_once(i, outpath, i["cwd"], bt)
    with concurrent.futures.ThreadPoolExecutor(max_workers=vlib.NCPU) as ex:
        for (i, outpath, _bt), r in ex.map(one, tasks):
            if outpath and outpath.endswith(".pre.rs"):
                intact = r[2] == STALE
                i["pre_run"] = {"rc": r[0], "file": None if intact else r[2], "intact": intact, "outpath": outpath}
                os.remove(outpath)
            elif outpath:
                i["file_run"] = {"rc": r[0], "stdout": r[1], "file": r[2], "stderr": r[3], "outpath": outpath}
            else:
                i["runs"].append({"rc": r[0], "stdout": r[1], "stderr": r[3]})
    # second pass: -o onto an existing file of EXACTLY the length of the output but with other content (what regenerating
    # after a small edit of the manifest looks like): afterwards the file holds the output (seed C20-11 skipped the write
    # when the lengths were equal)
    same = []
    for i in inputs:
        fr = i.get("file_run")
        i["samelen_run"] = None
        if fr and fr["file"] and not i["special"].get("uncreatable"):
            same.append((i, os.path.join(outdir, i["id"] + ".same.rs"), "0"))

    def one_same(t):
        i, outpath, bt = t
        with open(outpath, "wb") as f:
            f.write(b"/" * len(i["file_run"]["file"]))
        cmd = [CLI, "-m", i["cli_path"], "-d", "Dev", "-o", outpath]
        e = dict(os.environ)
        e["RUST_BACKTRACE"] = bt
        try:
            p = subprocess.run(cmd, cwd=i["cwd"], env=e, stdout=subprocess.PIPE, stderr=subprocess.PIPE, timeout=120)
            rc = p.returncode
        except subprocess.TimeoutExpired:
            rc = 124
        fc = open(outpath, "rb").read() if os.path.exists(outpath) else None
        try:
            os.remove(outpath)
        except OSError:
            pass
        return i, rc, fc
    with concurrent.futures.ThreadPoolExecutor(max_workers=vlib.NCPU) as ex:
        for i, rc, fc in ex.map(one_same, same):
            i["samelen_run"] = {"rc": rc, "file": fc}
    return len(tasks) + len(same)


def stage_cli_model(ctx, inputs, lib):
    """Evaluates Determ.cli_run (through DetermShow.cli_case) for every input, both sinks."""
    # identical library texts (one definition rendered in several syntaxes) are defined once; groups are spread over shards
    def libtext(i):
        l = lib.get(i["id"])
        return l["texts"][0].decode() if l and l["status"] == "out" else None
    groups = {}
    for i in inputs:
        groups.setdefault(libtext(i), []).append(i)
    nsh = vlib.NCPU
    shards = [[] for _ in range(nsh)]
    sizes = [0] * nsh
    for txt, members in sorted(groups.items(), key=lambda kv: -(len(kv[0] or "") + 1500 * len(kv[1]))):
        if txt is None or len(txt) < 2000:          # small: split freely
            for m in members:
                s = sizes.index(min(sizes))
                shards[s].append((txt, [m]))
                sizes[s] += len(txt or "") + 1500
        else:
            s = sizes.index(min(sizes))
            shards[s].append((txt, members))
            sizes[s] += len(txt) + 1500 * len(members)
    jobs = []
    for s, groups_in_shard in enumerate(shards):
        if not groups_in_shard:
            continue
        body = ""
        cases = []
        sh = []
        for g, (txt, members) in enumerate(groups_in_shard):
            body += f'Definition lib_{g} : option string := {coq_opt_str(txt)}.\n'
            for i in members:
                sh.append(i)
                body += f'Definition content_{i["id"]} : option string := {coq_opt_str(i["text"])}.\n'
                fr = i["file_run"]
                creat = "false" if i["special"].get("uncreatable") else "true"
                cases.append(f'cli_case {coq_str(i["cli_path"])} content_{i["id"]} true None lib_{g}')
                cases.append(f'cli_case {coq_str(i["cli_path"])} content_{i["id"]} {creat} (Some {coq_str(fr["outpath"])}) lib_{g}')
        body += "Definition r_cli := Eval vm_compute in [\n" + ";\n".join(cases) + "].\nPrint r_cli.\n"
        jobs.append((s, sh, body))

    def one(j):
        s, sh, body = j
        rc, out = run_coq_file(ctx.work, f"batch2_{s}", body)
        return sh, rc, out
    with concurrent.futures.ThreadPoolExecutor(max_workers=vlib.NCPU) as ex:
        for sh, rc, out in ex.map(one, jobs):
            if rc != 0:
                return "coqc failed on a batch2 file: " + out[-1500:]
            r = parse_coq_lists(section(out, "r_cli"))
            if len(r) != 2 * len(sh):
                return "batch2 output has the wrong length"
            for k, i in enumerate(sh):
                i["model_stdout"] = parse_model_cli(r[2 * k])
                i["model_file"] = parse_model_cli(r[2 * k + 1])
    return None


def parse_model_cli(s):
    status, stop, writes = s.split("|", 2)
    ws = []
    if writes:
        for w in writes.split("&"):
            sink, ln, what = w.rsplit(",", 2)
            ws.append({"sink": sink, "len": int(ln), "what": what})
    return {"status": int(status), "stop": stop, "writes": ws, "raw": s}


# ------------------------------------------------------------------------------------------------ comparison

MAX_PER_CATEGORY = 4
_reported = {}


def report(ctx, category, obj):
    """vlib.violation, but at most MAX_PER_CATEGORY replay files per category (a broken CLI would otherwise
    produce one per input); further ones are counted and logged."""
    n = _reported.get(category, 0)
    _reported[category] = n + 1
    if n < MAX_PER_CATEGORY:
        obj = dict(obj)
        obj.setdefault("category", category)
        vlib.violation(ctx, obj)
    elif n == MAX_PER_CATEGORY:
        ctx.violations += 1
        ctx.log(f"further violations of category '{category}' are counted, not written")
    else:
        ctx.violations += 1


def first_difference(a, b, width=160):
    n = min(len(a), len(b))
    k = next((j for j in range(n) if a[j] != b[j]), n)
    lo = max(0, k - width // 2)
    return {"offset": k, "a": a[lo:lo + width].decode(errors="replace"), "b": b[lo:lo + width].decode(errors="replace")}


def short(b, n=400):
    if isinstance(b, bytes):
        b = b.decode(errors="replace")
    return b if len(b) <= n else b[:n] + f"...[{len(b)} bytes]"


def describe(i):
    return {"name": i["name"], "syntax": i["syntax"], "path": i["cli_path"], "label": i["label"],
            "text": i["text"], "replay_cmd": f"{CLI} -m {i['cli_path']} -d Dev   (repeat; compare stdout and exit status)"}


def compare(ctx, inputs, lib, models, d13_open, stats):
    d13_instances = []
    d13_not_reproduced = []
    for i in inputs:
        l = lib.get(i["id"])
        mod = models.get(i["adef"]) if i["adef"] else None
        cands = mod["cands"] if mod else []
        runs = i["runs"]
        fr = i["file_run"]
        ms, mf = i["model_stdout"], i["model_file"]
        # ---- (i)/(ii)/(iii): every observation of "the output for this input"
        variants = {}          # text -> where seen
        for r in runs:
            variants.setdefault(r["stdout"], []).append("cli-stdout")
        if fr["file"] is not None:
            variants.setdefault(fr["file"], []).append("cli-file")
        if l and l["status"] in ("out",):
            for t in l["texts"]:
                variants.setdefault(t, []).append("library-thread")
        rcs = sorted({r["rc"] for r in runs} | (set() if i["special"].get("uncreatable") else {fr["rc"]}))
        nondet = len(variants) > 1 or len(rcs) > 1 or (l is not None and l["ndistinct"] > 1)
        if nondet:
            in_class = (len(rcs) == 1 and all(refs_error(t.decode(errors="replace")) in cands for t in variants) and len(cands) >= 2
                        and len({refs_error(t.decode(errors="replace")) for t in variants}) == len(variants))
            if d13_open and in_class:
                d13_instances.append((i, sorted(refs_error(t.decode()) for t in variants)))
            else:
                vs = list(variants)
                report(ctx, "nondeterminism", {
                    "first_difference": first_difference(vs[0], vs[1]) if len(vs) > 1 else None,
                    "what": "same input, different output across processes/threads/sinks (C20: byte-identical output required)"
                            + ("; D13 is not listed open in KNOWN_FINDINGS.jsonl" if in_class else ""),
                    "failing_input": describe(i),
                    "implementation": {"exit_statuses": rcs,
                                       "distinct_outputs": [{"seen_in": sorted(set(v)), "count": len(v), "text": short(k)}
                                                            for k, v in variants.items()]},
                    "model_and_spec": {"cli_model": ms["raw"], "refs_model_candidates": cands,
                                       "expected": "one output, one exit status"}})
                continue
        elif mod and len(cands) >= 2 and mod["id"].startswith("REJECT") and d13_open:
            d13_not_reproduced.append(i)
        # ---- (iv) exit status and sinks against the Coq CLI model
        bad = []
        for r in runs:
            if r["rc"] != ms["status"]:
                bad.append(f"stdout run: exit status {r['rc']}, model {ms['status']} ({ms['stop']})")
                break
            if not ms["writes"] and r["stdout"] != b"":
                bad.append("stdout run: model writes nothing, tool wrote " + short(r["stdout"], 120))
                break
            if ms["writes"]:
                w = ms["writes"][0]
                if w["sink"] != "stdout" or w["what"] != "LIB" or len(ms["writes"]) != 1:
                    bad.append("model shape unexpected: " + ms["raw"])
                    break
                if l is None or r["stdout"] not in l["texts"] and not nondet:
                    bad.append("stdout differs from the pretty-printed library output")
                    break
                if not nondet and len(r["stdout"]) != w["len"]:
                    bad.append(f"stdout length {len(r['stdout'])}, model {w['len']}")
                    break
        if fr["rc"] != mf["status"]:
            bad.append(f"-o run: exit status {fr['rc']}, model {mf['status']} ({mf['stop']})")
        if fr["stdout"] != b"" and not (mf["writes"] and mf["writes"][0]["sink"] == "stdout"):
            bad.append("-o run: something was written to stdout: " + short(fr["stdout"], 120))
        if mf["writes"]:
            w = mf["writes"][0]
            if w["sink"] != "file:" + fr["outpath"] or w["what"] != "LIB" or len(mf["writes"]) != 1:
                bad.append("model shape unexpected: " + mf["raw"])
            elif fr["file"] is None:
                bad.append("-o run: model writes the library output to the file, no file was created")
            elif l is None or (fr["file"] not in l["texts"] and not nondet):
                bad.append("-o file differs from the pretty-printed library output")
            elif not nondet and (fr["file"] != runs[0]["stdout"]):
                bad.append("-o file differs from stdout")
        elif fr["file"] is not None:
            bad.append("-o run: model writes nothing, but the file exists with " + short(fr["file"], 120))
        # ---- -o onto an existing longer file: afterwards it holds exactly what a fresh file holds (the output replaces the
        # old content), or, when the model writes nothing, it is untouched
        pr = i.get("pre_run")
        if pr is not None:
            if pr["rc"] != fr["rc"]:
                bad.append(f"-o onto an existing file: exit status {pr['rc']}, onto a fresh path {fr['rc']}")
            elif mf["writes"] and pr["file"] != fr["file"]:
                bad.append("-o onto an existing longer file: the file does not hold exactly the output (%d bytes, fresh file %d bytes; stale tail kept: %s)"
                           % (len(pr["file"] or b""), len(fr["file"] or b""), (pr["file"] or b"").endswith(STALE[-40:])))
            elif not mf["writes"] and not pr["intact"]:
                bad.append("-o onto an existing file: model writes nothing, but the existing file was modified (%d bytes left)" % len(pr["file"] or b""))
        sr = i.get("samelen_run")
        if sr is not None and fr is not None:
            if sr["rc"] != fr["rc"]:
                bad.append(f"-o onto an existing file of the same length: exit status {sr['rc']}, onto a fresh path {fr['rc']}")
            elif sr["file"] != fr["file"]:
                bad.append("-o onto an existing file of exactly the output's length: the file does not hold the output afterwards "
                           "(old content kept: %s)" % (sr["file"] == b"/" * len(fr["file"] or b"")))
        # ---- property text directly: non-zero exactly when the library reports an error (environment permitting)
        if l and l["status"] == "out":
            txt = l["texts"][0].decode(errors="replace")
            if l["tokerr"] != txt.startswith("::core::compile_error!"):
                bad.append("hypothesis of C20_cli_status broken: token-level compile_error! = %s but pretty text starts with %r"
                           % (l["tokerr"], txt[:30]))
            for r in runs:
                if (r["rc"] != 0) != l["tokerr"]:
                    bad.append(f"exit status {r['rc']} but library reports error = {l['tokerr']}")
                    break
        elif any(r["rc"] == 0 for r in runs):
            bad.append("exit status 0 although the library produced no output for this path")
        if bad:
            report(ctx, "cli-status-or-sink", {
                "what": "CLI disagrees with the model/specification of cli/src/main.rs (status, sink or bytes written)",
                "failing_input": describe(i), "disagreements": bad,
                "implementation": {"stdout_runs": [{"rc": r["rc"], "stdout": short(r["stdout"], 200), "stderr": r["stderr"][-200:]} for r in runs[:3]],
                                   "file_run": {"rc": fr["rc"], "file": None if fr["file"] is None else short(fr["file"], 200),
                                                "stdout": short(fr["stdout"], 100), "stderr": fr["stderr"][-200:], "-o": fr["outpath"]},
                                   "library": None if l is None else {"status": l["status"], "reports_error": l["tokerr"], "text": short(l["texts"][0], 200)}},
                "model_and_spec": {"stdout": ms["raw"], "file": mf["raw"]}})
            continue
        # ---- refs_validated / reset model vs code, on structured inputs
        if mod and l:
            seen = {refs_error(t.decode(errors="replace")) for t in (l["texts"] if l["status"] == "out" else [])}
            seen |= {refs_error(r["stdout"].decode(errors="replace")) for r in runs}
            seen.discard(None)
            dis = None
            if not seen <= set(cands):
                dis = f"reported refs error(s) {sorted(seen)} not among the model's candidates {cands}"
            elif mod["id"] == "ACCEPT" and l["status"] == "panic":
                pass          # earlier/later pass panicked: not this model's business
            elif mod["id"] == "ABORT" and l["status"] == "out" and not l["tokerr"]:
                dis = "model: reset_values_converted aborts (expect on a dangling ref), code accepted the input"
            elif cands and l["status"] == "out" and not l["tokerr"]:
                dis = f"model rejects with one of {cands}, code accepted the input"
            elif mod["id"] == "ABORT" and i["label"].startswith(("rejected:library_panic",)) and l["status"] != "panic":
                dis = "model: abort, code: " + l["status"]
            if dis:
                report(ctx, "refs-model", {"what": "refs_validated/reset_values_converted model (Determ.v) disagrees with the code",
                                     "failing_input": describe(i), "implementation": {"library": l["status"], "errors_seen": sorted(seen),
                                                                                      "text": short(l["texts"][0], 300) if l["texts"] else None},
                                     "model_and_spec": mod, "disagreement": dis})
                continue
            if seen:
                stats["refs_errors_checked"] += 1
    return d13_instances, d13_not_reproduced


# ------------------------------------------------------------------------------------------------ probe crate

MOCK_RS = r'''
#![allow(warnings)]
use std::collections::BTreeMap;
use std::fmt::Debug;
use std::marker::PhantomData;

pub struct Mock<RA, CA, BA> { pub log: Vec<String>, mem: BTreeMap<String, Vec<u8>>, _p: PhantomData<(RA, CA, BA)> }
impl<RA, CA, BA> Mock<RA, CA, BA> {
    pub fn new() -> Self { Mock { log: Vec::new(), mem: BTreeMap::new(), _p: PhantomData } }
    fn pattern(key: &str, len: usize) -> Vec<u8> {
        let h: u32 = key.bytes().fold(7u32, |a, b| a.wrapping_mul(31).wrapping_add(b as u32));
        (0..len).map(|i| (h.wrapping_add(i as u32 * 17) & 0xff) as u8).collect()
    }
}
impl<RA: Copy + Debug, CA, BA> device_driver::RegisterInterface for Mock<RA, CA, BA> {
    type Error = ();
    type AddressType = RA;
    fn write_register(&mut self, address: RA, size_bits: u32, data: &[u8]) -> Result<(), ()> {
        self.log.push(format!("WR {:?} {} {:?}", address, size_bits, data));
        self.mem.insert(format!("r{:?}", address), data.to_vec());
        Ok(())
    }
    fn read_register(&mut self, address: RA, size_bits: u32, data: &mut [u8]) -> Result<(), ()> {
        let key = format!("r{:?}", address);
        let v = self.mem.get(&key).cloned().unwrap_or_else(|| Self::pattern(&key, data.len()));
        for (i, d) in data.iter_mut().enumerate() { *d = *v.get(i).unwrap_or(&0); }
        self.log.push(format!("RD {:?} {} {:?}", address, size_bits, data));
        Ok(())
    }
}
impl<RA, CA: Copy + Debug, BA> device_driver::CommandInterface for Mock<RA, CA, BA> {
    type Error = ();
    type AddressType = CA;
    fn dispatch_command(&mut self, address: CA, size_bits_in: u32, input: &[u8], size_bits_out: u32, output: &mut [u8]) -> Result<(), ()> {
        let pat = Self::pattern(&format!("c{:?}", address), output.len());
        for (i, o) in output.iter_mut().enumerate() { *o = pat[i] ^ input.get(i).copied().unwrap_or(0); }
        self.log.push(format!("CMD {:?} {} {:?} {} {:?}", address, size_bits_in, input, size_bits_out, output));
        Ok(())
    }
}
impl<RA, CA, BA> device_driver::BufferInterfaceError for Mock<RA, CA, BA> { type Error = (); }
impl<RA, CA, BA: Copy + Debug> device_driver::BufferInterface for Mock<RA, CA, BA> {
    type AddressType = BA;
    fn write(&mut self, address: BA, buf: &[u8]) -> Result<usize, ()> {
        let n = buf.len().min(2).max(1).min(buf.len());
        self.log.push(format!("BW {:?} {:?} -> {}", address, buf, n));
        self.mem.entry(format!("b{:?}", address)).or_default().extend_from_slice(&buf[..n]);
        Ok(n)
    }
    fn flush(&mut self, address: BA) -> Result<(), ()> { self.log.push(format!("BF {:?}", address)); Ok(()) }
    fn read(&mut self, address: BA, buf: &mut [u8]) -> Result<usize, ()> {
        let key = format!("b{:?}", address);
        let v = self.mem.get(&key).cloned().unwrap_or_else(|| Self::pattern(&key, 3));
        let n = v.len().min(buf.len());
        buf[..n].copy_from_slice(&v[..n]);
        self.log.push(format!("BR {:?} {} {:?}", address, n, &buf[..n]));
        Ok(n)
    }
}
fn guarded(f: fn() -> Vec<String>) -> Vec<String> {
    match std::panic::catch_unwind(f) { Ok(v) => v, Err(_) => vec!["PANIC".to_string()] }
}
'''

PROBE_TOML = '''[package]
name = "c20_probe"
version = "0.0.0"
edition = "2021"

[dependencies]
device-driver = { path = "%s/device-driver" }
''' % vlib.REPO

# The probe crate is a MEMBER of a workspace: cargo then runs rustc from the workspace root, not from the crate root, so
# "relative paths resolve against the crate root (CARGO_MANIFEST_DIR)" and "against the compiler's working directory"
# are different things; the workspace root holds DECOY files under the same relative paths.
PROBE_WS_TOML = '''[workspace]
members = ["probe"]
resolver = "2"

[profile.dev]
debug = false
opt-level = 0
incremental = false
'''


def build_probe(ctx, adefs, probe_names, cli_outputs):
    """Writes the probe crate; returns (dir, pairs) with pairs = [(label, macro_mod, cli_mod, name, variant)]."""
    ws = os.path.join(ctx.work, "probe_ws")
    shutil.rmtree(ws, ignore_errors=True)
    pd = os.path.join(ws, "probe")
    for sub in ("src", "defs", "abs", "cli"):
        os.makedirs(os.path.join(pd, sub))
    os.makedirs(os.path.join(ws, "defs"))
    open(os.path.join(ws, "Cargo.toml"), "w").write(PROBE_WS_TOML)
    open(os.path.join(pd, "Cargo.toml"), "w").write(PROBE_TOML)
    shutil.copy(os.path.join(vlib.REPO, "Cargo.lock"), os.path.join(ws, "Cargo.lock"))
    src = MOCK_RS
    pairs = []
    macro_paths = []         # (root, path as written in the macro, expected file, expected parser)
    main = ["fn main() {", "    std::panic::set_hook(Box::new(|_| {}));"]
    for n, name in enumerate(probe_names):
        d = adefs[name]
        ra, ca, ba = C.address_types(d)
        script = "\n            ".join(C.probe_script(d))
        src += f"""
macro_rules! script_{n} {{ () => {{
    pub fn run() -> Vec<String> {{
        let mut t: Vec<String> = Vec::new();
        let mut dev = Dev::new(crate::Mock::<{ra}, {ca}, {ba}>::new());
        {{
            {script}
        }}
        let mut all = dev.interface.log;
        all.extend(t.into_iter().map(|s| format!("OBS {{}}", s)));
        all
    }}
}} }}
"""
        for syn in C.SYNTAXES:
            p = os.path.join(pd, "cli", f"{name}.{syn}.rs")
            open(p, "wb").write(cli_outputs[(name, syn)])
            src += f'pub mod d{n}_cli_{syn} {{ include!("{p}"); script_{n}!(); }}\n'
            rel = f"defs/{name}.{syn}"
            open(os.path.join(pd, rel), "w").write(C.RENDER[syn](d))
            # decoy under the same relative path at the workspace root (= rustc's working directory): another device
            decoy = adefs[probe_names[(n + 1) % len(probe_names)]] if len(probe_names) > 1 else {"config": d.get("config") or {}, "objects": []}
            open(os.path.join(ws, rel), "w").write(C.RENDER[syn](decoy))
            src += f'pub mod d{n}_rel_{syn} {{ device_driver::create_device!(device_name: Dev, manifest: "{rel}"); script_{n}!(); }}\n'
            pairs.append((f"{name}:relative:{syn}", f"d{n}_rel_{syn}", f"d{n}_cli_{syn}"))
            macro_paths.append((pd, rel, os.path.join(pd, rel), syn))
        asyn = C.SYNTAXES[(n + ctx.seed) % 4]
        ap = os.path.join(pd, "abs", f"{name}.{asyn}")
        open(ap, "w").write(C.RENDER[asyn](d))
        src += f'pub mod d{n}_abs {{ device_driver::create_device!(device_name: Dev, manifest: "{ap}"); script_{n}!(); }}\n'
        pairs.append((f"{name}:absolute:{asyn}", f"d{n}_abs", f"d{n}_cli_{asyn}"))
        macro_paths.append((pd, ap, ap, asyn))
        src += f"pub mod d{n}_inline {{ device_driver::create_device!(device_name: Dev, dsl: {{\n{C.to_dsl(d)}}}); script_{n}!(); }}\n"
        pairs.append((f"{name}:inline-dsl", f"d{n}_inline", f"d{n}_cli_dsl"))
    for label, a, b in pairs:
        main.append(f'    {{ let a = guarded({a}::run); let b = guarded({b}::run); '
                    f'println!("PAIR\\t{label}\\t{{}}\\t{{}}\\t{{}}", a == b, a.len(), b.len()); '
                    f'if a != b {{ println!("TRACE_MACRO\\t{label}\\t{{:?}}", a); println!("TRACE_CLI\\t{label}\\t{{:?}}", b); }} '
                    f'else {{ println!("TRACE\\t{label}\\t{{:?}}", a); }} }}')
    main.append("}")
    src += "\n".join(main) + "\n"
    open(os.path.join(pd, "src", "main.rs"), "w").write(src)
    return pd, pairs, macro_paths


def build_reject_probe(ctx, rejected, sub="probe_reject"):
    """One crate, one create_device! per rejected input; `cargo check` must fail with an error at every invocation.
    (sub="probe_decision": the same crate layout for inputs that must be ACCEPTED.)"""
    pd = os.path.join(ctx.work, sub)
    for sub in ("src", "defs"):
        shutil.rmtree(os.path.join(pd, sub), ignore_errors=True)
        os.makedirs(os.path.join(pd, sub))
    open(os.path.join(pd, "Cargo.toml"), "w").write(PROBE_TOML.replace("c20_probe", "c20_probe_reject") + "\n[workspace]\n\n[profile.dev]\ndebug = false\nopt-level = 0\nincremental = false\n")
    shutil.copy(os.path.join(vlib.REPO, "Cargo.lock"), os.path.join(pd, "Cargo.lock"))
    lines = ["#![allow(warnings)]"]
    where = {}
    for k, i in enumerate(rejected):
        rel = f"defs/r{k}.{i['syntax']}"
        open(os.path.join(pd, rel), "w").write(i["text"])
        lines.append(f'pub mod r{k} {{ device_driver::create_device!(device_name: Dev, manifest: "{rel}"); }}')
        where[len(lines)] = i
    lines.append("fn main() {}")
    open(os.path.join(pd, "src", "main.rs"), "w").write("\n".join(lines) + "\n")
    return pd, where


def stage_probe(ctx, inputs, adefs, lib, models, d13_open, stats):
    by = {(i["name"], i["syntax"]): i for i in inputs}
    names = [n for n in C.PROBE_OK if all(by[(n, s)]["runs"][0]["rc"] == 0 for s in C.SYNTAXES)]
    if ctx.tier == "quick":
        rng = random.Random(ctx.seed + 1)
        names = sorted(rng.sample(names, min(4, len(names))))
    cli_out = {(n, s): by[(n, s)]["runs"][0]["stdout"] for n in names for s in C.SYNTAXES}
    pd, pairs, macro_paths = build_probe(ctx, adefs, names, cli_out)
    # model: which file does the macro read, which parser does it choose
    body = "Definition r_macro := Eval vm_compute in [\n" + ";\n".join(
        f"macro_case {coq_str(root)} {coq_str(p)}" for root, p, _, _ in macro_paths) + "].\nPrint r_macro.\n"
    rc, out = run_coq_file(ctx.work, "batch3", body)
    if rc != 0:
        vlib.violation(ctx, {"broken": "coqc failed on batch3.v (macro model)", "detail": out[-800:]}, no_input=True)
        return
    for (root, p, expect_file, expect_parser), got in zip(macro_paths, parse_coq_lists(section(out, "r_macro"))):
        rp, parser = got.split("|")
        if os.path.realpath(rp) != os.path.realpath(expect_file) or parser != expect_parser or not os.path.exists(rp):
            vlib.violation(ctx, {"what": "macro path/dispatch model does not name the manifest file the probe provides",
                                 "failing_input": {"crate_root": root, "manifest": p}, "model_and_spec": got,
                                 "implementation": {"file": expect_file, "parser": expect_parser}})
    env = {"CARGO_TARGET_DIR": os.path.join(vlib.CACHE, "target-c20-probe"), "RUSTFLAGS": f"--cfg {vlib.GUARD}"}
    t0 = time.time()
    rc, out = vlib.run(["cargo", "build", "--offline"], cwd=pd, env=env, timeout=1500)
    stats["probe_build_s"] = round(time.time() - t0, 1)
    if rc != 0:
        errs = re.findall(r"-->\s*(src/main\.rs:\d+:\d+)", out)
        concrete = None
        src_lines = open(os.path.join(pd, "src", "main.rs")).read().splitlines()
        for e in errs:
            ln = int(e.split(":")[1])
            mm = re.search(r'pub mod (\w+) \{ device_driver::create_device!\(device_name: Dev, manifest: "([^"]+)"', src_lines[ln - 1]) if ln <= len(src_lines) else None
            if mm:
                mp = mm.group(2) if os.path.isabs(mm.group(2)) else os.path.join(pd, mm.group(2))
                concrete = {"module": mm.group(1), "manifest_as_written": mm.group(2), "manifest_file": mp, "text": open(mp).read(),
                            "syntax": mp.rsplit(".", 1)[-1], "line": src_lines[ln - 1]}
                m2 = re.search(r"error: ([^\n]*)\n(?:[^\n]*\n){0,12}?\s*-->\s*" + re.escape(e), out)
                concrete["rustc_error"] = m2.group(1) if m2 else None
                break
        vlib.violation(ctx, {"what": "probe crate (create_device! next to include!d CLI output for ACCEPTED inputs) does not compile: "
                                     "the macro does not expand to the driver the CLI writes",
                             "failing_input": {"crate": pd, "definitions": names, "first_error_locations": errs[:5], "macro_invocation": concrete,
                                               "replay_cmd": f"cd {pd} && CARGO_TARGET_DIR={env['CARGO_TARGET_DIR']} cargo build --offline"},
                             "implementation": out[-2500:], "model_and_spec": "C20_dispatch_on_extension: macro expansion = library output the CLI prints"})
        return
    rc, out = vlib.run([os.path.join(env["CARGO_TARGET_DIR"], "debug", "c20_probe")], timeout=300)
    seen = 0
    for line in out.splitlines():
        f = line.split("\t")
        if f[0] == "PAIR":
            seen += 1
            stats["probe_pairs"] += 1
            if f[2] != "true" or int(f[3]) == 0 and not f[1].startswith("empty"):
                tr = [l for l in out.splitlines() if l.startswith(("TRACE_MACRO\t" + f[1], "TRACE_CLI\t" + f[1], "TRACE\t" + f[1]))]
                vlib.violation(ctx, {"what": "driver from create_device! behaves differently from the CLI output for the same input"
                                             if f[2] != "true" else "probe script produced an empty trace",
                                     "failing_input": {"pair": f[1], "crate": pd, "replay_cmd": f"cd {pd} && cargo run --offline"},
                                     "implementation": tr, "model_and_spec": "equal traces"})
        elif f[0] == "TRACE" and len(stats["probe_samples"]) < 2:
            stats["probe_samples"].append({"pair": f[1], "trace_head": f[2][:300]})
    if rc != 0 or seen != len(pairs):
        vlib.violation(ctx, {"broken": "probe binary failed or printed too few pairs", "detail": out[-800:]}, no_input=True)
    # ---- rejected inputs through the macro
    rej = [i for i in inputs if i["text"] is not None and i["parser"] in PARSERS and i["label"] != "odd"
           and lib.get(i["id"]) and (lib[i["id"]]["status"] != "out" or lib[i["id"]]["tokerr"])]
    if ctx.tier == "quick":
        rej = [i for k, i in enumerate(rej) if k % 3 == 0 or i["label"] == "decision"]
    # the decision inputs (cfg strings compared for equality) the LIBRARY accepts must be accepted by the macro too: one
    # crate, `cargo check` must pass (D24: a propagated conjunction equalled a hand-written one under rustc's printer only)
    for i in inputs:
        if i["label"] == "decision" and lib.get(i["id"]):
            got = "accepted" if (lib[i["id"]]["status"] == "out" and not lib[i["id"]]["tokerr"]) else "rejected"
            want = C.DECISION_EXPECT.get(i["name"][4:])
            if want is not None and got != want:
                report(ctx, "cfg-decision", {"what": f"the library {got} an input whose two same-named objects "
                                                     f"{'exist in the same builds (duplicates)' if want == 'rejected' else 'carry different cfg strings'}: "
                                                     f"expected {want}", "failing_input": describe(i),
                                             "implementation": {"library": got}, "model_and_spec": {"expected": want}})
    acc_dec = [i for i in inputs if i["label"] == "decision" and lib.get(i["id"]) and lib[i["id"]]["status"] == "out" and not lib[i["id"]]["tokerr"]]
    if acc_dec:
        pd3, where3 = build_reject_probe(ctx, acc_dec, sub="probe_decision")
        rc3, out3 = vlib.run(["cargo", "check", "--offline", "--message-format=short"], cwd=pd3, env=env, timeout=900)
        stats["macro_decision_accepted_checked"] = len(acc_dec)
        if rc3 != 0:
            bad = None
            for m in re.finditer(r"^src/main\.rs:(\d+):\d+: error: (.*)$", out3, flags=re.M):
                if int(m.group(1)) in where3:
                    bad = (where3[int(m.group(1))], m.group(2))
                    break
            report(ctx, "macro-decision", {"what": "an input the library (and the CLI) accepts is rejected by create_device!: the accept/reject "
                                                   "decision depends on who runs the generator",
                                           "failing_input": describe(bad[0]) if bad else {"crate": pd3},
                                           "implementation": {"macro_error": bad[1] if bad else out3[-800:]},
                                           "model_and_spec": {"library": "accepted"}})
    pd2, where = build_reject_probe(ctx, rej)
    rc, out = vlib.run(["cargo", "check", "--offline", "--message-format=short"], cwd=pd2, env=env, timeout=900)
    errlines = {}
    for m in re.finditer(r"^src/main\.rs:(\d+):\d+: error: (.*)$", out, flags=re.M):
        errlines.setdefault(int(m.group(1)), []).append(m.group(2))
    for ln, i in where.items():
        stats["macro_rejected_checked"] += 1
        l = lib[i["id"]]
        msgs = errlines.get(ln, [])
        ok = bool(msgs)
        detail = None
        if ok and l["status"] == "out":
            allowed = {(error_message(t.decode(errors="replace")) or "").split("\n")[0] for t in l["texts"]}
            mod = models.get(i["adef"]) if i["adef"] else None
            if mod and len(mod["cands"]) >= 2 and refs_error(l["texts"][0].decode()):
                if msgs[0] not in allowed and not REFS_RE.match(msgs[0]):
                    ok, detail = False, "macro error is not a refs error"
                elif REFS_RE.match(msgs[0]):
                    mm = REFS_RE.match(msgs[0])
                    if f"{KIND_TAG[mm.group(1)]}:{mm.group(2)}:{mm.group(4)}" not in mod["cands"]:
                        ok, detail = False, "macro refs error not among the model's candidates"
            elif msgs[0] not in allowed:
                ok, detail = False, f"macro reports {msgs[0]!r}, library reports {sorted(allowed)!r}"
        if not ok:
            report(ctx, "macro-rejected", {"what": "rejected input: create_device! does not fail with the library's error",
                                 "failing_input": describe(i), "implementation": {"rustc_errors_at_invocation": msgs, "detail": detail,
                                                                                  "cargo_tail": out[-600:] if not msgs else None},
                                 "model_and_spec": {"library": l["status"], "text": short(l["texts"][0], 300) if l["texts"] else None}})
    if rc == 0 and where:
        vlib.violation(ctx, {"broken": "cargo check of the rejected-input probe succeeded", "detail": out[-500:]}, no_input=True)


# ------------------------------------------------------------------------------------------------ driver

def build_all(ctx):
    ok, out = vlib.coq_build(["theories/DetermShow.vo"])
    if not ok:
        return "coq build of theories/DetermShow.vo failed: " + out[-800:]
    rc, out = vlib.run(["cargo", "build", "--offline", "-p", "device-driver-cli", "--manifest-path", os.path.join(vlib.REPO, "Cargo.toml")],
                       env={"CARGO_TARGET_DIR": CLI_TARGET}, timeout=1500)
    if rc != 0 or not os.path.exists(CLI):
        return "building device-driver-cli from /repo failed: " + out[-1500:]
    ok, out = vlib.cargo_build(["lib_runner"])
    if not ok:
        return "building lib_runner failed: " + out[-1500:]
    return None


def prepare_paths(ctx, inputs, disp=None):
    for i in inputs:
        i["cwd"] = ctx.work
        i["cli_path"] = i["path"]
        if i["special"].get("relative"):
            i["cwd"] = os.path.dirname(i["path"])
            i["cli_path"] = os.path.basename(i["path"])


def core(ctx, inputs, adefs, K, K_many, threads, reps, stats, with_probe=True):
    """Runs stages A-F on the given inputs.  Returns error string for harness failures."""
    prepare_paths(ctx, inputs)
    t = time.time()
    disp, models, err = stage_coq_models(ctx, inputs, adefs)
    if err:
        return err
    for i, dsp in zip(inputs, disp):
        i["parser"] = dsp
        mod = models.get(i["adef"]) if i["adef"] else None
        i["many"] = bool(mod and len(mod["cands"]) >= 2)
    ctx.log(f"A coq models: {len(inputs)} paths, {len(models)} definitions ({round(time.time() - t, 1)} s)")
    t = time.time()
    lib, err = stage_lib(ctx, inputs, os.path.join(ctx.work, "lib"), threads, reps)
    if err:
        return err
    stats["lib_runs"] = sum(l["nruns"] for l in lib.values())
    ctx.log(f"B library: {len(lib)} inputs x {threads} threads x {reps} reps ({round(time.time() - t, 1)} s)")
    t = time.time()
    err = stage_history(ctx, inputs, lib, os.path.join(ctx.work, "lib"), stats)
    if err:
        return err
    ctx.log(f"B' history: {stats.get('history_runs')} runs on one long-lived thread, {stats.get('history_differences')} differ from a fresh thread ({round(time.time() - t, 1)} s)")
    t = time.time()
    stats["cli_runs"] = stage_cli(ctx, inputs, os.path.join(ctx.work, "out"), K, K_many)
    ctx.log(f"C cli: {stats['cli_runs']} process runs ({round(time.time() - t, 1)} s)")
    t = time.time()
    err = stage_cli_model(ctx, inputs, lib)
    if err:
        return err
    ctx.log(f"D coq cli model: {2 * len(inputs)} cases ({round(time.time() - t, 1)} s)")
    st, entry = d13_status()
    d13_open = st == "open"
    inst, notrep = compare(ctx, inputs, lib, models, d13_open, stats)
    if inst:
        i0, errs = inst[0]
        vlib.known_finding(ctx, entry or {"id": "D13"},
                           f"nondeterministic error on {len(inst)} rejected input(s) with >= 2 dangling refs of one kind "
                           f"(e.g. {i0['name']}.{i0['syntax']}: {errs}); which ref is reported depends on HashMap iteration order")
        stats["d13_instances"] = [{"input": f"{i['name']}.{i['syntax']}", "errors_seen": e} for i, e in inst[:6]]
    if notrep:
        ctx.log(f"note: D13 is listed open but {len(notrep)} input(s) with >= 2 candidates showed one error in all runs "
                f"(e.g. {notrep[0]['name']}.{notrep[0]['syntax']}); if /repo was repaired, mark the entry fixed")
        stats["d13_not_reproduced"] = len(notrep)
    if with_probe and ctx.violations == 0:
        t = time.time()
        stage_probe(ctx, inputs, adefs, lib, models, d13_open, stats)
        ctx.log(f"F probe crates: {stats['probe_pairs']} trace pairs, {stats['macro_rejected_checked']} rejected macro inputs "
                f"({round(time.time() - t, 1)} s)")
    # evidence bookkeeping
    for i in inputs:
        l = lib.get(i["id"])
        acc = bool(l and l["status"] == "out" and not l["tokerr"])
        key = (i["syntax"] or "none") + (":accepted" if acc else ":rejected")
        stats["histogram"][key] = stats["histogram"].get(key, 0) + 1
        stats["distinct"].add((i["name"], i["syntax"], "stdout"))
        stats["distinct"].add((i["name"], i["syntax"], "file"))
        if len(stats["samples"]) < 8 and i["id"][-1] in "37":
            stats["samples"].append({"input": f"{i['name']}.{i['syntax']}", "label": i["label"], "exit_status": i["runs"][0]["rc"],
                                     "stdout_head": short(i["runs"][0]["stdout"], 90), "model": i["model_stdout"]["raw"],
                                     "refs_model": models.get(i["adef"]) if i["adef"] else None})
    return None


def new_stats():
    return {"histogram": {}, "distinct": set(), "samples": [], "probe_pairs": 0, "macro_rejected_checked": 0, "probe_samples": [],
            "refs_errors_checked": 0, "lib_runs": 0, "cli_runs": 0}


def evidence(ctx, info, stats):
    cov = {"evaluations": stats["cli_runs"] + stats["lib_runs"] + stats["probe_pairs"],
           "distinct_nontrivial": len(stats["distinct"]), "rule": RULE, "samples": stats["samples"] + stats["probe_samples"],
           "input_distribution": stats["histogram"], "cli_process_runs": stats["cli_runs"], "library_thread_runs": stats["lib_runs"],
           "probe_trace_pairs": stats["probe_pairs"], "macro_rejected_inputs_checked": stats["macro_rejected_checked"],
           "refs_error_inputs_checked_against_model": stats["refs_errors_checked"]}
    for k in ("d13_instances", "d13_not_reproduced", "probe_build_s"):
        if k in stats:
            cov[k] = stats[k]
    vlib.write_evidence(ctx, info, cov, assumptions=[
        "not expressible in Coq, tied by this run only: the real process's RandomState is one instance of the `orders` oracle; "
        "file system; prettyplease; rustc's macro expansion; the four text parsers",
        "C20_cli_status hypothesis (library error <-> pretty text starts with ::core::compile_error!) is checked per input on the token stream",
        "64-bit Linux host; unix path semantics in the path model"])


def run(ctx):
    info = vlib.coq_gate(ctx)
    stats = new_stats()
    err = build_all(ctx)
    if err:
        vlib.violation(ctx, {"broken": "C20 harness could not be built", "detail": err}, no_input=True)
        evidence(ctx, info, stats)
        return
    inp_dir = os.path.join(ctx.work, "inputs")
    shutil.rmtree(inp_dir, ignore_errors=True)
    inputs, adefs = make_inputs(ctx, inp_dir)
    quick = ctx.tier == "quick"
    err = core(ctx, inputs, adefs, K=5 if quick else 25, K_many=24 if quick else 40, threads=8, reps=2 if quick else 4, stats=stats)
    if err:
        vlib.violation(ctx, {"broken": "C20 correspondence harness failed", "detail": err}, no_input=True)
    elif not info["ok"]:
        vlib.violation(ctx, {"broken": info["reason"], "theorem": "props/C20.v",
                             "note": "proof obligation no longer checks; correspondence found no disagreement"}, no_input=True)
    if ctx.tier == "thorough" and info["ok"]:
        ok, out = vlib.coqchk("C20")
        stats["samples"].append({"coqchk": out.strip().splitlines()[-3:]})
        if not ok:
            vlib.violation(ctx, {"broken": "coqchk rejected the compiled proofs", "detail": out[-800:]}, no_input=True)
    evidence(ctx, info, stats)


def replay(ctx, path):
    d = json.load(open(path))
    fi = d.get("failing_input") or {}
    if not isinstance(fi, dict) or fi.get("text") is None or "syntax" not in fi:
        ctx.log("replay file does not carry a single manifest text (", d.get("what") or d.get("broken"), "): running the whole check")
        run(ctx)
        return
    err = build_all(ctx)
    if err:
        vlib.violation(ctx, {"broken": err}, no_input=True)
        return
    rd = os.path.join(ctx.work, "replay")
    shutil.rmtree(rd, ignore_errors=True)
    os.makedirs(rd)
    p = os.path.join(rd, os.path.basename(fi.get("path") or ("replay." + fi["syntax"])))
    open(p, "w").write(fi["text"])
    inputs = [{"id": "i0000", "name": fi.get("name", "replay"), "syntax": fi["syntax"], "path": p, "text": fi["text"],
               "label": fi.get("label", "replay"), "adef": None, "special": {}}]
    stats = new_stats()
    err = core(ctx, inputs, {}, K=25, K_many=25, threads=8, reps=4, stats=stats, with_probe=False)
    if err:
        vlib.violation(ctx, {"broken": err}, no_input=True)
    i = inputs[0]
    ctx.log("replayed", p, "exit statuses", sorted({r["rc"] for r in i["runs"]}), "distinct stdout", len({r["stdout"] for r in i["runs"]}),
            "model", i.get("model_stdout", {}).get("raw"))
