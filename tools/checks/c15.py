"""C15 — enum analysis rejects ill-formed enums and grants infallibility only when total.

Correspondence: every generated definition goes through the REAL transform_* (harness/gen_runner); the MIR the
real front end produced is evaluated by the Coq model (coq/theories/Enum.v: enum_values_checked transcribed,
the emitter's second numbering, the emitted enum) and by the Coq SPEC written from the property text.
Compared: accept / reject, error kind and subject names, and for accepted definitions the discriminants, repr,
From-vs-TryFrom and default / catch-all flags of every emitted enum (facts extracted with syn).

Three verdicts per case: implementation, model (transcription of the code), spec (the property).
  implementation != model                     -> VIOLATION (the proven model no longer describes the code)
  implementation == model, spec disagrees     -> D12 class while D12 is `open` in KNOWN_FINDINGS.jsonl: KNOWN-FINDING
                                                 anything else: VIOLATION
The model is the pass AS IT IS NOW: `enum_check_repaired` (D12 repaired by 3c1cc51: duplicates_by value+cfg; D16
by 717250d: no negative number on a field that is not int; D17 by e1d126c: every number of an int field inside
the signed repr i{c}, c = max(8,w).next_power_of_two()), proved to reject exactly the property's disjunction
(C15_reject_iff_after_repairs), so the check DEMANDS those rejections: a definition of the D12 / D16 / D17 class
that the generator accepts is a VIOLATION (only a D12 entry that is `open` again in KNOWN_FINDINGS.jsonl turns
the D12 class back into a known finding).
For the representability rule (D16 / D17) there is a fourth, independent voice: a python oracle computed from the
abstract definition (numbers by "previous + 1", base type, width); it must agree with the Coq spec's class flags,
with the implementation's verdict / error kind, and with the bounds printed in the implementation's message.
"""
import collections, itertools, json, os, random, re
import vlib, adef
from checks import gen_common


def _big_stack():
    """coqc reads back result strings of ~100 KB (deeply nested constructors): lift the 8 MB stack limit for children"""
    import resource
    try:
        resource.setrlimit(resource.RLIMIT_STACK, (resource.RLIM_INFINITY, resource.RLIM_INFINITY))
    except (ValueError, OSError):
        pass

RULE = ("one inline enum as the conversion of a field in an otherwise valid register (10 % of the random cases: several "
        "enums in commands / nested blocks). EXHAUSTIVE part: widths 1..3 x every variant list of length 0..3 over the value "
        "pool {implicit, 0, 1, 2^w-1, 2^w, -1, default, catch_all} x try/non-try (quick and thorough; thorough adds width 4 "
        "and length 4 at widths 1..2). RANDOM part: widths 1..16, 0..8 variants (or full implicit coverage up to 2^6), values "
        "implicit/explicit/default/catch_all in any order with gaps, repeated numbers under different names (D12 class), "
        "out-of-range, negative, cfg-gated variants, uint/int/bool base, DSL/JSON/YAML/TOML. REPRESENTABILITY (D16/D17): exhaustive "
        "int part (w=8 over {implicit,0,127,128,-128,-129,default,catch_all}, w=4 over {implicit,0,15,16,-1,-128,-129,default}), "
        "exhaustive bool part (w=1, lists with a negative number), random int fields biased to widths 4/8/12/16 with numbers "
        "at -2^(c-1)-1..-2^(c-1)+1 and 2^(c-1)-2..2^(c-1)+1 both explicit and as implicit successor of the explicit neighbour, "
        "negative numbers (explicit and implicit successor of a negative) on uint/bool fields; python oracle for that rule. "
        "Real transform_* vs Coq model "
        "(vm_compute on the real MIR) vs Coq spec; compared: accept/reject, error kind + names, emitted enum "
        "(repr, From/TryFrom, discriminants, default/catch-all flags). distinct = distinct (width, base, try, variant list)")

VNAMES = ["Aa", "Bb", "Cc", "Dd", "Ee", "Ff", "Gg", "Hh", "Ii", "Jj", "Kk", "Ll"]
# pass as it is now @ same with D12 open again @ the pass before the repairs of D16/D17 @ the property (with class flags)
def model_fn(is_open):
    """the second voice is only evaluated (it costs a quarter of the model time) when a D12 entry is `open` again"""
    second = "c15_result_repaired_d12_open d" if is_open else '"-"'
    return ('(fun d => c15_result_repaired d ++ "@" ++ ' + second + ' ++ "@" ++ c15_result_fixed d '
            '++ "@" ++ c15_spec_repaired d)')


def vname(i):
    if i < len(VNAMES):
        return VNAMES[i]
    a = "abcdefghijklmnopqrstuvwxyz"
    return "V" + a[(i // 26) % 26] + a[i % 26]


def mk_def(width, base, values, use_try, cfgs=None, size=None):
    vs = [adef.mk_variant(vname(i), v, cfg=(cfgs[i] if cfgs else None)) for i, v in enumerate(values)]
    size = size or (8 * ((width + 7) // 8))
    reg = adef.mk_register("Ra", 0, size, [adef.mk_field("alpha", base, 0, width, conv=adef.mk_enum("En", vs, use_try=use_try))])
    return {"config": adef.mk_config(register_address_type="u8", command_address_type="u8", default_byte_order="LE"),
            "objects": [reg]}


def carrier_bits(w):
    b = 8
    while b < w:
        b *= 2
    return b


def numbers_of(values):
    """the property's numbering: explicit numbers are kept, everything else is previous + 1 (0 in first position)"""
    out, last = [], None
    for v in values:
        n = v if isinstance(v, int) else (0 if last is None else last + 1)
        out.append(n)
        last = n
    return out


def py_sites(d):
    """every inline enum of the abstract definition: (object, field, base, width, values)"""
    for o, _ in adef.walk(d["objects"]):
        for _, fields in adef.field_sets(o):
            for f in fields:
                c = f.get("conv")
                if c and c["type"] == "enum":
                    end = f["end"] if f["end"] is not None else f["start"] + 1
                    yield o["name"], f["name"], f["base"], max(0, end - f["start"]), [v["value"] for v in c["variants"]]


def py_oracle(d):
    """PYTHON ORACLE for the representability rule, from the property text: -> set of classes present in d.
    d16: a number below 0 on a field that is not int; d17: a number outside -2^(c-1) .. 2^(c-1)-1 on an int field."""
    out = set()
    for _, _, base, w, values in py_sites(d):
        nums = numbers_of(values)
        if base != "int":
            if any(n < 0 for n in nums):
                out.add("d16")
        else:
            c = carrier_bits(w)
            if any(n < -(2 ** (c - 1)) or n > 2 ** (c - 1) - 1 for n in nums):
                out.add("d17")
    return out


REPR_MSG = re.compile(r'does not fit the i(\d+) representation of enum "[^"]*" in object "([^"]*)" on field "([^"]*)": '
                      r'-?\d+ \(min = (-?\d+), max = (-?\d+)\)$')


def oracle_check(d, impl, spec, message):
    """-> None or a violation detail: python oracle vs Coq spec flags vs implementation (verdict, kind, printed bounds)"""
    py = py_oracle(d)
    flags = set(spec.split(":")[1:]) & {"d16", "d17"}
    if py != flags:
        return {"what": "the python oracle and the Coq spec disagree on the representability rule (D16/D17 classes)",
                "python_oracle": sorted(py), "spec": spec}
    kind = impl.split(":")[1] if impl.startswith("error:") else None
    if impl.startswith("ok#") and py:
        return {"what": "ACCEPTED although a variant's number is not representable in the enum's repr (defect %s is back)"
                        % "/".join(sorted(x.upper() for x in py)), "python_oracle": sorted(py), "implementation": impl[:300]}
    if kind == "enum_value_too_low" and "d16" not in py:
        return {"what": "rejected as `too low` but no field that is not int has a negative number", "python_oracle": sorted(py)}
    if kind == "enum_value_repr" and "d17" not in py:
        return {"what": "rejected as not fitting the repr but every int field's numbers fit", "python_oracle": sorted(py)}
    if kind == "enum_value_repr":
        m = REPR_MSG.search(message or "")
        if not m:
            return {"what": "message of the repr rejection has an unexpected shape", "message": message}
        ws = [w for (o, f, base, w, _) in py_sites(d) if (o, f) == (m.group(2), m.group(3)) and base == "int"]
        want = [(carrier_bits(w), -(2 ** (carrier_bits(w) - 1)), 2 ** (carrier_bits(w) - 1) - 1) for w in ws]
        got = (int(m.group(1)), int(m.group(4)), int(m.group(5)))
        if got not in want:
            return {"what": "the repr rejection prints other bounds than the signed repr of the field", "printed": got, "expected_one_of": want}
    return None


def exhaustive_defs(tier):
    out = []
    plan = [(1, 3), (2, 3), (3, 3)]
    if tier == "thorough":
        plan = [(1, 4), (2, 4), (3, 3), (4, 3)]
    for w, maxlen in plan:
        hi = 2 ** w - 1
        pool = []
        for v in [None, 0, 1, hi, hi + 1, -1, "default", "catch_all"]:
            if v not in pool:
                pool.append(v)
        for n in range(0, maxlen + 1):
            for values in itertools.product(pool, repeat=n):
                for t in (False, True):
                    out.append((mk_def(w, "uint", list(values), t), "dsl", ("exh", w, n)))
    # int fields: numbers around the ends of the signed repr i8 (explicit, and implicit successors of them)
    iplan = [(8, [None, 0, 127, 128, -128, -129, "default", "catch_all"], 3 if tier == "quick" else 4),
             (4, [None, 0, 15, 16, -1, -128, -129, "default"], 2 if tier == "quick" else 3)]
    for w, pool, maxlen in iplan:
        for n in range(0, maxlen + 1):
            for values in itertools.product(pool, repeat=n):
                for t in (False, True):
                    out.append((mk_def(w, "int", list(values), t), "dsl", ("exh", w, n)))
    # as many (or more) variants as bit patterns, yet a pattern without variant: two variants share a number under
    # DIFFERENT cfgs (the duplicate test is per cfg) — coverage is about the numbers, not about how many variants there
    # are (seed C15: `seen_values.len() > highest_value`)
    for w in (1, 2, 3):
        npat = 2 ** w
        for extra in (0, 1):
            for dup_at in range(1, npat + extra):
                for cfgs2 in (("xfeat", "yfeat"), (None, "xfeat"), ("xfeat", None)):
                    values = list(range(npat + extra))
                    values[dup_at] = values[dup_at - 1]            # the last pattern(s) lose their variant
                    for k in range(dup_at + 1, npat + extra):
                        values[k] = values[k] - 1
                    cf = [None] * len(values)
                    cf[dup_at - 1], cf[dup_at] = cfgs2
                    for t in (False, True):
                        out.append((mk_def(w, "uint", values, t, cf), "dsl", ("exh", w, len(values))))
    # bool fields: only lists with a negative number (a bool field with an enum the pass accepts is rejected by a LATER
    # pass, bool_fields_checked, which this model does not contain)
    for n in range(1, 4):
        for values in itertools.product([None, 0, 1, -1, -2, "default"], repeat=n):
            if any(x < 0 for x in numbers_of(values)):
                out.append((mk_def(1, "bool", list(values), n % 2 == 0), "dsl", ("exh", 1, n)))
    return out


def random_values(rng, w, base="uint"):
    hi = 2 ** w - 1
    half = 2 ** (carrier_bits(w) - 1)
    r = rng.random()
    if r < 0.12 and w <= 6:           # full implicit coverage, sometimes with one hole or one extra
        n = 2 ** w + rng.choice([0, 0, 0, -1, 1])
        vals = [None] * max(0, n)
        if vals and rng.random() < 0.3:
            vals[0] = rng.choice([0, 0, 1])
        return vals
    n = rng.choice([0, 1, 1, 2, 2, 3, 3, 4, 5, 6, 8])
    vals = []
    used = []
    succ = False
    for i in range(n):
        k = rng.random()
        if succ:
            v, succ = None, False      # implicit successor of a boundary number
        elif base == "int" and k < 0.22:
            v = rng.choice([-half - 1, -half - 1, -half, -half, -half + 1, half - 2, half - 1, half - 1, half, half, half + 1])
            succ = rng.random() < 0.5
        elif base != "int" and k < 0.08:
            v = rng.choice([-1, -1, -2, -2, -3])
            succ = rng.random() < 0.6
        elif k < 0.35:
            v = None
        elif k < 0.55:
            v = rng.choice([0, 1, 2, 3, hi // 2, max(0, hi - 1), hi])
        elif k < 0.63:
            v = hi + rng.choice([1, 1, 2, 100])
        elif k < 0.70:
            v = -rng.choice([1, 1, 2, 128, 2 ** 15])
        elif k < 0.80 and used:
            v = rng.choice(used)       # repeated number under a different name: D12 class
        elif k < 0.90:
            v = "default"
        else:
            v = "catch_all"
        if isinstance(v, int):
            used.append(v)
        vals.append(v)
    return vals


def random_def(rng):
    base = rng.choice(["uint", "uint", "uint", "int", "int", "bool"])
    if base == "int":
        w = rng.choice([4, 4, 8, 8, 8, 12, 12, 16, 16, 16, 1, 2, 3, 5, 7, 9, 15])
    elif base == "bool":
        w = 1
    else:
        w = rng.choice([1, 1, 2, 2, 3, 4, 5, 6, 7, 8, 8, 9, 10, 12, 15, 16, 16])
    values = random_values(rng, w, base)
    if base == "bool":                 # see exhaustive_defs: keep bool fields inside the enum pass's reject set
        if not any(x < 0 for x in numbers_of(values)):
            values.insert(rng.randrange(0, len(values) + 1), rng.choice([-1, -1, -2]))
    cfgs = None
    if values and rng.random() < 0.12:
        cfgs = [rng.choice([None, None, 'xfeat', 'yfeat']) for _ in values]
    d = mk_def(w, base, values, rng.random() < 0.45, cfgs, size=rng.choice([None, None, 16, 32]) if w <= 16 else None)
    if d["objects"][0]["size_bits"] < w:
        d["objects"][0]["size_bits"] = 8 * ((w + 7) // 8)
    # the analysis does not depend on who can read or write the field (seed C15-7 called an enum on a write-only field
    # infallible "because it is never read"): the field's own access, the register's, and the global defaults vary freely
    d["objects"][0]["fields"][0]["access"] = rng.choice([None, None, "RW", "RO", "WO", "WO"])
    if rng.random() < 0.2:
        d["objects"][0]["fields"][0]["doc"] = "some text"      # (manifest: a `description` key inside the enum map)
    d["objects"][0]["access"] = rng.choice([None, None, "RW", "RO", "WO"])
    if rng.random() < 0.2:
        d["config"]["default_field_access"] = rng.choice(["RW", "RO", "WO"])
    if rng.random() < 0.10:            # several enums: command in/out + nested block, first error must win in pre-order
        w2 = rng.choice([1, 2, 3, 8])
        b2, b3 = rng.choice(["uint", "uint", "int"]), rng.choice(["uint", "uint", "int"])
        v2 = random_values(rng, w2, b2)
        w3 = rng.choice([1, 2, 4])
        v3 = random_values(rng, w3, b3)
        f2 = adef.mk_field("beta", b2, 0, w2, conv=adef.mk_enum("Eo", [adef.mk_variant(vname(i), v) for i, v in enumerate(v2)], use_try=rng.random() < 0.5))
        f3 = adef.mk_field("gamma", b3, 0, w3, conv=adef.mk_enum("Ei", [adef.mk_variant(vname(i), v) for i, v in enumerate(v3)], use_try=rng.random() < 0.5))
        cmd = adef.mk_command("Cm", 1, size_bits_in=8, size_bits_out=8, fields_in=[f3], fields_out=[f2])
        objs = [adef.mk_block("Blk", [cmd], address_offset=10)] + d["objects"] if rng.random() < 0.5 else d["objects"] + [adef.mk_block("Blk", [cmd], address_offset=10)]
        d["objects"] = objs
    return d


def emitted_from_facts(facts):
    parts = []
    for e in facts.get("enums", []):
        dv = (e.get("default") or {}).get("variant")
        vs = []
        for v in e["variants"]:
            s = f"{v['name']}={v['discriminant']}"
            if dv == v["name"]:
                s += ":default"
            if v.get("payload"):
                s += ":catch_all"
            vs.append(s)
        parts.append(f"{e['name']}/{e['base_type']}/{'try' if e['fallible'] else 'from'}{{{','.join(vs)}}}")
    return "ok#" + ";".join(parts)


def impl_string(r):
    st = gen_common.canon_status(r)
    if st == "ok":
        if not r.get("facts"):
            return "ok#<no-facts parse_ok=%s>" % r.get("parse_ok")
        return emitted_from_facts(r["facts"])
    return st


def d12_open():
    """the open D12 entries of KNOWN_FINDINGS.jsonl (VERIF_D12_STATUS=fixed|open overrides the file, for testing)"""
    ov = os.environ.get("VERIF_D12_STATUS")
    if ov == "fixed":
        return []
    found = [f for f in vlib.load_known_findings("C15") if f.get("id") == "D12"]
    if ov == "open" and not found:
        return [{"id": "D12", "property": "C15", "status": "open"}]
    return found


def judge(impl, mstr, is_open, d=None, message=None):
    """-> (kind, detail); kind in ok / violation / known.  mstr = 'model_now@model_now_with_D12_open@model_before_D16_D17@spec'."""
    try:
        m_now, m_d12, m_before, spec = mstr.split("@")
    except ValueError:
        return "violation", {"what": "model evaluation failed", "model_output": mstr[:600]}
    model = m_d12 if is_open else m_now
    flags = set(spec.split(":")[1:])
    if impl != model:
        what = "the real generator disagrees with the proven model of enum_values_checked (as repaired: D12, D16, D17) / transform_enum"
        if is_open and impl == m_now:
            what += (" — it behaves like the REPAIRED pass (duplicates by value+cfg) although D12 is still `open` in "
                     "KNOWN_FINDINGS.jsonl; set its status to \"fixed\"")
        elif not is_open and "d12" in flags and impl.startswith("ok#"):
            what += " — it still shows defect D12 although KNOWN_FINDINGS.jsonl no longer lists it as open"
        elif impl == m_before and flags & {"d16", "d17"}:
            back = "/".join(sorted(x.upper() for x in flags & {"d16", "d17"}))
            what += (f" — it behaves like the pass BEFORE the repair of {back} (717250d: negative number on a field that is not int; "
                     f"e1d126c: number outside the signed repr of an int field): defect {back} is back")
        return "violation", {"what": what, "implementation": impl, "model": model, "spec": spec}
    if d is not None:
        bad = oracle_check(d, impl, spec, message)
        if bad:
            bad.update({"implementation": impl, "model": model, "spec": spec})
            return "violation", bad
    impl_acc = impl.startswith("ok#")
    if impl == "panic":
        return "ok", None          # w >= 127: outside the property's widths; model agrees (regression cases only)
    spec_acc = spec.startswith("accept")
    if impl_acc == spec_acc:
        return "ok", None
    if is_open and impl_acc and not spec_acc and "d12" in flags and not flags & {"d16", "d17"}:
        return "known", None
    return "violation", {"what": "implementation and model agree but contradict the property's rule (spec evaluated in Coq)",
                         "implementation": impl, "model": model, "spec": spec}


def evaluate(ctx, exe, items, tag, is_open=False):
    """items: list of (adef, syntax, meta). Returns per-item (case, impl, modelstring)."""
    rng = random.Random(ctx.seed + 77)
    cases = []
    for i, (d, syntax, meta) in enumerate(items):
        cases.append({"id": f"{tag}{i}", "syntax": syntax, "text": adef.render(d, syntax, rng if meta[0] != "exh" else None),
                      "name": "Dev", "want": ["mir", "facts"]})
    res = gen_common.run_gen(ctx, exe, cases, tag=tag)
    terms = []
    for c in cases:
        try:
            t = gen_common.mir_term(res[c["id"]])
        except Exception:
            t = None
        if t is not None:
            terms.append((c["id"], t))
    model = gen_common.eval_model(ctx, ["Enum"], model_fn(is_open), terms, tag=tag + "_model")
    out = []
    for c in cases:
        r = res[c["id"]]
        out.append((c, impl_string(r), model.get(c["id"]), r))
    return out


def run(ctx):
    _big_stack()
    info = vlib.coq_gate(ctx)
    exe, err = gen_common.build_gen_runner(ctx)
    if err:
        vlib.violation(ctx, {"broken": err}, no_input=True)
        vlib.write_evidence(ctx, info, {"evaluations": 0, "distinct_nontrivial": 0, "rule": RULE, "samples": []})
        return
    rng = random.Random(ctx.seed)
    is_open = bool(d12_open())
    items = exhaustive_defs(ctx.tier)
    n_exh = len(items)
    # regression: the generator's own `(1 << bits) - 1` panics (debug profile) before its 128-bit check
    for w in (126, 127, 128):
        items.append((mk_def(w, "uint", [1, None], True, size=136), "dsl", ("wide", w, 2)))
    # the D12 witness itself, always
    items.append((mk_def(2, "uint", [1, 1], True), "dsl", ("d12", 2, 2)))
    # the empty enum in every syntax, with and without a description on the field (in a manifest the enum map then has a
    # `description` key next to `name` — a key that is not a variant; seed C15-8), try and non-try
    for syn in ("dsl", "json", "yaml", "toml"):
        for doc in (None, "The mode"):
            for t in (False, True):
                d0 = mk_def(2, "uint", [], t)
                d0["objects"][0]["fields"][0]["doc"] = doc
                items.append((d0, syn, ("empty", 2, 0)))
    # two enums with the SAME name and the SAME variant list behind different cfgs (two revisions of a chip) on fields of
    # different width or base type: each is analysed for the field it sits on (seed C15-9 memoised the analysis per
    # (name, variants)); both orders, and the equal-field controls
    def twin(wa, ba, wb, bb, values, t):
        d = mk_def(wa, ba, values, t)
        d2 = mk_def(wb, bb, values, t)
        ra, rb = d["objects"][0], d2["objects"][0]
        rb["name"], rb["address"] = "Rb", 4
        ra["cfg"], rb["cfg"] = 'feature = "rev-a"', 'feature = "rev-b"'
        d["objects"].append(rb)
        return d
    k = 0
    for values, t in (([None, None, None, None], False), ([0, 5], True), ([None, None, None, None, "default"], False), ([0, 200], True),
                      ([None, None], False), ([1, "catch_all"], False)):
        for (wa, ba, wb, bb) in ((2, "uint", 3, "uint"), (3, "uint", 2, "uint"), (8, "uint", 8, "int"), (8, "int", 8, "uint"),
                                 (3, "uint", 3, "uint"), (1, "uint", 2, "uint"), (2, "uint", 1, "uint")):
            items.append((twin(wa, ba, wb, bb, values, t), ("dsl", "json", "yaml", "toml")[k % 4], ("twin", wa, wb)))
            k += 1
    # the D16 / D17 witnesses and their accepted neighbours, always (all four syntaxes)
    for syn in ("dsl", "json", "yaml", "toml"):
        items.append((mk_def(8, "uint", [-1, "default"], False), syn, ("d16", 8, 2)))
        items.append((mk_def(1, "bool", [-1, None], True), syn, ("d16", 1, 2)))
        items.append((mk_def(8, "int", [None, 255], True), syn, ("d17", 8, 2)))
        items.append((mk_def(16, "int", [None, 0xffff], True), syn, ("d17", 16, 2)))
        items.append((mk_def(16, "int", [32767, None], True), syn, ("d17", 16, 2)))
        items.append((mk_def(12, "int", [-32769, "catch_all"], False), syn, ("d17", 12, 2)))
        items.append((mk_def(8, "int", [-128, 127], True), syn, ("d17ok", 8, 2)))
        items.append((mk_def(4, "int", [-3], True), syn, ("d17ok", 4, 1)))
        items.append((mk_def(12, "int", [-32768, None], True), syn, ("d17ok", 12, 2)))
    n_rand = 1500 if ctx.tier == "quick" else 20000
    for i in range(n_rand):
        items.append((random_def(rng), rng.choice(["dsl", "dsl", "dsl", "json", "yaml", "toml"]), ("rnd", 0, 0)))
    results = evaluate(ctx, exe, items, "c", is_open)
    hist = collections.Counter()
    distinct = set()
    violations, known = [], []
    for (d, syntax, meta), (c, impl, mstr, r) in zip(items, results):
        distinct.add(json.dumps(d["objects"], sort_keys=True))
        hist["part_" + meta[0]] += 1
        hist["syntax_" + syntax] += 1
        if mstr is None:
            # the front end produced no MIR (e.g. a manifest rejects the value): not an enum-analysis outcome
            hist["no_mir"] += 1
            if impl in ("panic", "abort"):
                violations.append((c, d, {"what": "generator died without producing a MIR", "implementation": impl, "message": r.get("message")}))
            continue
        hist[impl.split(":")[1] if impl.startswith("error:") else impl.split("#")[0]] += 1
        kind, detail = judge(impl, mstr, is_open, d, r.get("message"))
        parts = mstr.split("@")
        if len(parts) == 4:
            hist["spec_" + parts[3]] += 1
            for cl in py_oracle(d):
                hist["oracle_" + cl + ("_accepted" if impl.startswith("ok#") else "_rejected")] += 1
        for _, _, base, w, _ in py_sites(d):
            hist["site_" + base] += 1
        if kind == "violation":
            detail["message"] = r.get("message")
            violations.append((c, d, detail))
        elif kind == "known":
            known.append((c, d, impl))
    total = len(items)
    acc = hist["ok"] / max(1, total)
    if violations:
        # an ACCEPTED definition that must be rejected (or the converse) first, then differences in the reported error
        def soft(v):
            i, m = v[2].get("implementation"), v[2].get("model")
            return isinstance(i, str) and isinstance(m, str) and i.startswith("ok#") == m.startswith("ok#")
        violations.sort(key=lambda v: (soft(v), len(v[0]["text"])))
        c, d, detail = violations[0]
        rep = {"failing_input": {"syntax": c["syntax"], "text": c["text"], "adef": d}, "disagreements": len(violations),
               "verdict_mismatches": sum(1 for v in violations if not soft(v))}
        rep.update(detail)
        vlib.violation(ctx, rep)
    elif not info["ok"]:
        vlib.violation(ctx, {"broken": info["reason"], "theorem": "props/C15.v"}, no_input=True)
    if known:
        known.sort(key=lambda v: len(v[0]["text"]))
        c, d, impl = known[0]
        vlib.known_finding(ctx, d12_open()[0],
                           f"{len(known)} accepted enum(s) in which two differently named variants under the same cfg share a number "
                           f"(property: reject); smallest: {json.dumps(c['text'])} -> {impl}")
    elif is_open and not violations:
        ctx.log("warning: D12 is listed open but no D12-class case was accepted in this run")
    if not (0.10 <= acc <= 0.9):     # the exhaustive int / bool pools are reject-heavy (every bool case is a rejection by design)
        ctx.log(f"warning: accepted ratio {acc:.2f} outside the sanity band")
    chk = None
    if ctx.tier == "thorough" and info["ok"]:
        okc, outc = vlib.coqchk("C15")
        chk = outc.strip().splitlines()[-6:]
        if not okc:
            vlib.violation(ctx, {"broken": "coqchk rejected the compiled proofs", "detail": outc[-800:]}, no_input=True)
    samples = []
    for i in (0, n_exh // 2, n_exh + 3, n_exh + 10, total - 1):
        (d, syntax, meta), (c, impl, mstr, r) = items[i], results[i]
        samples.append({"syntax": syntax, "text": c["text"][:1500], "implementation": impl[:400],
                        "model_now@d12_open@before_d16_d17@spec": (mstr or "")[:800]})
    vlib.write_evidence(ctx, info, {
        "evaluations": total, "distinct_nontrivial": len(distinct), "rule": RULE, "samples": samples,
        "exhaustive": True, "exhaustive_space": {"cases": n_exh, "what": "widths x variant lists over the value pool x try, see rule"},
        "random_cases": n_rand, "input_distribution": dict(hist), "accepted_ratio": round(acc, 3),
        "disagreements": len(violations), "d12_status": "open" if is_open else "not open (model = repaired pass)",
        "d16_d17": "model = pass with both repairs; an accepted definition of either class is a violation; counts: see "
                   "input_distribution oracle_d16_* / oracle_d17_* (python oracle) and enum_value_too_low / enum_value_repr",
        "d12_class_cases_accepted": len(known), **({"coqchk": chk} if chk else {})})


def replay(ctx, path):
    rep = json.load(open(path))
    fi = rep.get("failing_input")
    if not fi:
        run(ctx)
        return
    _big_stack()
    vlib.coq_gate(ctx)
    exe, err = gen_common.build_gen_runner(ctx)
    res = gen_common.run_gen(ctx, exe, [{"id": "r", "syntax": fi["syntax"], "text": fi["text"], "name": "Dev", "want": ["mir", "facts"]}])
    impl = impl_string(res["r"])
    t = gen_common.mir_term(res["r"])
    is_open = bool(d12_open())
    mstr = gen_common.eval_model(ctx, ["Enum"], model_fn(is_open), [("r", t)])["r"] if t else None
    ctx.log("impl:", impl)
    ctx.log("model_now@d12_open@before_d16_d17@spec:", mstr)
    if mstr is None:
        return
    is_open = bool(d12_open())
    kind, detail = judge(impl, mstr, is_open, fi.get("adef"), res["r"].get("message"))
    if kind == "violation":
        detail["failing_input"] = fi
        vlib.violation(ctx, detail)
    elif kind == "known":
        vlib.known_finding(ctx, d12_open()[0], "replayed case is in the D12 class and is accepted")
