"""C15 — enum analysis rejects ill-formed enums and grants infallibility only when total.

Correspondence: every generated definition goes through the REAL transform_* (harness/gen_runner); the MIR the
real front end produced is evaluated by the Coq model (coq/theories/Enum.v: enum_values_checked transcribed,
the emitter's second numbering, the emitted enum) and by the Coq SPEC written from the property text.
Compared: accept / reject, error kind and subject names, and for accepted definitions the discriminants, repr,
From-vs-TryFrom and default / catch-all flags of every emitted enum (facts extracted with syn).

Three verdicts per case: implementation, model (transcription of the code), spec (the property).
  implementation != model                     -> VIOLATION (the proven model no longer describes the code)
  implementation == model, spec disagrees     -> D12 class while D12 is `open` in KNOWN_FINDINGS.jsonl: KNOWN-FINDING
                                                 anything else: VIOLATION
When D12 is not `open` any more (repaired: duplicates_by value+cfg) the model used is `enum_check_fixed`
(proved: rejects exactly the property's disjunction), so the check then DEMANDS the rejection.
"""
import collections, itertools, json, os, random
import vlib, adef
from checks import gen_common


def _big_stack():
    """coqc reads back result strings of ~100 KB (deeply nested constructors): lift the 8 MB stack limit for children"""
    import resource
    try:
        resource.setrlimit(resource.RLIMIT_STACK, (resource.RLIM_INFINITY, resource.RLIM_INFINITY))
    except (ValueError, OSError):
        pass

RULE = ("one inline enum as the conversion of a field in an otherwise valid register (10 % of the random cases: several "
        "enums in commands / nested blocks). EXHAUSTIVE part: widths 1..3 x every variant list of length 0..3 over the value "
        "pool {implicit, 0, 1, 2^w-1, 2^w, -1, default, catch_all} x try/non-try (quick and thorough; thorough adds width 4 "
        "and length 4 at widths 1..2). RANDOM part: widths 1..16, 0..8 variants (or full implicit coverage up to 2^6), values "
        "implicit/explicit/default/catch_all in any order with gaps, repeated numbers under different names (D12 class), "
        "out-of-range, negative, cfg-gated variants, uint/int base, DSL/JSON/YAML/TOML. Real transform_* vs Coq model "
        "(vm_compute on the real MIR) vs Coq spec; compared: accept/reject, error kind + names, emitted enum "
        "(repr, From/TryFrom, discriminants, default/catch-all flags). distinct = distinct (width, base, try, variant list)")

VNAMES = ["Aa", "Bb", "Cc", "Dd", "Ee", "Ff", "Gg", "Hh", "Ii", "Jj", "Kk", "Ll"]
MODEL_FN = ('(fun d => c15_result d ++ "@" ++ c15_result_fixed d ++ "@" ++ c15_spec d)')


def vname(i):
    if i < len(VNAMES):
        return VNAMES[i]
    a = "abcdefghijklmnopqrstuvwxyz"
    return "V" + a[(i // 26) % 26] + a[i % 26]


def mk_def(width, base, values, use_try, cfgs=None, size=None):
    vs = [adef.mk_variant(vname(i), v, cfg=(cfgs[i] if cfgs else None)) for i, v in enumerate(values)]
    size = size or (8 * ((width + 7) // 8))
    reg = adef.mk_register("Ra", 0, size, [adef.mk_field("alpha", base, 0, width, conv=adef.mk_enum("En", vs, use_try=use_try))])
    return {"config": adef.mk_config(register_address_type="u8", command_address_type="u8", default_byte_order="LE"),
            "objects": [reg]}


def exhaustive_defs(tier):
    out = []
    plan = [(1, 3), (2, 3), (3, 3)]
    if tier == "thorough":
        plan = [(1, 4), (2, 4), (3, 3), (4, 3)]
    for w, maxlen in plan:
        hi = 2 ** w - 1
        pool = []
        for v in [None, 0, 1, hi, hi + 1, -1, "default", "catch_all"]:
            if v not in pool:
                pool.append(v)
        for n in range(0, maxlen + 1):
            for values in itertools.product(pool, repeat=n):
                for t in (False, True):
                    out.append((mk_def(w, "uint", list(values), t), "dsl", ("exh", w, n)))
    return out


def random_values(rng, w):
    hi = 2 ** w - 1
    r = rng.random()
    if r < 0.12 and w <= 6:           # full implicit coverage, sometimes with one hole or one extra
        n = 2 ** w + rng.choice([0, 0, 0, -1, 1])
        vals = [None] * max(0, n)
        if vals and rng.random() < 0.3:
            vals[0] = rng.choice([0, 0, 1])
        return vals
    n = rng.choice([0, 1, 1, 2, 2, 3, 3, 4, 5, 6, 8])
    vals = []
    used = []
    for i in range(n):
        k = rng.random()
        if k < 0.35:
            v = None
        elif k < 0.55:
            v = rng.choice([0, 1, 2, 3, hi // 2, max(0, hi - 1), hi])
        elif k < 0.63:
            v = hi + rng.choice([1, 1, 2, 100])
        elif k < 0.70:
            v = -rng.choice([1, 1, 2, 128, 2 ** 15])
        elif k < 0.80 and used:
            v = rng.choice(used)       # repeated number under a different name: D12 class
        elif k < 0.90:
            v = "default"
        else:
            v = "catch_all"
        if isinstance(v, int):
            used.append(v)
        vals.append(v)
    return vals


def random_def(rng):
    w = rng.choice([1, 1, 2, 2, 3, 4, 5, 6, 7, 8, 8, 9, 10, 12, 15, 16, 16])
    base = rng.choice(["uint", "uint", "uint", "int"])
    values = random_values(rng, w)
    cfgs = None
    if values and rng.random() < 0.12:
        cfgs = [rng.choice([None, None, 'xfeat', 'yfeat']) for _ in values]
    d = mk_def(w, base, values, rng.random() < 0.45, cfgs, size=rng.choice([None, None, 16, 32]) if w <= 16 else None)
    if d["objects"][0]["size_bits"] < w:
        d["objects"][0]["size_bits"] = 8 * ((w + 7) // 8)
    if rng.random() < 0.10:            # several enums: command in/out + nested block, first error must win in pre-order
        w2 = rng.choice([1, 2, 3, 8])
        v2 = random_values(rng, w2)
        w3 = rng.choice([1, 2, 4])
        v3 = random_values(rng, w3)
        f2 = adef.mk_field("beta", "uint", 0, w2, conv=adef.mk_enum("Eo", [adef.mk_variant(vname(i), v) for i, v in enumerate(v2)], use_try=rng.random() < 0.5))
        f3 = adef.mk_field("gamma", "uint", 0, w3, conv=adef.mk_enum("Ei", [adef.mk_variant(vname(i), v) for i, v in enumerate(v3)], use_try=rng.random() < 0.5))
        cmd = adef.mk_command("Cm", 1, size_bits_in=8, size_bits_out=8, fields_in=[f3], fields_out=[f2])
        objs = [adef.mk_block("Blk", [cmd], address_offset=10)] + d["objects"] if rng.random() < 0.5 else d["objects"] + [adef.mk_block("Blk", [cmd], address_offset=10)]
        d["objects"] = objs
    return d


def emitted_from_facts(facts):
    parts = []
    for e in facts.get("enums", []):
        dv = (e.get("default") or {}).get("variant")
        vs = []
        for v in e["variants"]:
            s = f"{v['name']}={v['discriminant']}"
            if dv == v["name"]:
                s += ":default"
            if v.get("payload"):
                s += ":catch_all"
            vs.append(s)
        parts.append(f"{e['name']}/{e['base_type']}/{'try' if e['fallible'] else 'from'}{{{','.join(vs)}}}")
    return "ok#" + ";".join(parts)


def impl_string(r):
    st = gen_common.canon_status(r)
    if st == "ok":
        if not r.get("facts"):
            return "ok#<no-facts parse_ok=%s>" % r.get("parse_ok")
        return emitted_from_facts(r["facts"])
    return st


def d12_open():
    """the open D12 entries of KNOWN_FINDINGS.jsonl (VERIF_D12_STATUS=fixed|open overrides the file, for testing)"""
    ov = os.environ.get("VERIF_D12_STATUS")
    if ov == "fixed":
        return []
    found = [f for f in vlib.load_known_findings("C15") if f.get("id") == "D12"]
    if ov == "open" and not found:
        return [{"id": "D12", "property": "C15", "status": "open"}]
    return found


def judge(impl, mstr, is_open):
    """-> (kind, detail); kind in ok / violation / known.  mstr = 'model@model_fixed@spec'."""
    try:
        m_code, m_fixed, spec = mstr.split("@")
    except ValueError:
        return "violation", {"what": "model evaluation failed", "model_output": mstr[:600]}
    model = m_code if is_open else m_fixed
    if impl != model:
        what = "the real generator disagrees with the proven model of enum_values_checked / transform_enum"
        if is_open and impl == m_fixed:
            what += (" — it behaves like the REPAIRED pass (duplicates by value+cfg) although D12 is still `open` in "
                     "KNOWN_FINDINGS.jsonl; set its status to \"fixed\"")
        if not is_open and impl == m_code:
            what += " — it still shows defect D12 although KNOWN_FINDINGS.jsonl no longer lists it as open"
        return "violation", {"what": what, "implementation": impl, "model": model, "spec": spec}
    impl_acc = impl.startswith("ok#")
    if impl == "panic":
        return "ok", None          # w >= 127: outside the property's widths; model agrees (regression cases only)
    spec_acc = spec.startswith("accept")
    if impl_acc == spec_acc:
        return "ok", None
    if is_open and impl_acc and not spec_acc and spec.endswith(":d12"):
        return "known", None
    return "violation", {"what": "implementation and model agree but contradict the property's rule (spec evaluated in Coq)",
                         "implementation": impl, "model": model, "spec": spec}


def evaluate(ctx, exe, items, tag):
    """items: list of (adef, syntax, meta). Returns per-item (case, impl, modelstring)."""
    rng = random.Random(ctx.seed + 77)
    cases = []
    for i, (d, syntax, meta) in enumerate(items):
        cases.append({"id": f"{tag}{i}", "syntax": syntax, "text": adef.render(d, syntax, rng if meta[0] != "exh" else None),
                      "name": "Dev", "want": ["mir", "facts"]})
    res = gen_common.run_gen(ctx, exe, cases, tag=tag)
    terms = []
    for c in cases:
        try:
            t = gen_common.mir_term(res[c["id"]])
        except Exception:
            t = None
        if t is not None:
            terms.append((c["id"], t))
    model = gen_common.eval_model(ctx, ["Enum"], MODEL_FN, terms, tag=tag + "_model")
    out = []
    for c in cases:
        r = res[c["id"]]
        out.append((c, impl_string(r), model.get(c["id"]), r))
    return out


def run(ctx):
    _big_stack()
    info = vlib.coq_gate(ctx)
    exe, err = gen_common.build_gen_runner(ctx)
    if err:
        vlib.violation(ctx, {"broken": err}, no_input=True)
        vlib.write_evidence(ctx, info, {"evaluations": 0, "distinct_nontrivial": 0, "rule": RULE, "samples": []})
        return
    rng = random.Random(ctx.seed)
    is_open = bool(d12_open())
    items = exhaustive_defs(ctx.tier)
    n_exh = len(items)
    # regression: the generator's own `(1 << bits) - 1` panics (debug profile) before its 128-bit check
    for w in (126, 127, 128):
        items.append((mk_def(w, "uint", [1, None], True, size=136), "dsl", ("wide", w, 2)))
    # the D12 witness itself, always
    items.append((mk_def(2, "uint", [1, 1], True), "dsl", ("d12", 2, 2)))
    n_rand = 1500 if ctx.tier == "quick" else 20000
    for i in range(n_rand):
        items.append((random_def(rng), rng.choice(["dsl", "dsl", "dsl", "json", "yaml", "toml"]), ("rnd", 0, 0)))
    results = evaluate(ctx, exe, items, "c")
    hist = collections.Counter()
    distinct = set()
    violations, known = [], []
    for (d, syntax, meta), (c, impl, mstr, r) in zip(items, results):
        distinct.add(json.dumps(d["objects"], sort_keys=True))
        hist["part_" + meta[0]] += 1
        hist["syntax_" + syntax] += 1
        if mstr is None:
            # the front end produced no MIR (e.g. a manifest rejects the value): not an enum-analysis outcome
            hist["no_mir"] += 1
            if impl in ("panic", "abort"):
                violations.append((c, d, {"what": "generator died without producing a MIR", "implementation": impl, "message": r.get("message")}))
            continue
        hist[impl.split(":")[1] if impl.startswith("error:") else impl.split("#")[0]] += 1
        kind, detail = judge(impl, mstr, is_open)
        parts = mstr.split("@")
        if len(parts) == 3:
            hist["spec_" + parts[2]] += 1
        if kind == "violation":
            detail["message"] = r.get("message")
            violations.append((c, d, detail))
        elif kind == "known":
            known.append((c, d, impl))
    total = len(items)
    acc = hist["ok"] / max(1, total)
    if violations:
        violations.sort(key=lambda v: len(v[0]["text"]))
        c, d, detail = violations[0]
        rep = {"failing_input": {"syntax": c["syntax"], "text": c["text"], "adef": d}, "disagreements": len(violations)}
        rep.update(detail)
        vlib.violation(ctx, rep)
    elif not info["ok"]:
        vlib.violation(ctx, {"broken": info["reason"], "theorem": "props/C15.v"}, no_input=True)
    if known:
        known.sort(key=lambda v: len(v[0]["text"]))
        c, d, impl = known[0]
        vlib.known_finding(ctx, d12_open()[0],
                           f"{len(known)} accepted enum(s) in which two differently named variants under the same cfg share a number "
                           f"(property: reject); smallest: {json.dumps(c['text'])} -> {impl}")
    elif is_open and not violations:
        ctx.log("warning: D12 is listed open but no D12-class case was accepted in this run")
    if not (0.15 <= acc <= 0.9):
        ctx.log(f"warning: accepted ratio {acc:.2f} outside the sanity band")
    chk = None
    if ctx.tier == "thorough" and info["ok"]:
        okc, outc = vlib.coqchk("C15")
        chk = outc.strip().splitlines()[-6:]
        if not okc:
            vlib.violation(ctx, {"broken": "coqchk rejected the compiled proofs", "detail": outc[-800:]}, no_input=True)
    samples = []
    for i in (0, n_exh // 2, n_exh + 3, n_exh + 10, total - 1):
        (d, syntax, meta), (c, impl, mstr, r) = items[i], results[i]
        samples.append({"syntax": syntax, "text": c["text"][:1500], "implementation": impl[:400], "model@fixed@spec": (mstr or "")[:800]})
    vlib.write_evidence(ctx, info, {
        "evaluations": total, "distinct_nontrivial": len(distinct), "rule": RULE, "samples": samples,
        "exhaustive": True, "exhaustive_space": {"cases": n_exh, "what": "widths x variant lists over the value pool x try, see rule"},
        "random_cases": n_rand, "input_distribution": dict(hist), "accepted_ratio": round(acc, 3),
        "disagreements": len(violations), "d12_status": "open" if is_open else "not open (model = repaired pass)",
        "d12_class_cases_accepted": len(known), **({"coqchk": chk} if chk else {})})


def replay(ctx, path):
    rep = json.load(open(path))
    fi = rep.get("failing_input")
    if not fi:
        run(ctx)
        return
    _big_stack()
    vlib.coq_gate(ctx)
    exe, err = gen_common.build_gen_runner(ctx)
    res = gen_common.run_gen(ctx, exe, [{"id": "r", "syntax": fi["syntax"], "text": fi["text"], "name": "Dev", "want": ["mir", "facts"]}])
    impl = impl_string(res["r"])
    t = gen_common.mir_term(res["r"])
    mstr = gen_common.eval_model(ctx, ["Enum"], MODEL_FN, [("r", t)])["r"] if t else None
    ctx.log("impl:", impl)
    ctx.log("model@fixed@spec:", mstr)
    if mstr is None:
        return
    is_open = bool(d12_open())
    kind, detail = judge(impl, mstr, is_open)
    if kind == "violation":
        detail["failing_input"] = fi
        vlib.violation(ctx, detail)
    elif kind == "known":
        vlib.known_finding(ctx, d12_open()[0], "replayed case is in the D12 class and is accepted")
