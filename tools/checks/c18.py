"""C18 — Conditional-compilation gates equal the conjunction of own and enclosing cfgs.

Coq (props/C18.v): the pass as written is refuted on trees with a multi-level exit (D6) and proved equal to the
spec on all other trees; the corrected pass is proved equal to the spec on ALL trees.

Correspondence (this module): random object trees (depth 0..4, cfg'd / plain / empty blocks, registers, commands,
buffers, cfg'd fields with inline enums, cfg'd variants, repeated atoms, multi-level exits in ~40 % of the trees)
are rendered as DSL (mostly) or JSON/YAML/TOML, run through the REAL generator (harness/gen_runner: MIR of the real
front end + the #[cfg] attributes of every emitted item, flattened to atom sets), and the Coq model is evaluated on
that MIR.  Two comparisons per emitted item:
  (i)  implementation vs MODEL (transcription of the code: cfg_stack / pop once) — atom sets, effective sets AND the
       literal nesting `all(x, all(y, z))`.  Any mismatch = broken correspondence = VIOLATION.
  (ii) implementation vs SPEC (own atoms U atoms of all enclosing blocks).  Mismatches are property violations;
       those in the D6 class are a KNOWN FINDING while KNOWN_FINDINGS.jsonl lists D6 as open; everything else is a
       VIOLATION (shrunk replay).
ONE flag selects the model function: D6 `open` (or not listed) -> c18_both_code (pop once), D6 `fixed` ->
c18_both_fixed (the corrected walk) and (ii) tolerates nothing.
"""
import collections, copy, json, os, random, re, time
import vlib, adef, rustdebug
from checks import gen_common

RULE = ("random object trees (depth 0..4; cfg'd/plain/empty blocks; registers, commands, buffers; cfg'd fields with inline "
        "enums; cfg'd variants; atoms drawn with replacement so equal strings meet on nested levels; a spine of nested "
        "blocks followed by objects at every shallower depth grafted into ~40 % of the trees) rendered as DSL (70 %) or "
        "JSON/YAML/TOML, fed to the real transform_*; the MIR produced by the REAL front end is parsed and the Coq model "
        "(Cfg.c18_both_code = pass as written, or c18_both_fixed once D6 is recorded fixed) and spec are evaluated on it "
        "(coqc vm_compute); compared per emitted item (root/block struct+impl, accessor method, read_all items, field-set "
        "struct + every impl, FieldSetValue variant/From/Debug arm, getter, setter, enum + impls, variant, match arms): "
        "atom set of the item's #[cfg] attributes, effective set (own + enclosing impl/enum), literal all(..) nesting "
        "(model only); distinct = distinct (tree shape, cfg placement) up to names")

KNOWN_PATH = os.path.join(vlib.VERIF, "KNOWN_FINDINGS.jsonl")
# mostly short bare-identifier predicates (the model's output is read back character by character: keep it small),
# some key = "value" predicates
ATOMS = ["fa", "fb", "fc", "fd", "fe", "ff", "fg", "unix", 'feature = "x"', 'target_os = "linux"',
         # a value with a blank in it and the value it would collapse into: two different predicates (seed C18-9)
         'board = "rev a"', 'board = "reva"', 'board = "rev a"']
D6_CLASS = ("object follows the end of two or more nested blocks at once (an empty block counts as a level): "
            "propagate_cfg pops its stack once, the object and everything after it in pre-order is gated by the cfg of a "
            "block that does not enclose it")


# ------------------------------------------------------------------ D6 status: the single flag

def d6_status():
    """'open' | 'fixed' — from the LAST KNOWN_FINDINGS.jsonl line with id D6 and property C18; not listed counts as
    'fixed' (nothing is tolerated; the file is never written at run time).
    VERIF_C18_D6=open|fixed overrides (diagnostics only: used to try the check against a patched /repo)."""
    ov = os.environ.get("VERIF_C18_D6")
    if ov in ("open", "fixed"):
        return ov
    st = "fixed"
    if os.path.exists(KNOWN_PATH):
        for line in open(KNOWN_PATH):
            line = line.strip()
            if not line or line.startswith("#"):
                continue
            try:
                d = json.loads(line)
            except json.JSONDecodeError:
                continue
            if d.get("id") == "D6" and d.get("property") == "C18":
                st = "fixed" if str(d.get("status", "")).startswith("fixed") else "open"
    return st


# ------------------------------------------------------------------ generator

class Names:
    def __init__(self):
        self.n = collections.Counter()
        self.addr = 0

    def fresh(self, prefix):
        i = self.n[prefix]
        self.n[prefix] += 1
        return prefix + "abcdefghijklmnopqrstuvwxyz"[i // 26] + "abcdefghijklmnopqrstuvwxyz"[i % 26]

    def address(self):
        self.addr += 1
        return self.addr


def pick_cfg(rng, p, parent=None):
    if rng.random() >= p:
        return None
    if parent is not None and rng.random() < 0.25:
        return parent            # equal strings: Cfg::combine must not repeat them
    return rng.choice(ATOMS)


def gen_enum(rng, nm):
    style = rng.choice(["full", "default", "try", "catch"])
    vs = []
    if style == "full":
        vs = [adef.mk_variant(n) for n in ("Va", "Vb", "Vc", "Vd")]
    elif style == "default":
        vs = [adef.mk_variant("Va"), adef.mk_variant("Vb", value="default")]
    elif style == "try":
        vs = [adef.mk_variant("Va"), adef.mk_variant("Vb", value=2)]
    else:
        vs = [adef.mk_variant("Va"), adef.mk_variant("Vb", value="catch_all")]
    for v in vs:
        v["cfg"] = pick_cfg(rng, 0.35)
    name = nm.fresh("E")
    if rng.random() < 0.3:
        # written in another case than the PascalCase it is normalised to: the rename happens AFTER the cfg propagation
        # and must not touch the gate (seed C18-10 rebuilt a renamed enum with a default cfg)
        name = re.sub(r"(?<!^)(?=[A-Z])", "_", name).lower() if rng.random() < 0.7 else name[0].lower() + name[1:]
    return adef.mk_enum(name, vs, use_try=(style == "try"))


def gen_fields(rng, nm, obj_cfg, prefix):
    n = rng.choice([0, 1, 1, 2, 3])
    fs = []
    for i in range(n):
        conv = gen_enum(rng, nm) if rng.random() < 0.5 else None
        fcfg = pick_cfg(rng, 0.45, obj_cfg)
        if conv is not None:
            # generated enums are unique per (name, cfg): the same NAME may come back under another effective cfg
            # (feature-selected alternative layouts).  Remember (name, own cfgs) and reuse a name when this field's cfgs differ.
            seen = getattr(nm, "enum_names", None)
            if seen is None:
                seen = nm.enum_names = []
            mine = (obj_cfg, fcfg)
            cands = [nme for nme, cfgs in seen if all(c != mine for c in cfgs) and mine != (None, None)]
            if cands and rng.random() < 0.25:
                conv["name"] = rng.choice(cands)
                for ent in seen:
                    if ent[0] == conv["name"]:
                        ent[1].append(mine)
            else:
                seen.append((conv["name"], [mine]))
        fs.append(adef.mk_field(prefix + "abcd"[i], "uint", 2 * i, 2 * i + 2, conv=conv, cfg=fcfg, form="excl"))
    return fs


def gen_leaf(rng, nm, parent_cfg):
    k = rng.random()
    cfg = pick_cfg(rng, 0.45, parent_cfg)
    targets = getattr(nm, "targets", None)
    if targets is None:
        targets = nm.targets = []
    if targets and rng.random() < 0.15:
        # a ref: its accessor is gated by the REF's own cfg and the blocks enclosing the REF, never by anything on the
        # target's path.  Register refs override the access to WO so that they add no read_all_registers statement
        # (the model attaches only the accessor to a ref).  Block refs (since /repo's repair of D9 they get an accessor
        # and nothing else): gated by the ref's own cfg and the blocks enclosing the REF as well.
        kind, tname = rng.choice(targets)
        if kind == "block" and nm.n["blockrefs"] >= 5:
            kind, tname = next((t for t in targets if t[0] != "block"), (None, None))
            if kind is None:
                return gen_leaf(rng, nm, parent_cfg) if rng.random() < 0.9 else adef.mk_buffer(nm.fresh("F"), nm.address(), cfg=cfg)
        if kind == "block":
            # the target's objects appear a second time at the ref's offset: distinct powers of two above every
            # declared address keep all instances apart (sums of distinct powers are distinct)
            ov = {"kind": kind, "address_offset": 1024 << nm.n["blockrefs"]}
            nm.n["blockrefs"] += 1
        else:
            ov = {"kind": kind, "address": nm.address()}
        if kind == "register":
            ov["access"] = "WO"
        return adef.mk_ref(nm.fresh("Q"), tname, ov, cfg=pick_cfg(rng, 0.35, parent_cfg))
    if k < 0.6:
        r = adef.mk_register(nm.fresh("R"), nm.address(), 8, gen_fields(rng, nm, cfg, "x"), cfg=cfg,
                             access=rng.choice([None, None, "RW", "RO"]))
        targets.append(("register", r["name"]))
        return r
    if k < 0.85:
        form = rng.random()
        if form < 0.25:
            c = adef.mk_command(nm.fresh("C"), nm.address(), cfg=cfg, basic=True)
        else:
            si = 8 if form < 0.8 else None
            so = 8 if form > 0.45 else None
            c = adef.mk_command(nm.fresh("C"), nm.address(), size_bits_in=si, size_bits_out=so,
                                fields_in=gen_fields(rng, nm, cfg, "y") if si else None,
                                fields_out=gen_fields(rng, nm, cfg, "z") if so else None, cfg=cfg)
        targets.append(("command", c["name"]))
        return c
    return adef.mk_buffer(nm.fresh("F"), nm.address(), cfg=cfg, access=rng.choice([None, "RW", "RO", "WO"]))


def gen_level(rng, nm, depth, maxdepth, parent_cfg, allow_empty):
    lo = 0 if (allow_empty and rng.random() < 0.12) else 1
    n = lo if lo == 0 else rng.choice([1, 1, 2, 2, 3])
    out = []
    for _ in range(n):
        if depth < maxdepth and rng.random() < 0.45:
            cfg = pick_cfg(rng, 0.6, parent_cfg)
            out.append(adef.mk_block(nm.fresh("B"), gen_level(rng, nm, depth + 1, maxdepth, cfg, True), cfg=cfg,
                                     address_offset=0))
            # a completed block can be the target of a block ref declared later (never inside itself: no cycle)
            if getattr(nm, "targets", None) is not None:
                nm.targets.append(("block", out[-1]["name"]))
        else:
            out.append(gen_leaf(rng, nm, parent_cfg))
    return out


def gen_spine(rng, nm, k):
    """k nested blocks; after the end of each inner block the enclosing level gets a trailing object or not:
    every combination of 'how many levels end at once' and 'at which depth the next object sits'."""
    cfgs = []
    parent = None
    for _ in range(k):
        parent = pick_cfg(rng, 0.75, parent)
        cfgs.append(parent)
    inner = [] if rng.random() < 0.2 else [gen_leaf(rng, nm, cfgs[-1])]
    node = None
    for lvl in range(k - 1, -1, -1):
        children = inner if node is None else [node] + ([gen_leaf(rng, nm, cfgs[lvl])] if rng.random() < 0.4 else [])
        if node is not None and rng.random() < 0.2:
            children = [gen_leaf(rng, nm, cfgs[lvl])] + children
        node = adef.mk_block(nm.fresh("B"), children, cfg=cfgs[lvl], address_offset=0)
    return node


def gen_def(rng):
    nm = Names()
    maxdepth = rng.choice([0, 1, 2, 2, 2, 3, 3, 4, 4])
    objs = gen_level(rng, nm, 0, maxdepth, None, False)
    if maxdepth >= 2 and rng.random() < 0.7:
        k = rng.randint(2, maxdepth)
        pos = rng.randint(0, len(objs))
        tail = [gen_leaf(rng, nm, None)] if rng.random() < 0.7 else \
            [adef.mk_block(nm.fresh("B"), [gen_leaf(rng, nm, None)], cfg=pick_cfg(rng, 0.5), address_offset=0)]
        objs = objs[:pos] + [gen_spine(rng, nm, k)] + tail + objs[pos:]
    cfg = adef.mk_config(register_address_type="u16", command_address_type="u16", buffer_address_type="u16")
    return {"config": cfg, "objects": objs}


# ------------------------------------------------------------------ the real MIR as a python tree

def _cfg(v):
    x = v["value"]
    if isinstance(x, dict) and x.get("_") == "Some":
        return x["#"][0]
    return None


def strip_ws(s):
    """whitespace BETWEEN tokens removed; the inside of a string literal is part of the predicate (`board = "rev a"`)"""
    return "".join(part if k % 2 else re.sub(r"\s+", "", part) for k, part in enumerate(re.split(r'("(?:[^"\\]|\\.)*")', s)))


def mir_info(mir_text):
    """pre-order entries of the REAL MIR with what the D6 classification needs."""
    p = rustdebug.parse(mir_text)
    entries = []          # dicts: name, kind, depth, is_block, cfg, ancestors (names), sets, enums
    block_atoms = {}      # block name -> own atom (stripped) or None

    def walk(objs, depth, anc):
        for o in objs:
            kind = str(o["_"])
            b = o["#"][0]
            e = {"name": b["name"], "kind": kind, "depth": depth, "is_block": kind == "Block", "cfg": _cfg(b["cfg_attr"]),
                 "ancestors": list(anc), "sets": [], "enums": []}
            fsets = []
            if kind == "Register":
                fsets = [(b["name"], b["fields"])]
            elif kind == "Command":
                fsets = [(b["name"] + "FieldsIn", b["in_fields"]), (b["name"] + "FieldsOut", b["out_fields"])]
            for sname, fields in fsets:
                e["sets"].append(sname)
                for f in fields:
                    fc = f["field_conversion"]
                    if isinstance(fc, dict) and fc.get("_") == "Some":
                        c = fc["#"][0]
                        if c.get("_") == "Enum":
                            e["enums"].append(c["enum_value"]["name"])
            entries.append(e)
            if kind == "Block":
                block_atoms[b["name"]] = strip_ws(e["cfg"]) if e["cfg"] is not None else None
                walk(b["objects"], depth + 1, anc + [b["name"]])

    walk(p["objects"], 0, [])
    first_multi = None
    exits = []
    for i in range(1, len(entries)):
        prev = entries[i - 1]
        lv = prev["depth"] + (1 if prev["is_block"] else 0) - entries[i]["depth"]
        exits.append(lv)
        if lv >= 2 and first_multi is None:
            first_multi = i
    owner = {}
    for i, e in enumerate(entries):
        owner[("obj", e["name"])] = i
        for s in e["sets"]:
            owner[("set", s)] = i
        for en in e["enums"]:
            owner[("enum", en)] = i
    return {"entries": entries, "first_multi": first_multi, "exits": exits, "owner": owner, "block_atoms": block_atoms,
            "max_depth": max([e["depth"] for e in entries], default=0)}


def key_owner(info, key):
    kind, _, rest = key.partition(":")
    ow = info["owner"]
    if kind in ("method", "readall", "struct", "impl"):
        return ow.get(("obj", rest))
    if kind in ("fieldset", "fsv"):
        return ow.get(("set", rest))
    if kind in ("getter", "setter"):
        return ow.get(("set", rest.split(".")[0]))
    if kind in ("enum", "variant"):
        return ow.get(("enum", rest.split(".")[0]))
    return None


# ------------------------------------------------------------------ observations from the real token stream

def written_atoms(d):
    """every atomic predicate written anywhere in the abstract definition (all(..) flattened), blanks between tokens removed"""
    out = set()

    def add(c):
        if not c:
            return
        c = c.strip()
        m = re.fullmatch(r"all\s*\((.*)\)", c, flags=re.S)
        if m:
            depth, cur, parts, instr = 0, "", [], False
            for ch in m.group(1):
                if ch == '"':
                    instr = not instr
                if not instr and ch in "([":
                    depth += 1
                if not instr and ch in ")]":
                    depth -= 1
                if ch == "," and depth == 0 and not instr:
                    parts.append(cur)
                    cur = ""
                else:
                    cur += ch
            parts.append(cur)
            for p_ in parts:
                add(p_)
        else:
            out.add(strip_ws(c))

    def walk(objs):
        for o in objs:
            add(o.get("cfg"))
            for _, fields in adef.field_sets(o):
                for f in fields or []:
                    add(f.get("cfg"))
                    c = f.get("conv")
                    if c and c["type"] == "enum":
                        for v in c["variants"]:
                            add(v.get("cfg"))
            if o["kind"] == "block":
                walk(o["objects"])
    walk(d["objects"])
    return out


def canon_atoms(l):
    return tuple(sorted(set(strip_ws(a) for a in l)))


def observe(facts, info):
    """-> list of (key, where, attr, eff, raw) taken from the facts of the real output."""
    obs = []
    lower = {e["name"].lower(): e["name"] for e in info["entries"]}

    def add(key, where, cfg, raw, ctx=None):
        attr = canon_atoms(cfg)
        eff = attr if ctx is None else canon_atoms(list(cfg) + list(ctx))
        obs.append((key, where, attr, eff, tuple(raw)))

    for b in facts["blocks"]:
        bname = "/" if b.get("root") else b["name"]
        add("struct:" + bname, "struct", b["cfg"], b["cfg_raw"])
        add("impl:" + bname, "impl", b["impl_cfg"], b.get("impl_cfg_raw", None) or [])
        for m in b["methods"]:
            add("method:" + lower.get(m["name"], "?" + m["name"]), "fn", m["cfg"], m["cfg_raw"])
        for ra in list(b.get("read_all") or []) + list(b.get("read_all_async") or []):
            k = "readall:" + lower.get(ra["method"], "?" + ra["method"])
            add(k, "let" + ("_async" if ra.get("async") else ""), ra["cfg"], ra["cfg_raw"])
            if "callback_cfg" in ra:
                add(k, "callback" + ("_async" if ra.get("async") else ""), ra["callback_cfg"], ra["callback_cfg_raw"])
    for fs in facts["field_sets"]:
        n = fs["name"]
        add("fieldset:" + n, "struct", fs["cfg"], fs["cfg_raw"])
        inherent = None
        for im in fs["impls"]:
            if im.get("for") == "FieldSetValue":
                add("fsv:" + n, "impl " + str(im["trait"]), im["cfg"], im.get("cfg_raw", []))
            else:
                add("fieldset:" + n, "impl " + str(im["trait"]) + " for " + str(im["for"]), im["cfg"], im.get("cfg_raw", []))
                if im["trait"] is None:
                    inherent = im["cfg"]
        for g in fs["getters"]:
            add("getter:%s.%s" % (n, g["name"]), "fn", g["cfg"], g["cfg_raw"], ctx=inherent if inherent is not None else ["?no-inherent-impl"])
        for s in fs["setters"]:
            fname = s["name"][4:] if s["name"].startswith("set_") else s["name"]
            add("setter:%s.%s" % (n, fname), "fn", s["cfg"], s["cfg_raw"], ctx=inherent if inherent is not None else ["?no-inherent-impl"])
    fsv = facts.get("field_set_value") or {}
    add("other:FieldSetValue", "enum", fsv.get("cfg", []), fsv.get("cfg_raw", []))
    for v in fsv.get("variants", []):
        add("fsv:" + v["name"], "variant", v["cfg"], v.get("cfg_raw", []))
    for v in fsv.get("from_impls", []):
        add("fsv:" + v["for"], "from-impl", v["cfg"], v.get("cfg_raw", []))
    for v in fsv.get("debug_arms") or []:
        if v.get("variant") != "wild":
            add("fsv:" + v["variant"], "debug-arm", v["cfg"], v.get("cfg_raw", []))
    enum_occ = collections.Counter()
    for e in facts["enums"]:
        n = e["name"]
        # two generated enums may share a NAME when their cfgs differ (names are unique per (name, cfg)): the k-th enum
        # of a name is keyed `name#k`, in emission order = the model's pre-order
        enum_occ[n] += 1
        if enum_occ[n] > 1:
            n = "%s#%d" % (n, enum_occ[n])
        add("enum:" + n, "enum", e["cfg"], e["cfg_raw"])
        for im in e["impls"]:
            add("enum:" + n, "impl " + str(im["trait"]) + " for " + str(im["for"]), im["cfg"], im.get("cfg_raw", []))
        vnames = set()
        for v in e["variants"]:
            vnames.add(v["name"])
            add("variant:%s.%s" % (n, v["name"]), "variant", v["cfg"], v.get("cfg_raw", []), ctx=e["cfg"])
        for a in e.get("from_arms") or []:
            t = a.get("target")
            if isinstance(t, str) and t.startswith("catch_all:"):
                t = t.split(":", 1)[1]
            if t in vnames and a.get("pattern") != "wild":
                add("variant:%s.%s" % (n, t), "from-arm", a["cfg"], a.get("cfg_raw", []), ctx=e["cfg"])
        for a in e.get("into_arms") or []:
            if a.get("variant") in vnames:
                add("variant:%s.%s" % (n, a["variant"]), "into-arm", a.get("cfg", []), a.get("cfg_raw", []), ctx=e["cfg"])
    for it in facts.get("items", []):
        if it["kind"] == "mod" or (it["kind"] == "impl" and it["name"] == "FieldSetValue" and it["trait"] == "core::fmt::Debug"):
            add("other:" + it["path"], it["kind"], it["cfg"], it["cfg_raw"])
    return obs


def _pascal(n):
    """PascalCase of the enum names this module writes (Pascal already, snake_case, or lower-case first letter)"""
    return "".join(w[:1].upper() + w[1:] for w in n.split("_") if w)


def parse_listing(s, with_raw):
    """'key@a|b@a|b|c[@raw];...' -> ordered dict key -> (attr, eff, raw)"""
    out = collections.OrderedDict()
    if not s:
        return out
    occ = collections.Counter()
    cur = {}
    for part in s.split(";"):
        cols = part.split("@")
        key = cols[0]
        if key.startswith("enum:"):
            n = _pascal(key[5:])        # the model lists the enum under the name as written; it is emitted under its PascalCase form
            occ[n] += 1
            cur[n] = n if occ[n] == 1 else "%s#%d" % (n, occ[n])
            key = "enum:" + cur[n]
        elif key.startswith("variant:"):
            n, v = key[8:].split(".", 1)
            n = _pascal(n)
            key = "variant:%s.%s" % (cur.get(n, n), v)
        attr = canon_atoms([a for a in cols[1].split("|") if a])
        eff = attr if cols[2] == "=" else canon_atoms([a for a in cols[2].split("|") if a])
        raw = None
        if with_raw:
            raw = () if cols[3] == "-" else (strip_ws(cols[1] if cols[3] == "=" else cols[3]),)
        out[key] = (attr, eff, raw)
    return out


def evaluate(ctx, status, texts, tag):
    """texts: list of (id, syntax, text). -> dict id -> record with impl status, observations, model, spec, info."""
    exe, err = gen_common.build_gen_runner(ctx)
    if err:
        return None, err
    cases = [{"id": i, "syntax": sy, "text": t, "name": "Dev", "want": ["mir", "facts"]} for i, sy, t in texts]
    res = gen_common.run_gen(ctx, exe, cases, tag=tag)
    terms = []
    recs = {}
    for c in cases:
        r = res[c["id"]]
        rec = {"status": gen_common.canon_status(r), "message": r.get("message"), "info": None, "obs": None,
               "model": None, "spec": None, "single": None, "warnings": None}
        recs[c["id"]] = rec
        try:
            t = gen_common.mir_term(r)
        except Exception as ex:
            t = None
            rec["mir_error"] = repr(ex)
        if t is not None:
            terms.append((c["id"], t))
            rec["info"] = mir_info(r["mir"])
        if r.get("status") == "ok" and r.get("facts") and rec["info"] is not None:
            rec["obs"] = observe(r["facts"], rec["info"])
            rec["warnings"] = r["facts"].get("facts_warnings") or r.get("facts_warnings")
    fn = "c18_both_fixed" if status == "fixed" else "c18_both_code"
    out = vlib.coq_eval_strings(ctx, gen_common.PREAMBLE.format(mods="Cfg"), [(i, f"{fn} ({t})") for i, t in terms],
                                shard_size=max(8, min(60, (len(terms) + 15) // 16)), tag=tag + "_model")
    for cid, s in out.items():
        rec = recs[cid]
        if s.startswith("<<COQ-ERROR") or "##" not in s:
            rec["model_error"] = s[:600]
            continue
        m, sp = s.split("##", 1)
        if m == "panic":
            rec["model"] = "panic"
        else:
            rec["model"] = parse_listing(m, True)
        head, _, body = sp.partition(";")
        rec["single"] = (head == "single")
        rec["spec"] = parse_listing(body, False)
    return recs, None


def compare(rec, status):
    """-> (model_mismatches, d6_hits, other_spec_mismatches, n_items)"""
    mm, d6, other = [], [], []
    info, obs, model, spec = rec["info"], rec["obs"], rec["model"], rec["spec"]
    seen = set()
    bad_keys = set()
    for key, where, attr, eff, raw in obs:
        if key.startswith("other:"):
            if attr:
                other.append({"key": key, "where": where, "implementation": list(attr), "spec": [],
                              "why": "item that belongs to no object carries a cfg"})
            continue
        seen.add(key)
        if key not in model:
            mm.append({"key": key, "where": where, "what": "emitted item unknown to the model", "implementation": list(attr)})
            bad_keys.add(key)
            continue
        mattr, meff, mraw = model[key]
        if attr != mattr or eff != meff:
            mm.append({"key": key, "where": where, "what": "atom set", "implementation": {"attr": list(attr), "effective": list(eff)},
                       "model": {"attr": list(mattr), "effective": list(meff)}})
            bad_keys.add(key)
        elif raw != mraw:
            mm.append({"key": key, "where": where, "what": "literal nesting of all(..)", "implementation": list(raw),
                       "model": list(mraw)})
            bad_keys.add(key)
    for key in model:
        if key not in seen:
            mm.append({"key": key, "what": "item of the model not found in the output"})
            bad_keys.add(key)
    for key, where, attr, eff, raw in obs:
        if key.startswith("other:") or key not in spec:
            continue
        sattr, seff = spec[key][0], spec[key][1]
        if attr == sattr and eff == seff:
            continue
        d = {"key": key, "where": where, "implementation": {"attr": list(attr), "effective": list(eff)},
             "spec": {"attr": list(sattr), "effective": list(seff)}}
        oi = key_owner(info, key)
        in_class = False
        if status != "fixed" and oi is not None and info["first_multi"] is not None and oi >= info["first_multi"] \
                and key not in bad_keys and set(sattr) <= set(attr) and set(seff) < set(eff):
            ent = info["entries"][oi]
            foreign = {a for n, a in info["block_atoms"].items() if a is not None and n not in ent["ancestors"] and n != ent["name"]}
            extra = (set(attr) - set(sattr)) | (set(eff) - set(seff))
            in_class = bool(extra) and extra <= foreign
            d["object"] = ent["name"]
            d["extra_atoms"] = sorted(extra)
        (d6 if in_class else other).append(d)
    if rec.get("written") is not None:
        for (key, where, attr, eff, raw) in obs:
            alien = [a for a in attr if a not in rec["written"]]
            if alien:
                other.append({"key": key, "where": where, "implementation": list(attr), "spec": sorted(rec["written"]),
                              "what": f"the gate of an emitted item tests {alien[0]!r}, which is none of the predicates written in the definition"})
                break
    return mm, d6, other, len(model)


# ------------------------------------------------------------------ shrinking

def _paths(objs, prefix=()):
    for i, o in enumerate(objs):
        yield prefix + (i,)
        if o["kind"] == "block":
            yield from _paths(o["objects"], prefix + (i,))


def _get_list(d, path):
    l = d["objects"]
    for i in path[:-1]:
        l = l[i]["objects"]
    return l


def candidates(d):
    """smaller definitions: delete an object / splice a block's children into its place / drop fields, enums, cfgs"""
    out = []
    for p in _paths(d["objects"]):
        c = copy.deepcopy(d)
        l = _get_list(c, p)
        del l[p[-1]]
        if c["objects"]:
            out.append(c)
        o = _get_list(d, p)[p[-1]]
        if o["kind"] == "block":
            c = copy.deepcopy(d)
            l = _get_list(c, p)
            l[p[-1]:p[-1] + 1] = l[p[-1]]["objects"]
            if c["objects"]:
                out.append(c)
        for fkey in ("fields", "fields_in", "fields_out"):
            fs = o.get(fkey)
            if fs:
                for j in range(len(fs)):
                    c = copy.deepcopy(d)
                    del _get_list(c, p)[p[-1]][fkey][j]
                    out.append(c)
                    if fs[j].get("conv"):
                        c = copy.deepcopy(d)
                        _get_list(c, p)[p[-1]][fkey][j]["conv"] = None
                        out.append(c)
                    if fs[j].get("cfg") is not None:
                        c = copy.deepcopy(d)
                        _get_list(c, p)[p[-1]][fkey][j]["cfg"] = None
                        out.append(c)
        if o.get("cfg") is not None:
            c = copy.deepcopy(d)
            _get_list(c, p)[p[-1]]["cfg"] = None
            out.append(c)
    return out


def failure_kind(rec, status):
    if rec["status"] in ("panic", "abort"):
        return "panic"
    if rec["obs"] is None or not isinstance(rec["model"], dict):
        return None
    mm, d6, other, _ = compare(rec, status)
    if other:
        return "spec"
    if mm:
        return "model"
    return None


def shrink(ctx, status, d, syntax, kind, budget_rounds=40):
    """greedy: evaluate every one-step reduction in ONE batch, keep the smallest that still fails the same way"""
    cur = d
    deadline = time.time() + (40 if ctx.tier == "quick" else 240)
    for rnd in range(budget_rounds):
        if time.time() > deadline:
            break
        cands = candidates(cur)[:400]
        if not cands:
            break
        texts = [("s%d" % i, syntax, adef.render(c, syntax, None)) for i, c in enumerate(cands)]
        recs, err = evaluate(ctx, status, texts, "shrink")
        if err:
            break
        for i, c in enumerate(cands):
            recs["s%d" % i]["written"] = written_atoms(c)
        failing = [(len(texts[i][2]), i) for i in range(len(cands)) if failure_kind(recs["s%d" % i], status) == kind]
        if not failing:
            break
        cur = cands[min(failing)[1]]
    return cur


# ------------------------------------------------------------------ run / replay

def tree_stats(d):
    n_obj = n_cfg = n_empty = 0
    for o, depth in adef.walk(d["objects"]):
        n_obj += 1
        n_cfg += o.get("cfg") is not None
        if o["kind"] == "block" and not o["objects"]:
            n_empty += 1
    return n_obj, n_cfg, n_empty


def shape_key(d):
    def f(o):
        fs = []
        for k in ("fields", "fields_in", "fields_out"):
            for x in o.get(k) or []:
                fs.append((x.get("cfg"), tuple(v.get("cfg") for v in x["conv"]["variants"]) if x.get("conv") else None))
        return (o["kind"], o.get("cfg"), tuple(fs), tuple(f(c) for c in o.get("objects", [])) if o["kind"] == "block" else None)
    return json.dumps([f(o) for o in d["objects"]], sort_keys=True)


def run(ctx):
    info = vlib.coq_gate(ctx)
    status = d6_status()
    ctx.log(f"D6 status: {status} -> model function {'c18_both_fixed (corrected walk)' if status == 'fixed' else 'c18_both_code (pass as written, pops once)'}")
    rng = random.Random(ctx.seed)
    n = 700 if ctx.tier == "quick" else 6000
    if os.environ.get("VERIF_C18_N", "").isdigit():      # diagnostics only (short mutation-test windows)
        n = max(10, int(os.environ["VERIF_C18_N"]))
    defs, texts = {}, []
    # fixed witnesses first: D6 of DESIGN.md, its empty-block variant, a 3-level exit
    w = lambda objs: {"config": adef.mk_config(register_address_type="u16", command_address_type="u16", buffer_address_type="u16"),
                      "objects": objs}
    reg = lambda name, a, cfg=None: adef.mk_register(name, a, 8, [adef.mk_field("xa", "uint", 0, 2, form="excl")], cfg=cfg)
    fixed_cases = [
        w([adef.mk_block("Ba", [adef.mk_block("Bb", [reg("Ra", 1)], cfg="b", address_offset=0)], cfg="a", address_offset=0),
           reg("Rb", 2), adef.mk_block("Bc", [reg("Rc", 3)], address_offset=0)]),
        w([adef.mk_block("Ba", [adef.mk_block("Bb", [], cfg="b", address_offset=0)], cfg="a", address_offset=0), reg("Rb", 2)]),
        w([adef.mk_block("Ba", [adef.mk_block("Bb", [adef.mk_block("Bc", [reg("Ra", 1, "d")], cfg="c", address_offset=0)],
                                              cfg="b", address_offset=0)], cfg="a", address_offset=0),
           reg("Rb", 2), adef.mk_block("Bd", [reg("Rc", 3)], cfg="e", address_offset=0), reg("Rd", 4, "f")]),
    ]
    for i in range(n):
        d = fixed_cases[i] if i < len(fixed_cases) else gen_def(rng)
        syntax = "dsl" if i < len(fixed_cases) else rng.choice(["dsl"] * 7 + ["json", "yaml", "toml"])
        cid = f"c{i}"
        defs[cid] = (d, syntax)
        texts.append((cid, syntax, adef.render(d, syntax, rng)))
    recs, err = evaluate(ctx, status, texts, "gen")
    if err:
        vlib.violation(ctx, {"broken": err}, no_input=True)
        vlib.write_evidence(ctx, info, {"evaluations": 0, "distinct_nontrivial": 0, "rule": RULE, "samples": []})
        return
    text_of = {cid: t for cid, _, t in texts}
    hist = collections.Counter()
    depth_hist = collections.Counter()
    exit_hist = collections.Counter()
    kinds = collections.Counter()
    distinct = set()
    model_bad, spec_bad, d6_trees, panics, harness_bad = [], [], [], [], []
    items_total = obs_total = d6_items = 0
    for cid, (d, syntax) in defs.items():
        rec = recs[cid]
        hist["syntax_" + syntax] += 1
        hist["status_" + rec["status"].split(":")[0]] += 1
        distinct.add(shape_key(d))
        nobj, ncfg, nempty = tree_stats(d)
        hist["objects"] += nobj
        hist["objects_with_cfg"] += ncfg
        hist["empty_blocks"] += nempty
        if rec["status"] in ("panic", "abort"):
            panics.append(cid)
            continue
        if rec["status"] != "ok" or rec["obs"] is None or not isinstance(rec["model"], dict):
            if rec["model"] == "panic":
                panics.append(cid)
            else:
                harness_bad.append((cid, rec["status"], rec.get("model_error") or rec.get("mir_error") or rec.get("message")))
            continue
        mi = rec["info"]
        depth_hist[str(mi["max_depth"])] += 1
        mx = max(mi["exits"], default=0)
        exit_hist[str(max(mx, 0))] += 1
        if mi["first_multi"] is not None:
            hist["trees_with_multi_level_exit"] += 1
            if (mi["first_multi"] is not None) == rec["single"]:
                harness_bad.append((cid, "single_exits flag of the model disagrees with the python classification", None))
        if rec["warnings"]:
            hist["facts_warnings"] += 1
        rec["written"] = written_atoms(d)
        mm, d6, other, nitems = compare(rec, status)
        # (compare's) third opinion, from the ABSTRACT definition: the model and the spec are evaluated on the MIR of the real front
        # end, so a predicate the front end (or Cfg::new) re-spells into another predicate is the same mistake on both sides
        # (seed C18-9 dropped the blank of `board = "rev a"`).  Every atom of every emitted gate is an atom somebody wrote.
        items_total += nitems
        obs_total += len(rec["obs"])
        for key in rec["model"]:
            kinds[key.split(":")[0]] += 1
        if mm:
            model_bad.append((cid, mm))
        if other:
            spec_bad.append((cid, other))
        if d6:
            d6_trees.append((cid, d6))
            d6_items += len(d6)
    ok_trees = hist["status_ok"]
    ctx.log(f"{len(defs)} trees ({ok_trees} accepted), {items_total} model items, {obs_total} observed attributes; "
            f"multi-level exits in {hist['trees_with_multi_level_exit']} trees; depth histogram {dict(sorted(depth_hist.items()))}")

    def replay_obj(cid, kind, details, what):
        d, syntax = defs[cid]
        small = shrink(ctx, status, d, syntax, kind)
        text = adef.render(small, syntax, None)
        r2, _ = evaluate(ctx, status, [("r", syntax, text)], "final")
        det = details
        if r2 and r2["r"]["obs"] is not None and isinstance(r2["r"]["model"], dict):
            r2["r"]["written"] = written_atoms(small)
            mm, d6, other, _ = compare(r2["r"], status)
            det = {"model_mismatches": mm[:8], "spec_violations": other[:8], "d6_class": d6[:4]}
        return {"what": what, "failing_input": {"syntax": syntax, "text": text, "adef": small},
                "original_input": {"syntax": syntax, "text": text_of[cid]}, "d6_status": status, "details": det}

    if panics:
        cid = min(panics, key=lambda c: len(text_of[c]))
        vlib.violation(ctx, replay_obj(cid, "panic", {"status": recs[cid]["status"], "message": recs[cid]["message"]},
                                       "the generator (or the model of the pass) panics on this tree; C18_never_panics says "
                                       "cfg_stack.last().unwrap() is unreachable"))
    if spec_bad:
        spec_bad.sort(key=lambda x: len(text_of[x[0]]))
        cid, other = spec_bad[0]
        vlib.violation(ctx, replay_obj(cid, "spec", {"spec_violations": other[:8]},
                                       "an emitted item's cfg gate is not own U enclosing atoms, and the case is NOT in the D6 class "
                                       f"({len(spec_bad)} trees)"))
    elif model_bad:
        model_bad.sort(key=lambda x: len(text_of[x[0]]))
        cid, mm = model_bad[0]
        vlib.violation(ctx, replay_obj(cid, "model", {"model_mismatches": mm[:8]},
                                       "the real generator disagrees with the Coq transcription of propagate_cfg / lir_transform "
                                       f"({'corrected walk' if status == 'fixed' else 'pass as written'}; {len(model_bad)} trees): "
                                       "the theorems no longer speak about this code"))
    elif harness_bad and len(harness_bad) > 0.02 * len(defs):
        vlib.violation(ctx, {"broken": "generator/harness: definitions rejected or not evaluable", "examples": harness_bad[:5]},
                       no_input=True)
    elif not info["ok"]:
        vlib.violation(ctx, {"broken": info["reason"], "theorem": "props/C18.v"}, no_input=True)
    elif ctx.tier == "thorough":
        okc, outc = vlib.coqchk("C18")
        coqchk_note = "coqchk ok" if okc else "coqchk FAILED"
        ctx.log(coqchk_note)
        if not okc:
            vlib.violation(ctx, {"broken": "coqchk rejected DDProps.C18: " + outc[-600:]}, no_input=True)
    if d6_trees:
        d6_trees.sort(key=lambda x: len(text_of[x[0]]))
        cid, hits = d6_trees[0]
        witness = {"syntax": defs[cid][1], "text": text_of[cid], "item": hits[0]["key"], "object": hits[0].get("object"),
                   "implementation": hits[0]["implementation"]["attr"], "spec": hits[0]["spec"]["attr"],
                   "extra_atoms": hits[0].get("extra_atoms")}
        known = [f for f in vlib.load_known_findings("C18") if f.get("id") == "D6"]
        finding = known[-1] if known else None
        if finding is None:
            finding = {"id": "D6"}
        vlib.known_finding(ctx, finding, f"cfg of a closed block leaks onto later objects after a multi-level exit: {d6_items} items in "
                                         f"{len(d6_trees)} of {hist['trees_with_multi_level_exit']} trees with such an exit gated by atoms of "
                                         f"blocks that do not enclose them (exactly as Cfg.propagate_cfg predicts); smallest: item "
                                         f"{witness['item']} has {witness['implementation']}, spec {witness['spec']}")
    samples = []
    for cid in list(defs)[:2] + ([d6_trees[0][0]] if d6_trees else []) + [list(defs)[len(defs) // 2]]:
        rec = recs[cid]
        if isinstance(rec["model"], dict):
            k = next((k for k in rec["model"] if k.startswith("method:")), None)
            samples.append({"syntax": defs[cid][1], "text": text_of[cid][:1500], "items": len(rec["model"]),
                            "example_item": k, "model": list(rec["model"][k][0]) if k else None,
                            "spec": list(rec["spec"][k][0]) if k else None,
                            "implementation": [list(o[2]) for o in rec["obs"] if o[0] == k][:1]})
    multi = hist["trees_with_multi_level_exit"]
    vlib.write_evidence(ctx, info, {
        "evaluations": len(defs), "distinct_nontrivial": len(distinct), "rule": RULE, "samples": samples,
        "d6_status": status, "model_function": "c18_both_fixed" if status == "fixed" else "c18_both_code",
        "accepted_trees": ok_trees, "model_items_compared": items_total, "observed_attributes_compared": obs_total,
        "item_kinds": dict(kinds), "input_distribution": dict(hist),
        "max_depth_histogram": dict(sorted(depth_hist.items())),
        "max_levels_ended_at_once_histogram": dict(sorted(exit_hist.items())),
        "trees_with_multi_level_exit": multi, "multi_level_exit_ratio": round(multi / max(1, ok_trees), 3),
        "trees_disagreeing_with_model": len(model_bad), "trees_violating_spec_outside_D6": len(spec_bad),
        "trees_in_D6_class": len(d6_trees), "items_in_D6_class": d6_items,
        "trees_with_multi_level_exit_that_still_meet_the_spec": multi - len(d6_trees) if status != "fixed" else multi, "panics": len(panics),
        "not_evaluable": len(harness_bad)})
    if multi < 0.3 * max(1, ok_trees):
        ctx.log(f"warning: only {multi}/{ok_trees} trees have a multi-level exit")


def replay(ctx, path):
    d = json.load(open(path))
    fi = d.get("failing_input")
    if not fi:
        run(ctx)
        return
    status = d6_status()
    recs, err = evaluate(ctx, status, [("r", fi["syntax"], fi["text"])], "replay")
    if err:
        vlib.violation(ctx, {"broken": err}, no_input=True)
        return
    rec = recs["r"]
    ctx.log("D6 status:", status, "| generator status:", rec["status"])
    if rec["status"] in ("panic", "abort") or rec["model"] == "panic":
        vlib.violation(ctx, {"failing_input": fi, "implementation": rec["status"], "message": rec["message"]})
        return
    if rec["obs"] is None or not isinstance(rec["model"], dict):
        ctx.log("not evaluable:", rec.get("model_error") or rec.get("message"))
        vlib.violation(ctx, {"failing_input": fi, "broken": "replay input not evaluable", "status": rec["status"]}, no_input=True)
        return
    if fi.get("adef"):
        rec["written"] = written_atoms(fi["adef"])
    mm, d6, other, n = compare(rec, status)
    for x in mm[:10]:
        ctx.log("MODEL-MISMATCH", json.dumps(x))
    for x in other[:10]:
        ctx.log("SPEC-VIOLATION", json.dumps(x))
    for x in d6[:10]:
        ctx.log("D6-CLASS", json.dumps(x))
    ctx.log(f"{n} items; model mismatches {len(mm)}, spec violations outside D6 {len(other)}, D6-class {len(d6)}")
    if mm or other:
        vlib.violation(ctx, {"failing_input": fi, "d6_status": status,
                             "details": {"model_mismatches": mm[:8], "spec_violations": other[:8], "d6_class": d6[:4]}})
    elif d6:
        known = [f for f in vlib.load_known_findings("C18") if f.get("id") == "D6"]
        vlib.known_finding(ctx, known[-1] if known else {"id": "D6"}, f"{len(d6)} items gated by atoms of non-enclosing blocks (replay)")
