"""Correspondence between device_driver::ops (real code) and the extracted Coq model Bits.v.
Used by C01 (layout), C02 (round trip / isolation) and C03 (memory safety of ops)."""
import collections, json, os, sys
import vlib

sys.path.insert(0, os.path.join(vlib.VERIF, "tools"))
import gen_ops_cases

CARRIERS = gen_ops_cases.CARRIER_NAMES


def build(ctx, release=False):
    ok, log = vlib.coq_build(["theories/BitsSpec.vo"])
    if not ok:
        return None, None, "model does not compile: " + log[-600:]
    exe, log = vlib.ocaml_build("bits", "ExtractBits.v", "bits_driver.ml")
    if exe is None:
        return None, None, "extraction/ocaml build failed: " + log[-600:]
    ok, log = vlib.cargo_build(["ops_runner"], release=release)
    if not ok:
        return None, None, "cargo build of ops_runner against /repo failed: " + log[-1500:]
    return exe, vlib.bin_path("ops_runner", release), None


def case_class(line):
    p = line.split()
    s, e = int(p[4]), int(p[5])
    ln = len(p[-1]) // 2
    return (p[0], p[1], p[2], p[3], ln, s % 8, e % 8, (e - 1) // 8 - s // 8)


def describe(line):
    p = line.split()
    d = {"op": "load" if p[0] == "L" else "store", "byte_order": "BE" if p[1] == "1" else "LE",
         "bit_order": "MSB0" if p[2] == "1" else "LSB0", "carrier": CARRIERS[int(p[3])],
         "start": int(p[4]), "end": int(p[5])}
    if p[0] == "L":
        d["data_hex"] = p[6] if len(p) > 6 else ""
    else:
        d["value_hex"] = p[6]
        d["data_hex"] = p[7] if len(p) > 7 else ""
    d["case_line"] = line
    return d


def run_cases(ctx, model_exe, impl_exe, lines, canary=False):
    impl = vlib.run_sharded(lambda p: [impl_exe, p] + (["--canary"] if canary else []), lines, nshards=4,
                            workdir=ctx.work, tag="impl")
    model = vlib.run_sharded(lambda p: [model_exe, p], lines, nshards=vlib.NCPU, workdir=ctx.work, tag="model")
    return impl, model


def correspondence(ctx, tier, release=False, canary=False, keep_cases=False):
    """Returns (stats, diffs) where diffs is a list of (case line, impl, model)."""
    model_exe, impl_exe, err = build(ctx, release)
    if err:
        return None, err
    path = os.path.join(ctx.work, "cases.txt")
    if tier == "quick":
        hist = gen_ops_cases.gen(path, ctx.seed, [1, 2, 3, 4, 9, 17], [1, 2, 3], 1, stride=7)
    else:
        hist = gen_ops_cases.gen(path, ctx.seed, list(range(1, 18)), [1, 2, 3, 4], 2, stride=1)
    lines = [l for l in open(path).read().splitlines() if l and not l.startswith("#")]
    corpus = os.path.join(vlib.VERIF, "corpus", "ops.txt")
    if os.path.exists(corpus):
        lines = [l for l in open(corpus).read().splitlines() if l and not l.startswith("#")] + lines
    impl, model = run_cases(ctx, model_exe, impl_exe, lines, canary)
    diffs = []
    if len(impl) != len(lines) or len(model) != len(lines):
        return None, f"runner output length mismatch: cases={len(lines)} impl={len(impl)} model={len(model)}"
    classes = set()
    for l, a, b in zip(lines, impl, model):
        classes.add(case_class(l))
        if a != b:
            diffs.append((l, a, b))
    os.remove(path)
    stats = {"evaluations": len(lines), "distinct_nontrivial": len(classes), "histogram": hist,
             "samples": [describe(lines[i]) | {"impl": impl[i], "model": model[i]} for i in (0, len(lines) // 3, len(lines) // 2, len(lines) - 1)]}
    if keep_cases:
        stats["lines"] = lines
        stats["impl"] = impl
    return (stats, diffs), None


def minimal(diffs):
    def key(d):
        p = d[0].split()
        return (len(p[-1]), int(p[5]) - int(p[4]), int(p[4]))
    return sorted(diffs, key=key)[0]
