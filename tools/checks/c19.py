"""C19 — every accepted definition yields Rust that type-checks.

Partial by nature (DESIGN.md 5/C19): that rustc accepts the output is a fact about rustc; the Coq side
(Emit.v / props/C19.v) carries the name / reference / literal obligations the emitter must meet, rustc is the
observer for the rest.  Batches of accepted cfg-free definitions are written into one crate (one module
each, user conversion types supplied) and `cargo check`ed; every diagnostic is mapped back to its definition;
definitions in an open known class must fail in exactly the recorded way, every other error is a violation."""
import json, os, random, collections, re
import vlib, adef, l2, gendev
from checks import gen_common

RULE = ("random cfg-free definitions over the documented language (all object kinds and nesting, refs of every kind, "
        "every access on registers/buffers/fields, every conversion form incl. inline enums, all seven address types and "
        "signs, repeats with signed strides, sizes 1..128, reset values), filtered by the REAL generator's acceptance; "
        "(1) syn::parse2::<syn::File> of the output, (2) accessor/getter/setter presence vs the declaration, (3) one "
        "`cargo check` per batch with every diagnostic mapped to its definition; distinct = distinct feature vectors "
        "(object kinds, depth, refs, conversions, accesses, address types, stride signs)")

KNOWN_CLASSES = ("D7", "D8", "D9", "D12", "D16", "D17", "D20", "D21", "D22")


def features(d):
    f = collections.Counter()
    cfg = d["config"]
    for o, depth in adef.walk(d["objects"]):
        f["kind_" + o["kind"]] += 1
        f["depth%d" % depth] += 1
        if o.get("repeat"):
            f["repeat"] += 1
            if o["repeat"]["stride"] < 0:
                f["neg_stride"] += 1
        if o["kind"] == "ref":
            f["ref_" + o["override"]["kind"]] += 1
        for _, fs in adef.field_sets(o):
            for fl in fs:
                f["acc_" + (fl["access"] or "dflt")] += 1
                if fl["conv"]:
                    f["conv_" + fl["conv"]["type"] + ("_try" if fl["conv"]["try"] else "")] += 1
    f["reg_at_" + str(cfg.get("register_address_type"))] += 1
    return f


def predicted_classes(d):
    """Which open known classes a definition falls into (computed from the abstract definition)."""
    cfg = d["config"]
    cls = set()
    reg_unsigned = (cfg.get("register_address_type") or "u8").startswith("u")
    regs = {}
    toplevel = {"Dev"}          # the driver struct and the block structs share the top-level namespace with generated enums
    for o, _ in adef.walk(d["objects"]):
        if o["kind"] == "register":
            regs[o["name"]] = o
        if o["kind"] == "block":
            toplevel.add(o["name"])
    for o, _ in adef.walk(d["objects"]):
        for _, fs in adef.field_sets(o):
            for fl in fs:
                a = fl["access"] or cfg.get("default_field_access") or "RW"
                if a == "WO":
                    cls.add("D7")
                c = fl["conv"]
                if c and c["type"] == "enum":
                    nums = []
                    nxt = 0
                    for v in c["variants"]:
                        if isinstance(v["value"], int):
                            nxt = v["value"]
                        nums.append(nxt)
                        nxt += 1
                    if len(set(nums)) != len(nums):
                        cls.add("D12")
                    if fl["base"] != "int" and any(n < 0 for n in nums):
                        cls.add("D16")
                    if fl["base"] == "int" and fl["end"] is not None:
                        w = fl["end"] - fl["start"]
                        cb = max(8, 1 << (w - 1).bit_length()) if w > 1 else 8
                        if any(n >= (1 << (cb - 1)) or n < -(1 << (cb - 1)) for n in nums):
                            cls.add("D17")
        if o["kind"] == "register":
            acc = o["access"] or cfg.get("default_register_access") or "RW"
            if reg_unsigned and acc != "WO" and o.get("repeat") and o["repeat"]["stride"] < 0:
                cls.add("D8")
        if o["kind"] == "ref":
            ov = o["override"]
            # (block refs: D9 is repaired in /repo — a duplicated block struct would now be an unexpected error)
            if ov["kind"] == "register" and o["target"] in regs:
                t = regs[o["target"]]
                acc = ov.get("access") or t["access"] or cfg.get("default_register_access") or "RW"
                rep = ov.get("repeat") or t.get("repeat")
                if reg_unsigned and acc != "WO" and rep and rep["stride"] < 0:
                    cls.add("D8")
    return cls


def kid(k):
    """known-finding id of a class tag (D22L = the lint half of D22)"""
    return "D22" if k == "D22L" else k


def classify_error(diag):
    code = (diag.get("code") or {}).get("code")
    msg = diag.get("message", "")
    rendered = diag.get("rendered") or ""
    addr_ctx = "base_address" in rendered or "callback(" in rendered      # inside the emitted address arithmetic
    if code == "E0599" and "no method named" in msg:
        return "D7"
    if code == "E0277" and "Neg" in msg:
        return "D22" if addr_ctx else "D8"
    if code == "E0600" and "cannot apply unary operator `-`" in msg and addr_ctx:
        return "D22"
    if code in ("E0428", "E0119", "E0592", "E0034", "E0124") :
        return "D9"
    if code == "E0081":
        return "D12"
    if code == "E0600" or "cannot apply unary operator" in msg or code == "E0080":
        return "D16"
    if code == "overflowing_literals" and re.search(r"literal out of range for `i\d+`", msg) and " = " in rendered and not addr_ctx:
        return "D17"
    if code == "overflowing_literals" and addr_ctx:
        return "D22L"
    if code == "arithmetic_overflow" and addr_ctx:
        return "D22L"
    return "other:" + str(code)


def declared_vs_emitted(d, facts):
    """exposes an accessor for every declared object and every field according to its access"""
    bad = []
    cfg = d["config"]

    def block_methods(objs):
        return [o["name"] for o in objs]
    blocks = {b["name"]: b for b in facts["blocks"]}
    root = [b for b in facts["blocks"] if b["root"]]
    if len(root) != 1:
        return [("root", "no unique root block")]

    def snake(n):
        return re.sub(r"(?<!^)(?=[A-Z])", "_", n).lower()

    def cmp(block_fact, objs, where):
        want = [snake(o["name"]) for o in objs]
        got = [m["name"] for m in block_fact["methods"]]
        if want != got:
            bad.append((where, f"methods {got} != declared objects {want}"))
        for o in objs:
            if o["kind"] == "block" and o["name"] in blocks:
                cmp(blocks[o["name"]], o["objects"], o["name"])
    cmp(root[0], d["objects"], "root")
    return bad


def inject_identifier_clash(rng, d):
    """D20 / D21: identifiers of the OUTPUT that names_unique does not look at."""
    cfg = d["config"]
    at = cfg.get("register_address_type") or "u8"
    lo, hi = adef.INT_RANGE[at]
    used = {o.get("address") for o, _ in adef.walk(d["objects"]) if o["kind"] == "register"}
    free = [a for a in (hi - 3, hi - 5, 99, 77, 55, 33) if lo <= a <= hi and a not in used and a - 1 not in used]

    def reg(name, addr, fields):
        return adef.mk_register(name, addr, 8, fields)
    how = rng.choice(["enum_toplevel", "fieldset_name", "snake_methods", "setter_getter", "field_new", "object_interface",
                      "kw_field", "kw_object", "kw_self"])
    if how == "enum_toplevel":
        return rename_enum_like_toplevel(rng, d)
    if not free:
        return
    a = free[0]
    if how == "fieldset_name":
        cmds = [o for o, _ in adef.walk(d["objects"]) if o["kind"] == "command" and o.get("size_bits_in")]
        if cmds:
            d["objects"].append(reg(cmds[0]["name"] + "FieldsIn", a, [adef.mk_field("val", "uint", 0, 8)]))
    elif how == "snake_methods":
        d["objects"].append(reg("aB1c", a, [adef.mk_field("val", "uint", 0, 8)]))
        d["objects"].append(reg("ab1c", a - 1, [adef.mk_field("val", "uint", 0, 8)]))
    elif how == "setter_getter":
        d["objects"].append(reg("Rzy", a, [adef.mk_field("val", "uint", 0, 4, access="RW"), adef.mk_field("set_val", "uint", 4, 8, access="RW")]))
    elif how == "field_new":
        d["objects"].append(reg("Rzy", a, [adef.mk_field(rng.choice(["new", "new_zero"]), "uint", 0, 4, access="RW")]))
    elif how == "object_interface":
        d["objects"].append(reg(rng.choice(["Interface", "ReadAllRegisters", "New"]), a, [adef.mk_field("val", "uint", 0, 8)]))
    elif how == "kw_field":
        d["objects"].append(reg("Rzy", a, [adef.mk_field(rng.choice(["fn", "type", "match", "loop"]), "uint", 0, 4, access="RW")]))
        d["_manifest_only"] = True
    elif how == "kw_object":
        d["objects"].append(reg(rng.choice(["Match", "Loop", "Type", "Move"]), a, [adef.mk_field("val", "uint", 0, 8)]))
    elif how == "kw_self":
        d["objects"].append(reg("Self", a, [adef.mk_field("val", "uint", 0, 8)]))
        d["_manifest_only"] = True


def rename_enum_like_toplevel(rng, d):
    """D20: names_unique keeps objects and generated enums in separate namespaces, the emitted file does not: give one
    inline enum the name of a block (or of the driver struct)."""
    enums = []
    tops = ["Dev"] + [o["name"] for o, _ in adef.walk(d["objects"]) if o["kind"] == "block"]
    for o, _ in adef.walk(d["objects"]):
        for _, fs in adef.field_sets(o):
            for fl in fs:
                if fl["conv"] and fl["conv"]["type"] == "enum":
                    enums.append(fl["conv"])
    if enums:
        rng.choice(enums)["name"] = rng.choice(tops)


def inject_address_literal(rng, d):
    """D22: an address / offset / stride / index literal that does not fit the type of its position although every
    FINAL address fits (the internal address type is sized for the final addresses only).  Whether the shape really
    is in the class depends on the rest of the device (its internal address type): Emit.v decides on the real MIR."""
    cfg = d["config"]
    at = cfg.get("register_address_type") or "u8"
    lo, hi = adef.INT_RANGE[at]
    lo, hi = max(lo, -2 ** 31), min(hi, 2 ** 31 - 1)      # (the generator's own i64 arithmetic overflows near the i64 limits: D3c)
    fld = [adef.mk_field("val", "uint", 0, 8)]
    unsigned = lo == 0
    shape = rng.choice(["neg_in_block", "neg_in_block", "big_stride", "product", "index", "big_in_neg_block"])
    top = min(hi, 60000)
    if shape == "neg_in_block":
        off = top - rng.choice([0, 1, 5])
        a = -rng.choice([1, 2, 3])
        d["objects"].append(adef.mk_block("Rzw", [adef.mk_register("Rzv", a, 8, fld)], address_offset=off))
    elif shape == "big_stride":
        d["objects"].append(adef.mk_register("Rzv", top - 7, 8, fld, repeat={"count": 1, "stride": rng.choice([300, 70000, 2 ** 33])},
                                             access=rng.choice([None, "WO"])))
    elif shape == "product" and not unsigned:
        s_ = (hi + 1) // 2 + rng.choice([0, 1, 20])
        if -s_ >= lo and s_ <= hi:
            d["objects"].append(adef.mk_register("Rzv", -s_, 8, fld, repeat={"count": 3, "stride": s_}, access=rng.choice([None, "RO", "WO"])))
    elif shape == "index":
        d["objects"].append(adef.mk_register("Rzv", top - 9, 8, fld, repeat={"count": rng.choice([130, 260]), "stride": 0},
                                             allow_address_overlap=True, access=rng.choice([None, "RO"])))
    elif shape == "big_in_neg_block" and not unsigned and hi >= 32767:
        d["objects"].append(adef.mk_block("Rzw", [adef.mk_register("Rzv", 40000 if hi == 32767 else hi + 1 + 30000, 8, fld)],
                                          address_offset=-30000))


def add_enum_reuse(rng, d):
    """The documented reuse of a generated enum by name (`as Mode`) on other fields: an enum that is infallible because it
    covers every pattern of its own field (no fallback variant, so TryFrom only) reused on a NARROWER, an EQUAL and (with
    `try`) a WIDER field; one with a fallback reused infallibly on a wider field of the same integer type.  Every one of these
    compiles (seed C19-7 needed the narrower one)."""
    V = adef.mk_variant
    w = rng.choice([2, 3])
    cover = adef.mk_enum("ModeZq", [V("M" + "abcdefgh"[k]) for k in range(1 << w)], False)
    fb = adef.mk_enum("KindZq", [V("Ka"), V("Kb", 5), V("Kc", rng.choice(["default", "catch_all"]))], False)
    acc = lambda: rng.choice([None, "RW", "RO"])
    fields = [adef.mk_field("mode", "uint", 0, w, conv=cover, access=acc()),
              adef.mk_field("boot", "uint", 4, 4 + rng.randrange(1, w), conv=adef.mk_direct("ModeZq"), access=acc()),
              adef.mk_field("same", "uint", 8, 8 + w, conv=adef.mk_direct("ModeZq"), access=acc()),
              adef.mk_field("wide", "uint", 12, 12 + w + 1, conv=adef.mk_direct("ModeZq", True), access=acc()),
              adef.mk_field("kind", "uint", 16, 19, conv=fb, access=acc()),
              adef.mk_field("kinder", "uint", 20, 20 + rng.choice([2, 3, 6]), conv=adef.mk_direct("KindZq"), access=acc())]
    rng.shuffle(fields)
    cfg = d["config"]
    at = cfg.get("register_address_type")
    if at is None:
        return
    hi = adef.INT_RANGE[at][1]
    d["objects"].append(adef.mk_register("Rzq", min(hi, 100) - 4, 32, fields, byte_order="LE", allow_address_overlap=None))


def add_boundary_literal(rng, d):
    """An object whose address LITERAL sits exactly on / next to an integer-width boundary (every literal the emitter
    writes must be representable in the type of its position: internal address type, address type)."""
    cfg = d["config"]
    kind = rng.choice(["register", "command", "buffer"])
    at = cfg.get(kind + "_address_type") or "u8"
    lo, hi = adef.INT_RANGE[at]
    cands = [b for b in (127, 128, 255, 256, 32767, 32768, 65535, 65536, 2 ** 31 - 1, 2 ** 31, 2 ** 32 - 1,
                         -128, -129, -32768, -32769, -2 ** 31) if lo <= b <= hi]
    if not cands:
        return
    exact = [b for b in cands if b in (128, 256, 32768, 65536, 2 ** 31, -128, -32768, -2 ** 31)]
    a = rng.choice(exact) if exact and rng.random() < 0.8 else rng.choice(cands)
    if kind == "register":
        o = adef.mk_register("Rzz", a, 8, [adef.mk_field("val", "uint", 0, 8)])
    elif kind == "command":
        o = adef.mk_command("Rzz", a, basic=True)
    else:
        o = adef.mk_buffer("Rzz", a)
    d["objects"].append(o)


def run(ctx):
    info = vlib.coq_gate(ctx)
    exe, err = gen_common.build_gen_runner(ctx)
    if err:
        vlib.violation(ctx, {"broken": err}, no_input=True)
        vlib.write_evidence(ctx, info, {"evaluations": 0, "distinct_nontrivial": 0, "rule": RULE, "samples": []})
        return
    known = {k["id"]: k for k in vlib.load_known_findings("C19")}
    rng = random.Random(ctx.seed + 19)
    want_n = 160 if ctx.tier == "quick" else 900
    prof_clean = gendev.Profile(enum_same_name=True, enum_reuse=True)
    prof_dirty = gendev.Profile(wo_fields=True, neg_stride=True, block_refs=True, enum_same_name=True, enum_reuse=True)
    cases, defs = [], {}
    i = 0
    while len(cases) < want_n * 3 and i < want_n * 6:
        i += 1
        prof = prof_dirty if rng.random() < 0.25 else prof_clean
        d = gendev.gen_device(rng, prof)
        if rng.random() < 0.5:
            add_boundary_literal(rng, d)
        if rng.random() < 0.4:
            d["config"]["defmt_feature"] = "defmt"
        if rng.random() < 0.08:
            add_enum_reuse(rng, d)
        if rng.random() < 0.10:
            inject_identifier_clash(rng, d)
        if rng.random() < 0.10:
            inject_address_literal(rng, d)
        syntax = rng.choice(["dsl", "dsl", "json", "yaml", "toml"])
        if d.pop("_manifest_only", False) and syntax == "dsl":
            syntax = rng.choice(["json", "yaml", "toml"])
        if syntax != "dsl":
            # manifests cannot express u128 reset integers
            for o, _ in adef.walk(d["objects"]):
                if o["kind"] == "register" and isinstance(o.get("reset_value"), int) and o["reset_value"] >= 2 ** 63:
                    o["reset_value"] = o["reset_value"] % (2 ** 63)
        cid = f"m{len(cases)}"
        defs[cid] = d
        cases.append({"id": cid, "syntax": syntax, "text": adef.render(d, syntax, rng), "name": "Dev", "want": ["mir", "facts", "pretty"]})
    res = gen_common.run_gen(ctx, exe, cases)
    hist = collections.Counter()
    accepted = []
    viol = []
    # ---- the Coq model's verdict on the real MIR of every accepted definition: which obligation of wf_output fails
    terms = []
    for c in cases:
        r = res[c["id"]]
        if gen_common.canon_status(r) == "ok":
            try:
                t = gen_common.mir_term(r)
            except Exception:
                t = None
            if t:
                terms.append((c["id"], f'"Dev"%string (Names.names_normalized ({t}))'))
    pre = ("From Coq Require Import ZArith List Bool String.\nFrom DD Require Import Common Mir GenErr Emit.\nFrom DD Require Names.\n"
           "Import ListNotations.\nOpen Scope string_scope.\nOpen Scope Z_scope.\n")
    mraw = vlib.coq_eval_strings(ctx, pre, [(i, "show_obligations " + t) for i, t in terms], shard_size=40, tag="c19model")
    model_cls = {}
    for cid, v in mraw.items():
        if v.startswith("<<COQ-ERROR"):
            viol.append(([c for c in cases if c["id"] == cid][0], "model evaluation failed", v[:300]))
        else:
            model_cls[cid] = set(x for x in v.split(",") if x)
    parse_known = collections.Counter()
    for c in cases:
        r = res[c["id"]]
        st = gen_common.canon_status(r)
        hist["gen_" + (st if st in ("ok", "panic", "abort") else "rejected")] += 1
        if st in ("panic", "abort"):
            viol.append((c, "generator " + st, r.get("message")))
        if st != "ok":
            continue
        if not r.get("parse_ok"):
            if "D21" in model_cls.get(c["id"], ()) and "D21" in known:
                parse_known["D21"] += 1      # a Rust keyword written as an identifier: the recorded way this class fails
                continue
            viol.append((c, "output is not a syntactically valid Rust file", r.get("parse_error")))
            continue
        if "D21" in model_cls.get(c["id"], ()):
            viol.append((c, "Emit.v predicts a keyword identifier (D21) but the output parses as Rust: the model of the emitted identifiers "
                            "no longer matches the emitter", sorted(model_cls[c["id"]])))
            continue
        # (the accessor-name oracle below knows simple names only; the injected clash names are judged by the model)
        bad = [] if ({"D20", "D21"} & model_cls.get(c["id"], set())) else declared_vs_emitted(defs[c["id"]], r["facts"])
        if bad:
            viol.append((c, "accessors do not match the declared objects", bad[:3]))
        if len(accepted) < want_n:
            accepted.append(c)
    feats = set()
    for c in accepted:
        feats.add(tuple(sorted(features(defs[c["id"]]).items())))
    # Two crates: definitions predicted to fall in a known non-compiling class are kept apart, because rustc stops
    # before its lint passes (overflowing literals ...) once any module has a type error, which would mask new defects
    # in the clean definitions.
    per_mod = collections.defaultdict(list)
    other_errors = []
    mods = {}
    LINT = {"D17", "D22L"}
    PY = {"D7", "D9", "D12", "D16", "D17"}          # classes the python oracle computes from the abstract definition
    pred_of = {}
    for c in accepted:
        cid = c["id"]
        py = predicted_classes(defs[cid])
        mc = model_cls.get(cid)
        if mc is not None and (py & PY) != (mc & PY):
            viol.append((c, "Emit.v on the real MIR and the oracle on the abstract definition disagree on the failing obligations",
                         {"model": sorted(mc), "oracle": sorted(py)}))
        pred_of[cid] = py | (mc or set())
    for crate, group in (("c19clean", [c for c in accepted if not pred_of[c["id"]]]),
                         ("c19lint", [c for c in accepted if pred_of[c["id"]] and pred_of[c["id"]] <= LINT]),
                         ("c19known", [c for c in accepted if pred_of[c["id"]] - LINT])):
        gm = {c["id"]: res[c["id"]]["pretty"] for c in group}
        mods.update(gm)
        if not gm:
            continue
        l2.write_crate(ctx, crate, gm, "fn main() {}\n", features=["defmt"], with_defmt=True)
        # `cargo build`, not `cargo check`, for the crates that have no type error: the deny-by-default lint
        # arithmetic_overflow (a constant product of read_all_registers that overflows its type: D22L) is only raised when
        # code is generated.  The crate of the known type-error classes stops at the type errors either way.
        ok, out = l2.build(ctx, crate, check_only=(crate == "c19known"), message_format_json=True, timeout=2400)
        hist[crate + "_modules"] = len(gm)
        if crate == "c19clean":
            # the same modules once more with the definitions' DefmtFeature switched on: the `impl defmt::Format` items
            ok2, out2 = l2.build(ctx, crate, check_only=True, message_format_json=True, timeout=2400, cargo_features=["defmt"])
            out = out + "\n" + out2
            hist["c19clean_checked_with_defmt_feature"] = 1
        for line in out.splitlines():
            if not line.startswith("{"):
                continue
            try:
                m = json.loads(line)
            except json.JSONDecodeError:
                continue
            if m.get("reason") != "compiler-message":
                continue
            dg = m["message"]
            if dg.get("level") != "error":
                continue
            spans = [s for s in dg.get("spans", []) if s.get("is_primary")] or dg.get("spans", [])
            fn = spans[0]["file_name"] if spans else ""
            mod = os.path.basename(fn)[:-3] if fn.endswith(".rs") else ""
            if mod in gm:
                per_mod[mod].append(dg)
            elif "aborting due to" not in dg.get("message", "") and "could not compile" not in dg.get("message", ""):
                other_errors.append(dg.get("message", "")[:200])
        l2.cleanup(ctx, crate)
    known_seen = collections.Counter()
    for c in accepted:
        cid = c["id"]
        pred = pred_of[cid]
        errs = per_mod.get(cid, [])
        kinds = {classify_error(e) for e in errs}
        if not errs and model_cls.get(cid):
            viol.append((c, "Emit.v predicts that this output does not compile (failing obligation) but rustc accepts it: the model of "
                            "the emitted items no longer matches the emitter", sorted(model_cls[cid])))
        hist["compile_" + ("ok" if not errs else "error")] += 1
        if "D9" in kinds and "D9" not in pred and "D20" in pred:      # same rustc codes (E0428 ...): a duplicated top-level name
            kinds = (kinds - {"D9"}) | {"D20"}
            if "D20" in known:          # everything else in that module is a consequence of the name being defined twice
                kinds = {k for k in kinds if k == "D20" or k in pred}
        unexpected = [k for k in kinds if not (k in pred and kid(k) in known)]
        if unexpected:
            e0 = ([e for e in errs if classify_error(e) in unexpected] or errs)[0]
            viol.append((c, "accepted definition does not type-check", {"error": e0.get("message"), "code": (e0.get("code") or {}).get("code"),
                                                                        "rendered": (e0.get("rendered") or "")[:1500]}))
        for k in kinds:
            if k in pred and kid(k) in known:
                known_seen[kid(k)] += 1
    if other_errors and not per_mod:
        viol.append(({"syntax": None, "text": ""}, "probe crate failed outside the generated modules", other_errors[:3]))
    known_seen.update(parse_known)
    for k, n in sorted(known_seen.items()):
        vlib.known_finding(ctx, known[k], f"{n} accepted definition(s) of this class fail to compile as recorded")
    if viol:
        viol.sort(key=lambda v: len(v[0].get("text") or ""))
        c, what, detail = viol[0]
        vlib.violation(ctx, {"what": what, "failing_input": {"syntax": c.get("syntax"), "text": c.get("text")},
                             "implementation": detail, "disagreements": len(viol)})
    elif not info["ok"]:
        vlib.violation(ctx, {"broken": info["reason"], "theorem": "props/C19.v"}, no_input=True)
    samples = [{"syntax": c["syntax"], "text": c["text"][:700], "compiled": "error" if per_mod.get(c["id"]) else "ok",
                "classes": sorted(predicted_classes(defs[c["id"]]))} for c in accepted[:3]]
    vlib.write_evidence(ctx, info, {"evaluations": len(cases), "distinct_nontrivial": len(feats), "rule": RULE,
                                    "samples": samples, "input_distribution": dict(hist), "compiled_definitions": len(accepted),
                                    "known_classes_seen": dict(known_seen), "disagreements": len(viol)})


def replay(ctx, path):
    d = json.load(open(path))
    fi = d.get("failing_input") or {}
    if not fi.get("text"):
        run(ctx)
        return
    exe, err = gen_common.build_gen_runner(ctx)
    r = gen_common.run_gen(ctx, exe, [{"id": "r", "syntax": fi["syntax"], "text": fi["text"], "name": "Dev", "want": ["pretty"]}])["r"]
    if r.get("status") != "ok":
        ctx.log("generator now rejects it:", r.get("message"))
        return
    l2.write_crate(ctx, "c19replay", {"r": r["pretty"]}, "fn main() {}\n", features=["defmt"])
    ok, out = l2.build(ctx, "c19replay", check_only=False)
    ctx.log("compiles:", ok)
    if not ok:
        vlib.violation(ctx, {"failing_input": fi, "implementation": out[-1500:]})
    l2.cleanup(ctx, "c19replay")
