"""Shared plumbing for generator-level checks: run real definitions through harness/gen_runner, obtain the
MIR the real front end produced, evaluate a Coq model function on it, and compare."""
import json, os, subprocess, sys
import vlib
import rustdebug, errmap


def build_gen_runner(ctx):
    ok, log = vlib.cargo_build(["gen_runner"])
    if not ok:
        return None, "cargo build of gen_runner against /repo failed: " + log[-2000:]
    return vlib.bin_path("gen_runner"), None


def _cap_memory():
    import resource
    lim = 4 * 1024 ** 3
    resource.setrlimit(resource.RLIMIT_AS, (lim, lim))


def run_gen(ctx, exe, cases, tag="gen", timeout=1200):
    """cases: list of dicts {"id","syntax","text","name","want"}. Returns dict id -> result dict.
    A case that kills the process (stack overflow / abort) is reported with status "abort"."""
    results = {}
    pending = list(cases)
    guard = 0
    while pending and guard < 200:
        guard += 1
        path = os.path.join(ctx.work, f"{tag}_cases.jsonl")
        with open(path, "w") as f:
            for c in pending:
                f.write(json.dumps(c) + "\n")
        # address-space cap (4 GB): a generator that expands without bound (a cyclic block-ref definition reaching the
        # collision pass, should refs_validated ever let one through again) must die by itself, quickly and observably
        # (status "abort"), not by the kernel's global OOM killer
        p = subprocess.run([exe, path], stdout=subprocess.PIPE, stderr=subprocess.DEVNULL, timeout=timeout,
                           preexec_fn=_cap_memory)
        out = p.stdout.decode(errors="replace").splitlines()
        n = 0
        for line in out:
            try:
                r = json.loads(line)
            except json.JSONDecodeError:
                break
            results[r["id"]] = r
            n += 1
        if n >= len(pending):
            pending = []
        else:
            killer = pending[n]
            results[killer["id"]] = {"id": killer["id"], "status": "abort", "message": f"process died (rc={p.returncode})"}
            pending = pending[n + 1:]
        os.remove(path)
    for c in pending:
        # more process deaths than the retry budget: the rest was never run; say so instead of leaving holes
        results[c["id"]] = {"id": c["id"], "status": "abort", "message": "not run: the generator process died on too many earlier cases of this batch"}
    return results


def canon_status(r):
    """-> 'ok' | 'error:<kind>:<args>' | 'panic' | 'abort'"""
    st = r.get("status")
    if st == "ok":
        return "ok"
    if st == "error":
        return "error:" + errmap.classify(r.get("message"))
    return st


def mir_term(r):
    m = r.get("mir")
    if not m or m.startswith("ERR:"):
        return None
    return rustdebug.mir_to_coq(m)


PREAMBLE = """From Coq Require Import ZArith List Bool String.
From DD Require Import Common Mir GenErr {mods}.
Import ListNotations.
Open Scope string_scope.
Open Scope Z_scope.
"""


def eval_model(ctx, modules, fn, id_terms, tag="model"):
    """id_terms: list of (id, coq device term). Evaluates `fn <term>` (must return string)."""
    pre = PREAMBLE.format(mods=" ".join(modules))
    return vlib.coq_eval_strings(ctx, pre, [(i, f"{fn} ({t})") for i, t in id_terms], tag=tag)


def reworded_ok(result, model_status):
    """A rejection whose message text no longer matches any known wording (tools/errmap.py gives `other:`), while the
    model also rejects and every subject name the model's error carries occurs in the real message: the definition is
    still rejected by a compile error naming the object(s), which is all the properties ask — a rewording of a message
    is not a violation."""
    if result.get("status") != "error" or not model_status.startswith(("error:", "oneof:")):
        return False
    if not errmap.classify(result.get("message")).startswith("other:"):
        return False
    msg = result.get("message") or ""
    alts = model_status.split(":", 1)[1].split(";") if model_status.startswith("oneof:") else [model_status[len("error:"):]]
    for a in alts:
        parts = a.split(":", 1)
        args = [x for x in (parts[1].split("|") if len(parts) > 1 else []) if x]
        if all(x in msg for x in args):
            return True
    return False
