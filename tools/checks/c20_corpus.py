"""C20 corpus: abstract definitions, renderers to the four syntaxes, Coq terms for the Determ.v model,
and the scripted-call generator for the macro-vs-CLI probe crate.

Abstract definition (python dict):
  {"config": {manifest_key: value, ...}, "objects": [obj, ...]}
  obj  = {"kind": "register", "name", "address", "size_bits", "fields": [field...], optional: access, byte_order,
          bit_order, reset_value (int | [u8]), repeat {count, stride}, allow_address_overlap, allow_bit_overlap,
          cfg, description}
       | {"kind": "command", "name", "address", optional size_bits_in/fields_in/size_bits_out/fields_out, ...}
       | {"kind": "buffer", "name", "address", optional access}
       | {"kind": "block", "name", optional address_offset, repeat, "objects": [...]}
       | {"kind": "ref", "name", "target", "ref_kind": register|command|block, "override": {address, reset_value, ...}}
  field = {"name", "base": bool|uint|int, "start", "end" (exclusive; None = single bit), optional access,
           "enum": {"name", "variants": [(name, None|int|"default"|"catch_all")], "try": bool}}
Names are given in the case the generator normalises to (PascalCase objects, snake_case fields).
"""
import json

ACCESS = ["RW", "RO", "WO"]

CFG_DSL = {
    "default_register_access": "DefaultRegisterAccess", "default_field_access": "DefaultFieldAccess",
    "default_buffer_access": "DefaultBufferAccess", "default_byte_order": "DefaultByteOrder",
    "default_bit_order": "DefaultBitOrder", "register_address_type": "RegisterAddressType",
    "command_address_type": "CommandAddressType", "buffer_address_type": "BufferAddressType",
    "defmt_feature": "DefmtFeature",
}


# ---------------------------------------------------------------------------------------------- DSL

def _dsl_int(v):
    return str(v)


def _dsl_reset(v):
    if isinstance(v, list):
        return "[" + ", ".join(str(x) for x in v) + "]"
    return hex(v) if v >= 0 else str(v)


def _dsl_attrs(o, ind):
    s = ""
    if o.get("description"):
        s += f'{ind}#[doc = {json.dumps(o["description"])}]\n'
    if o.get("cfg"):
        s += f'{ind}#[cfg({o["cfg"]})]\n'
    return s


def _dsl_repeat(r, ind):
    return f'{ind}const REPEAT = {{ count: {r["count"]}, stride: {r["stride"]} }};\n'


def _dsl_field(f, ind):
    s = _dsl_attrs(f, ind)
    s += f'{ind}{f["name"]}: '
    if f.get("access"):
        s += f["access"] + " "
    s += f["base"]
    if f.get("enum"):
        e = f["enum"]
        s += " as " + ("try " if e.get("try") else "") + f'enum {e["name"]} {{ '
        vs = []
        for n, v in e["variants"]:
            vs.append(n if v is None else f"{n} = {v}")
        s += ", ".join(vs) + " }"
    elif f.get("conv"):
        s += " as " + ("try " if f.get("try") else "") + f["conv"]
    if f.get("end") is None:
        s += f' = {f["start"]}'
    else:
        s += f' = {f["start"]}..{f["end"]}'
    return s + ",\n"


def _dsl_common_items(o, ind, is_ref_override=False):
    s = ""
    if o.get("access") and o.get("kind", "register") == "register":
        s += f'{ind}type Access = {o["access"]};\n'
    if o.get("byte_order"):
        s += f'{ind}type ByteOrder = {o["byte_order"]};\n'
    if o.get("bit_order"):
        s += f'{ind}type BitOrder = {o["bit_order"]};\n'
    if o.get("address") is not None:
        s += f'{ind}const ADDRESS = {o["address"]};\n'
    if o.get("size_bits") is not None:
        s += f'{ind}const SIZE_BITS = {o["size_bits"]};\n'
    if o.get("size_bits_in") is not None:
        s += f'{ind}const SIZE_BITS_IN = {o["size_bits_in"]};\n'
    if o.get("size_bits_out") is not None:
        s += f'{ind}const SIZE_BITS_OUT = {o["size_bits_out"]};\n'
    if o.get("reset_value") is not None:
        s += f'{ind}const RESET_VALUE = {_dsl_reset(o["reset_value"])};\n'
    if o.get("repeat"):
        s += _dsl_repeat(o["repeat"], ind)
    if o.get("allow_bit_overlap") is not None:
        s += f'{ind}const ALLOW_BIT_OVERLAP = {"true" if o["allow_bit_overlap"] else "false"};\n'
    if o.get("allow_address_overlap") is not None:
        s += f'{ind}const ALLOW_ADDRESS_OVERLAP = {"true" if o["allow_address_overlap"] else "false"};\n'
    return s


def _dsl_object(o, ind):
    k = o["kind"]
    s = _dsl_attrs(o, ind)
    i2 = ind + "    "
    if k == "register":
        s += f'{ind}register {o["name"]} {{\n' + _dsl_common_items(o, i2)
        for f in o.get("fields", []):
            s += _dsl_field(f, i2)
        s += ind + "}"
    elif k == "command":
        if set(o) <= {"kind", "name", "address", "description", "cfg"}:
            s += f'{ind}command {o["name"]} = {o["address"]}'
        else:
            s += f'{ind}command {o["name"]} {{\n' + _dsl_common_items(o, i2)
            if o.get("fields_in") is not None:
                s += i2 + "in {\n" + "".join(_dsl_field(f, i2 + "    ") for f in o["fields_in"]) + i2 + "}\n"
            if o.get("fields_out") is not None:
                s += i2 + "out {\n" + "".join(_dsl_field(f, i2 + "    ") for f in o["fields_out"]) + i2 + "}\n"
            s += ind + "}"
    elif k == "buffer":
        s += f'{ind}buffer {o["name"]}'
        if o.get("access"):
            s += ": " + o["access"]
        s += f' = {o["address"]}'
    elif k == "block":
        s += f'{ind}block {o["name"]} {{\n'
        if o.get("address_offset") is not None:
            s += f'{i2}const ADDRESS_OFFSET = {o["address_offset"]};\n'
        if o.get("repeat"):
            s += _dsl_repeat(o["repeat"], i2)
        s += ",\n".join(_dsl_object(c, i2) for c in o.get("objects", []))
        s += ("\n" if o.get("objects") else "") + ind + "}"
    elif k == "ref":
        ov = dict(o.get("override", {}))
        rk = o["ref_kind"]
        s += f'{ind}ref {o["name"]} = {rk} {o["target"]} {{\n'
        if rk == "block":
            if ov.get("address_offset") is not None:
                s += f'{i2}const ADDRESS_OFFSET = {ov["address_offset"]};\n'
            if ov.get("repeat"):
                s += _dsl_repeat(ov["repeat"], i2)
        else:
            ov["kind"] = rk
            s += _dsl_common_items(ov, i2)
        s += ind + "}"
    else:
        raise ValueError(k)
    return s


def to_dsl(d):
    s = ""
    cfg = d.get("config") or {}
    if cfg:
        s += "config {\n"
        for k, v in cfg.items():
            if k == "name_word_boundaries":
                s += f'    type NameWordBoundaries = {json.dumps(v) if isinstance(v, str) else "[" + ", ".join(v) + "]"};\n'
            elif k == "defmt_feature":
                s += f'    type DefmtFeature = {json.dumps(v)};\n'
            else:
                s += f"    type {CFG_DSL[k]} = {v};\n"
        s += "}\n"
    s += ",\n".join(_dsl_object(o, "") for o in d["objects"])
    if d["objects"]:
        s += "\n"
    return s


# ---------------------------------------------------------------------------------------------- manifest tree

def _auto_number(variants):
    out = []
    nxt = 0
    for n, v in variants:
        if v is None:
            v = nxt
        if isinstance(v, int):
            nxt = v + 1
        out.append((n, v))
    return out


def _m_field(f, explicit_enum_values):
    m = {}
    if f.get("cfg"):
        m["cfg"] = f["cfg"]
    if f.get("description"):
        m["description"] = f["description"]
    if f.get("access"):
        m["access"] = f["access"]
    m["base"] = f["base"]
    if f.get("enum"):
        e = f["enum"]
        conv = {"name": e["name"]}
        vs = _auto_number(e["variants"]) if explicit_enum_values else e["variants"]
        for n, v in vs:
            conv[n] = v
        m["try_conversion" if e.get("try") else "conversion"] = conv
    elif f.get("conv"):
        m["try_conversion" if f.get("try") else "conversion"] = f["conv"]
    m["start"] = f["start"]
    if f.get("end") is not None:
        m["end"] = f["end"]
    return m


_COPY = ["cfg", "description", "access", "byte_order", "bit_order", "address", "size_bits", "reset_value", "repeat",
         "allow_bit_overlap", "allow_address_overlap", "size_bits_in", "size_bits_out", "address_offset"]


def _m_object(o, xe):
    k = o["kind"]
    m = {"type": k}
    if k == "ref":
        if o.get("cfg"):
            m["cfg"] = o["cfg"]
        if o.get("description"):
            m["description"] = o["description"]
        m["target"] = o["target"]
        ov = {"type": o["ref_kind"]}
        for key in _COPY:
            if o.get("override", {}).get(key) is not None:
                ov[key] = o["override"][key]
        m["override"] = ov
        return m
    for key in _COPY:
        if o.get(key) is not None:
            m[key] = o[key]
    if k == "register" and o.get("fields"):
        m["fields"] = {f["name"]: _m_field(f, xe) for f in o["fields"]}
    if k == "command":
        if o.get("fields_in") is not None:
            m["fields_in"] = {f["name"]: _m_field(f, xe) for f in o["fields_in"]}
        if o.get("fields_out") is not None:
            m["fields_out"] = {f["name"]: _m_field(f, xe) for f in o["fields_out"]}
    if k == "block":
        m["objects"] = {c["name"]: _m_object(c, xe) for c in o.get("objects", [])}
    return m


def to_tree(d, explicit_enum_values=False):
    """Manifest value tree.  Duplicate object names cannot be expressed in a map: later wins (callers that
    want a duplicate-name rejection use DSL or duplicate *field-level* constructs)."""
    t = {}
    if d.get("config"):
        t["config"] = dict(d["config"])
    for o in d["objects"]:
        t[o["name"]] = _m_object(o, explicit_enum_values)
    return t


def to_json(d):
    return json.dumps(to_tree(d), indent=2) + "\n"


def _yaml_scalar(v):
    if v is None:
        return "null"
    if isinstance(v, bool):
        return "true" if v else "false"
    if isinstance(v, int):
        return str(v)
    if isinstance(v, list):
        return "[" + ", ".join(_yaml_scalar(x) for x in v) + "]"
    return json.dumps(v)          # double-quoted string: valid YAML


def _yaml(t, ind):
    s = ""
    for k, v in t.items():
        if isinstance(v, dict):
            if v:
                s += f"{ind}{k}:\n" + _yaml(v, ind + "  ")
            else:
                s += f"{ind}{k}: {{}}\n"
        else:
            s += f"{ind}{k}: {_yaml_scalar(v)}\n"
    return s


def to_yaml(d):
    return _yaml(to_tree(d), "")


def _toml_scalar(v):
    if isinstance(v, bool):
        return "true" if v else "false"
    if isinstance(v, int):
        return str(v)
    if isinstance(v, list):
        return "[" + ", ".join(_toml_scalar(x) for x in v) + "]"
    if v is None:
        raise ValueError("TOML has no null")
    return json.dumps(v)


def _toml_key(k):
    return k if k.replace("_", "").replace("-", "").isalnum() else json.dumps(k)


def _toml(t, path):
    s = ""
    scal = [(k, v) for k, v in t.items() if not isinstance(v, dict)]
    subs = [(k, v) for k, v in t.items() if isinstance(v, dict)]
    if path and (scal or not subs):
        s += "[" + ".".join(_toml_key(p) for p in path) + "]\n"
    for k, v in scal:
        s += f"{_toml_key(k)} = {_toml_scalar(v)}\n"
    if scal or (path and not subs):
        s += "\n"
    for k, v in subs:
        s += _toml(v, path + [k])
    return s


def to_toml(d):
    return _toml(to_tree(d, explicit_enum_values=True), [])


RENDER = {"dsl": to_dsl, "json": to_json, "yaml": to_yaml, "toml": to_toml}
SYNTAXES = ["dsl", "json", "yaml", "toml"]


# ---------------------------------------------------------------------------------------------- Coq model term

def _coq_str(s):
    return '"' + s.replace('"', '""') + '"'


def _coq_opt_z(v):
    if v is None or isinstance(v, list):
        # array reset values: the model's conversion is a parameter; arrays are passed as an opaque 0
        return "None" if v is None else "(Some 0%Z)"
    return f"(Some ({v})%Z)"


def flat_objects(d):
    out = []

    def rec(objs, depth):
        for o in objs:
            out.append((depth, o))
            if o["kind"] == "block":
                rec(o.get("objects", []), depth + 1)
    rec(d["objects"], 0)
    return out


def to_coq_device(d):
    """`device` term for Determ.v (pre-order object list)."""
    items = []
    for depth, o in flat_objects(d):
        k = o["kind"]
        if k == "block":
            kind = "OBlock"
        elif k == "register":
            kind = f"(ORegister {_coq_opt_z(o.get('reset_value'))})"
        elif k == "command":
            kind = "OCommand"
        elif k == "buffer":
            kind = "OBuffer"
        else:
            rk = {"register": "KRegister", "command": "KCommand", "block": "KBlock"}[o["ref_kind"]]
            rv = o.get("override", {}).get("reset_value") if o["ref_kind"] == "register" else None
            kind = f"(ORef {rk} {_coq_str(o['target'])} {_coq_opt_z(rv)})"
        items.append(f"{{| o_depth := {depth}; o_name := {_coq_str(o['name'])}; o_cfg := {_coq_str(o.get('cfg') or '')}; o_kind := {kind} |}}")
    return "[" + "; ".join(items) + "]"


# ---------------------------------------------------------------------------------------------- base corpus

def F(name, base, start, end=None, **kw):
    d = {"name": name, "base": base, "start": start, "end": end}
    d.update(kw)
    return d


def REG(name, address, size_bits, fields, **kw):
    d = {"kind": "register", "name": name, "address": address, "size_bits": size_bits, "fields": fields}
    d.update(kw)
    return d


def CMD(name, address, **kw):
    d = {"kind": "command", "name": name, "address": address}
    d.update(kw)
    return d


def BUF(name, address, access=None):
    d = {"kind": "buffer", "name": name, "address": address}
    if access:
        d["access"] = access
    return d


def BLK(name, objects, **kw):
    d = {"kind": "block", "name": name, "objects": objects}
    d.update(kw)
    return d


def REF(name, ref_kind, target, **override):
    return {"kind": "ref", "name": name, "ref_kind": ref_kind, "target": target, "override": override}


U8LE = {"register_address_type": "u8", "default_byte_order": "LE"}


def accepted_corpus():
    c = {}
    c["regs_basic"] = {"config": dict(U8LE), "objects": [
        REG("Foo", 0, 24, [F("value_a", "bool", 0, 1), F("value_b", "uint", 1, 16), F("value_c", "int", 16, 24)]),
        REG("Bar", 3, 8, [F("low", "uint", 0, 4), F("flag", "bool", 7)], access="RO"),
    ]}
    c["regs_reset_orders"] = {"config": {"register_address_type": "u16"}, "objects": [
        REG("ResetInt", 0x10, 16, [F("val", "uint", 0, 16)], reset_value=0x1234, byte_order="BE"),
        REG("ResetArr", 0x12, 16, [F("val", "uint", 0, 16)], reset_value=[0x12, 0x34], byte_order="LE"),
        REG("Msb", 0x14, 16, [F("hi", "uint", 0, 4), F("rest", "uint", 4, 16)], bit_order="MSB0", byte_order="BE", reset_value=1),
        REG("Tiny", 0x16, 8, [F("b", "bool", 3)]),
    ]}
    c["enums"] = {"config": dict(U8LE), "objects": [
        REG("Mode", 1, 8, [
            F("sel", "uint", 0, 2, enum={"name": "Sel", "variants": [("A", None), ("B", None), ("C", None), ("D", None)]}),
            F("lvl", "uint", 2, 5, enum={"name": "Lvl", "variants": [("Low", 0), ("High", 5), ("Other", "default")]}),
            F("raw", "uint", 5, 8, enum={"name": "Raw", "variants": [("One", 1), ("Rest", "catch_all")]}),
        ]),
        REG("TryMode", 2, 8, [
            F("t", "uint", 0, 4, enum={"name": "TrySel", "try": True, "variants": [("X", 1), ("Y", 2)]}),
            F("s", "int", 4, 8),
        ]),
    ]}
    c["commands"] = {"config": {"command_address_type": "u8", "default_byte_order": "LE"}, "objects": [
        CMD("Simple", 0),
        CMD("Input", 1, size_bits_in=16, fields_in=[F("val", "uint", 0, 16)]),
        CMD("Output", 2, size_bits_out=8, fields_out=[F("val", "uint", 0, 8)]),
        CMD("InOut", 3, size_bits_in=16, fields_in=[F("val", "uint", 0, 16)], size_bits_out=8, fields_out=[F("res", "uint", 0, 8)]),
    ]}
    c["buffers"] = {"config": {"buffer_address_type": "u32"}, "objects": [
        BUF("RoBuf", 0, "RO"), BUF("WoBuf", 1, "WO"), BUF("RwBuf", 70000, "RW"), BUF("DefBuf", 3),
    ]}
    c["blocks"] = {"config": dict(U8LE), "objects": [
        BLK("Outer", [
            REG("Inner", 1, 8, [F("v", "uint", 0, 8)]),
            BLK("Deep", [REG("Leaf", 2, 16, [F("w", "uint", 0, 16)])], address_offset=20),
        ], address_offset=10, repeat={"count": 2, "stride": 40}),
        REG("Top", 0, 8, [F("v", "uint", 0, 8)]),
    ]}
    c["refs"] = {"config": {"register_address_type": "u8", "command_address_type": "u8", "default_byte_order": "LE"}, "objects": [
        REG("Foo", 0, 24, [F("val", "int", 0, 24)], reset_value=1),
        REF("FooRef", "register", "Foo", address=3, reset_value=2),
        CMD("Go", 7, size_bits_in=8, fields_in=[F("x", "uint", 0, 8)]),
        REF("GoAgain", "command", "Go", address=9),
        BLK("Blk", [REF("InBlk", "register", "Foo", address=30)], address_offset=64),
    ]}
    c["repeats_overlap"] = {"config": dict(U8LE), "objects": [
        REG("Rep", 10, 8, [F("v", "uint", 0, 8)], repeat={"count": 3, "stride": 2}, allow_address_overlap=True),
        REG("Shadow", 10, 8, [F("s", "uint", 0, 8)], allow_address_overlap=True, access="RO"),
        REG("Bits", 20, 8, [F("a", "uint", 0, 6), F("b", "uint", 4, 8)], allow_bit_overlap=True),
    ]}
    c["cfg_docs"] = {"config": dict(U8LE), "objects": [
        REG("Gated", 0, 8, [F("v", "uint", 0, 8, description="the value")], cfg='feature = "gated"', description="A gated register"),
        REG("Plain", 1, 8, [F("v", "uint", 0, 4, cfg='feature = "gated"'), F("w", "uint", 4, 8)], description="Plain one"),
        BUF("B", 2),
    ]}
    c["cfg_docs"]["config"]["buffer_address_type"] = "u8"
    c["signed_addr"] = {"config": {"register_address_type": "i16", "command_address_type": "u16", "default_byte_order": "BE"}, "objects": [
        REG("Neg", -5, 16, [F("v", "int", 0, 16)]),
        REG("Pos", 300, 32, [F("lo", "uint", 0, 16), F("hi", "uint", 16, 32)], access="RW"),
        CMD("Far", 60000),
    ]}
    c["defaults"] = {"config": {"register_address_type": "u8", "buffer_address_type": "u8", "default_byte_order": "LE",
                                "default_register_access": "RO", "default_field_access": "RO", "default_buffer_access": "RO",
                                "default_bit_order": "MSB0", "defmt_feature": "defmt"}, "objects": [
        REG("Foo", 3, 8, [F("value", "uint", 0, 4)]),
        BUF("Buf", 1),
    ]}
    c["mixed"] = {"config": {"register_address_type": "u8", "command_address_type": "u16", "buffer_address_type": "u32",
                             "default_byte_order": "LE"}, "objects": [
        BLK("Bar", [REG("Foo", 0, 24, [F("value_x", "bool", 0, 1, description="This is a bool!"), F("value_y", "uint", 1, 16),
                                      F("value_z", "int", 16, 24)], description="This is the Foo register")],
            address_offset=10, repeat={"count": 2, "stride": 20}),
        CMD("InOut", 3, size_bits_in=16, fields_in=[F("val", "uint", 0, 16)], size_bits_out=8, fields_out=[F("val", "uint", 0, 8)],
            description="A command with inputs and outputs"),
        BUF("WoBuf", 1, "WO"),
        REF("FooRef", "register", "Foo", address=3, reset_value=2),
    ]}
    # several refs of ONE register that each override the reset value (one constructor per ref, in declaration order)
    c["refs_many_reset_overrides"] = {"config": dict(U8LE), "objects": [
        REG("Status", 0, 8, [F("v", "uint", 0, 8)], reset_value=1)] + [
        REF("StatusPage%d" % k, "register", "Status", address=10 + k, reset_value=16 + k) for k in range(1, 8)] + [
        BLK("Holder", [REF("Deep%d" % k, "register", "Status", address=k, reset_value=64 + k) for k in range(1, 4)], address_offset=64)]}
    c["empty"] = {"config": dict(U8LE), "objects": []}
    # one set of raw names under different word-boundary configurations (they normalise differently in each)
    for tag, nwb in (("default", None), ("underscore", ["Underscore"]), ("lowerupper", ["LowerUpper"]), ("digits", ["LowerDigit", "DigitLower"]),
                     ("none", [])):
        cfg = dict(U8LE)
        if nwb is not None:
            cfg["name_word_boundaries"] = nwb
        c["names_" + tag] = {"config": cfg, "objects": [
            REG("chipId", 0, 8, [F("revId", "uint", 0, 4), F("adc_2ch", "uint", 4, 8)]),
            REG("adc_2ch", 1, 8, [F("my_Reg2a", "uint", 0, 8, enum={"name": "powerMode", "variants": [("lowPower", 0), ("full_on", "default")]})]),
            BLK("subBlock_1", [REG("inner_reg", 0, 8, [F("v", "uint", 0, 8)])], address_offset=16),
        ]}
    # two refs to the same *existing* target, and a ref whose target is defined later and deeper
    c["refs_shared_target"] = {"config": dict(U8LE), "objects": [
        REF("EarlyRef", "register", "Late", address=50),
        REF("Again", "register", "Late", address=51),
        BLK("Holder", [REG("Late", 1, 8, [F("v", "uint", 0, 8)])], address_offset=8),
    ]}
    return c


def _dangling_regs(n, with_real=True):
    objs = [REG("Real", 0, 8, [F("v", "uint", 0, 8)])] if with_real else []
    for i in range(n):
        objs.append(REF("R%s" % chr(97 + i), "register", "X%d" % (i + 1), address=10 + i))
    return objs


def rejected_corpus():
    """name -> (definition, tag).  tag: what is expected to reject it (documentation + histogram only)."""
    r = {}
    r["dup_field"] = ({"config": dict(U8LE), "objects": [REG("Foo", 0, 8, [F("a", "uint", 0, 4), F("A", "uint", 4, 8)])]}, "names_unique")
    r["dup_enum_name"] = ({"config": dict(U8LE), "objects": [
        REG("Foo", 0, 8, [F("a", "uint", 0, 1, enum={"name": "E", "variants": [("P", 0), ("Q", 1)]}),
                          F("b", "uint", 1, 2, enum={"name": "E", "variants": [("P", 0), ("Q", 1)]})])]}, "names_unique")
    r["dangling_one"] = ({"config": dict(U8LE), "objects": _dangling_regs(1)}, "refs")
    r["dangling_two"] = ({"config": dict(U8LE), "objects": _dangling_regs(2)}, "refs")
    r["dangling_four_d13"] = ({"config": {"register_address_type": "u8"}, "objects": _dangling_regs(4, with_real=False)}, "refs")
    r["dangling_six"] = ({"config": dict(U8LE), "objects": _dangling_regs(6)}, "refs")
    r["dangling_same_target_twice"] = ({"config": dict(U8LE), "objects": [
        REG("Real", 0, 8, [F("v", "uint", 0, 8)]),
        REF("First", "register", "Missing", address=4), REF("Second", "register", "Missing", address=5)]}, "refs")
    r["dangling_block_hides_registers"] = ({"config": dict(U8LE), "objects": [
        REF("Ra", "register", "X1", address=4), REF("Rb", "register", "X2", address=5),
        REF("Bl", "block", "NoBlock", address_offset=9)]}, "refs")
    r["dangling_commands_three"] = ({"config": {"command_address_type": "u8"}, "objects": [
        CMD("Real", 0), REF("Ca", "command", "Y1", address=1), REF("Cb", "command", "Y2", address=2),
        REF("Cc", "command", "Y3", address=3)]}, "refs")
    r["ref_wrong_kind"] = ({"config": {"register_address_type": "u8", "command_address_type": "u8", "default_byte_order": "LE"}, "objects": [
        CMD("Thing", 0), REF("Wrong", "register", "Thing", address=1)]}, "refs")
    r["dangling_in_block"] = ({"config": dict(U8LE), "objects": [
        BLK("B", [REF("Ia", "register", "Q1", address=1), REF("Ib", "register", "Q2", address=2),
                  REF("Ic", "register", "Q3", address=3)], address_offset=4)]}, "refs")
    r["addr_overlap"] = ({"config": dict(U8LE), "objects": [
        REG("A", 5, 8, [F("v", "uint", 0, 8)]), REG("B", 5, 8, [F("v", "uint", 0, 8)])]}, "address_overlap")
    r["bit_overlap"] = ({"config": dict(U8LE), "objects": [REG("A", 5, 8, [F("x", "uint", 0, 5), F("y", "uint", 4, 8)])]}, "bit_overlap")
    r["range_past_end"] = ({"config": dict(U8LE), "objects": [REG("A", 5, 8, [F("x", "uint", 0, 9)])]}, "bit_ranges")
    r["range_empty"] = ({"config": dict(U8LE), "objects": [REG("A", 5, 8, [F("x", "uint", 4, 4)])]}, "bit_ranges")
    r["bool_too_wide"] = ({"config": dict(U8LE), "objects": [REG("A", 5, 8, [F("x", "bool", 0, 2)])]}, "bool_fields")
    r["no_address_type"] = ({"config": {"default_byte_order": "LE"}, "objects": [REG("A", 5, 8, [F("x", "uint", 0, 8)])]}, "address_types")
    r["address_too_big"] = ({"config": dict(U8LE), "objects": [REG("A", 300, 8, [F("x", "uint", 0, 8)])]}, "address_types")
    r["no_byte_order"] = ({"config": {"register_address_type": "u8"}, "objects": [REG("A", 1, 16, [F("x", "uint", 0, 16)])]}, "byte_order")
    r["reset_too_big"] = ({"config": dict(U8LE), "objects": [REG("A", 1, 8, [F("x", "uint", 0, 8)], reset_value=0x1FF)]}, "reset")
    r["enum_dup_value_name"] = ({"config": dict(U8LE), "objects": [
        REG("A", 1, 8, [F("x", "uint", 0, 2, enum={"name": "E", "variants": [("P", 0), ("P", 1)]})])]}, "names_unique")
    r["enum_value_too_big"] = ({"config": dict(U8LE), "objects": [
        REG("A", 1, 8, [F("x", "uint", 0, 2, enum={"name": "E", "variants": [("P", 0), ("Q", 9)]})])]}, "enum_values")
    # SEVERAL independent errors of one kind in one input: which one is reported must not depend on the run (seed C20-8
    # grouped the claimed addresses in a HashMap and reported the collision of whichever group came first)
    V8 = lambda: [F("v", "uint", 0, 8)]
    r["addr_overlap_two_places"] = ({"config": dict(U8LE), "objects": [
        REG("Ra", 0, 8, V8()), REG("Rb", 0, 8, V8()), REG("Rc", 7, 8, V8()), REG("Rd", 7, 8, V8())]}, "address_overlap")
    r["addr_overlap_six_places"] = ({"config": {"register_address_type": "u8", "command_address_type": "u8", "default_byte_order": "LE"}, "objects":
        [REG(f"R{c}{k}", 10 * i, 8, V8()) for i, c in enumerate("abcd") for k in "xy"]
        + [CMD(f"C{c}{k}", 3 + i) for i, c in enumerate("ab") for k in "xy"]}, "address_overlap")
    r["addr_overlap_in_blocks"] = ({"config": dict(U8LE), "objects": [
        BLK("Ba", [REG("Ia", 1, 8, V8()), REG("Ib", 1, 8, V8())], address_offset=20),
        BLK("Bb", [REG("Ic", 2, 8, V8()), REG("Id", 2, 8, V8())], address_offset=40),
        REG("Top", 21, 8, V8())]}, "address_overlap")
    r["bit_overlap_three_registers"] = ({"config": dict(U8LE), "objects": [
        REG(f"Bo{c}", i, 8, [F("x", "uint", 0, 5), F("y", "uint", 4, 8)]) for i, c in enumerate("abc")]}, "bit_overlap")
    r["ranges_bad_in_three_registers"] = ({"config": dict(U8LE), "objects": [
        REG(f"Rg{c}", i, 8, [F("x", "uint", 0, 9 + i)]) for i, c in enumerate("abc")]}, "bit_ranges")
    r["dup_names_three_pairs"] = ({"config": dict(U8LE), "objects": [
        REG("Foo", 0, 8, [F("a", "uint", 0, 4), F("A", "uint", 4, 8)]), REG("Bar", 1, 8, [F("b", "uint", 0, 4), F("B", "uint", 4, 8)]),
        REG("Baz", 2, 8, [F("c", "uint", 0, 4), F("C", "uint", 4, 8)])]}, "names_unique")
    r["enum_errors_three"] = ({"config": dict(U8LE), "objects": [
        REG(f"En{c}", i, 8, [F("x", "uint", 0, 2, enum={"name": f"E{c}", "variants": [("P", 0), ("Q", 9 + i)]})]) for i, c in enumerate("abc")]},
        "enum_values")
    r["resets_too_big_three"] = ({"config": dict(U8LE), "objects": [
        REG(f"Rs{c}", i, 8, V8(), reset_value=0x1FF + i) for i, c in enumerate("abc")]}, "reset")
    r["addresses_too_big_three"] = ({"config": dict(U8LE), "objects": [
        REG(f"Ab{c}", 300 + i, 8, V8()) for i, c in enumerate("abc")]}, "address_types")
    # dangling register ref WITH a reset override: reset_values_converted runs before refs_validated and
    # panics in `.expect("Refs have been validated already ...")` (model: Abort; CLI: no output, 101)
    r["dangling_with_reset_panics"] = ({"config": dict(U8LE), "objects": [REF("P", "register", "Nowhere", address=1, reset_value=5)]}, "library_panic")
    return r


def _decision_inputs():
    """Inputs whose accept/reject decision hinges on comparing cfg STRINGS (names_unique ids, Cfg::combine): the decision
    must be the same in the library, the CLI and create_device! whatever token printer is in use (D19, D24).
    name -> {syntax: text}"""
    out = {}

    def both(name, root_cfg, block_cfg, inner_cfg):
        dsl = ("config { type RegisterAddressType = u8; }\n"
               f"#[cfg({root_cfg})]\nregister Foo {{ const ADDRESS = 0; const SIZE_BITS = 8; }},\n"
               f"#[cfg({block_cfg})]\nblock Bl {{\n    #[cfg({inner_cfg})]\n    register Foo {{ const ADDRESS = 1; const SIZE_BITS = 8; }}\n}}\n")
        tree = {"config": {"register_address_type": "u8"},
                "Foo": {"type": "register", "cfg": root_cfg, "address": 0, "size_bits": 8},
                "Bl": {"type": "block", "cfg": block_cfg, "objects": {"Foo": {"type": "register", "cfg": inner_cfg, "address": 1, "size_bits": 8}}}}
        out[name] = {"dsl": dsl, "json": json.dumps(tree, indent=1) + "\n", "yaml": _yaml(tree, ""), "toml": _toml(tree, [])}
    both("cfg_conj_dup", "all(x, y)", "y", "x")                      # propagated all(x, y) == hand-written all(x, y): duplicates
    both("cfg_conj_other_order", "all(y, x)", "y", "x")              # another order: another string, no duplicate
    both("cfg_conj_spaced", "all( x ,y )", "y", "x")                 # spacing is not spelling
    both("cfg_same_everywhere", "y", "y", "y")                       # combine of equal cfgs is that cfg
    both("cfg_feature_spacing", 'feature="a"', 'feature = "a"', 'feature = "a"')
    both("cfg_nested_conj", "all(all(x, y), z)", "z", "all(x, y)")
    # a file that starts with a UTF-8 byte order mark: whatever each parser makes of it, the macro hands the library the
    # bytes that are in the file (seed C20-10 stripped the mark in create_device! only); no verdict is written down here,
    # the callers only have to agree
    base = out["cfg_conj_other_order"]
    out["bom_prefixed"] = {syn: "\ufeff" + text for syn, text in base.items()}
    return out


DECISION = _decision_inputs()
# written down by hand: both objects named Foo exist in the same builds <=> duplicates <=> rejected (in EVERY syntax and caller)
DECISION_EXPECT = {"cfg_conj_dup": "rejected", "cfg_conj_other_order": "accepted", "cfg_conj_spaced": "rejected",
                   "cfg_same_everywhere": "rejected", "cfg_feature_spacing": "rejected", "cfg_nested_conj": "rejected"}


RAW_REJECTED = {
    # name -> {syntax: text}; malformed at the text level
    "garbage": {"dsl": "register Foo { const ADDRESS = ; }\n", "json": "{ \"Foo\": { \"type\": \"register\", ",
                "yaml": "Foo:\n  type: register\n address: : 3\n", "toml": "[Foo\ntype = \"register\"\n"},
    "unbalanced": {"dsl": "register Foo { const ADDRESS = 3;\n", "json": "[1, 2", "yaml": "a: [1, 2\n", "toml": "a = [1, 2\n"},
    "wrong_shape": {"dsl": "struct NotADevice;\n", "json": "[1, 2, 3]\n", "yaml": "- 1\n- 2\n", "toml": "Foo = 3\n"},
    "dup_object": {"dsl": "config { type RegisterAddressType = u8; }\nregister Foo { const ADDRESS = 0; const SIZE_BITS = 8; a: uint = 0..8, },\n"
                          "register Foo { const ADDRESS = 1; const SIZE_BITS = 8; a: uint = 0..8, }\n",
                   "json": '{"config": {"register_address_type": "u8"}, "Foo": {"type": "register", "address": 0, "size_bits": 8}, '
                           '"Foo": {"type": "register", "address": 1, "size_bits": 8}}\n',
                   "yaml": "config:\n  register_address_type: u8\nFoo:\n  type: register\n  address: 0\n  size_bits: 8\nFoo:\n  type: register\n  address: 1\n  size_bits: 8\n",
                   "toml": "[config]\nregister_address_type = \"u8\"\n[Foo]\ntype = \"register\"\naddress = 0\nsize_bits = 8\n[Foo]\ntype = \"register\"\naddress = 1\nsize_bits = 8\n"},
    "empty_file": {"dsl": "", "json": "", "yaml": "", "toml": ""},
}


# ---------------------------------------------------------------------------------------------- random definitions

def random_def(rng, idx):
    """Small definition with registers, a command, a buffer and 0..5 refs, some of them dangling."""
    cfg = {"register_address_type": rng.choice(["u8", "u16", "i16", "u32"]), "default_byte_order": rng.choice(["LE", "BE"])}
    objs = []
    nreg = rng.randint(1, 4)
    addr = rng.randint(0, 20)
    regs = []
    for i in range(nreg):
        size = rng.choice([8, 16, 24, 32])
        fields = []
        pos = 0
        fi = 0
        while pos < size and fi < 4:
            w = rng.randint(1, min(8, size - pos))
            base = rng.choice(["uint", "int", "bool"]) if w == 1 else rng.choice(["uint", "int"])
            f = F("f%d" % fi, base, pos, pos + w)
            if base == "uint" and w <= 3 and rng.random() < 0.4:
                n = rng.randint(2, 1 << w)
                vs = [("V%d" % k, k) for k in range(n)]
                if n < (1 << w):
                    vs[-1] = (vs[-1][0], rng.choice(["default", "catch_all"]))
                f["enum"] = {"name": "E%d_%d_%d" % (idx, i, fi), "variants": vs}
            fields.append(f)
            pos += w + rng.choice([0, 0, 1, 3])
            fi += 1
        kw = {}
        if rng.random() < 0.3:
            kw["access"] = rng.choice(["RW", "RO"])
        if rng.random() < 0.3:
            kw["reset_value"] = rng.randint(0, (1 << size) - 1)
        if rng.random() < 0.2:
            kw["repeat"] = {"count": rng.randint(2, 3), "stride": size // 8}
        name = "Reg%d" % i
        regs.append(name)
        objs.append(REG(name, addr, size, fields, **kw))
        addr += (size // 8) * kw.get("repeat", {"count": 1})["count"] + rng.randint(0, 3)
    if rng.random() < 0.5:
        cfg["command_address_type"] = "u8"
        objs.append(CMD("Cmd", rng.randint(0, 200)))
        if rng.random() < 0.5:
            objs.append(REF("CmdRef", "command", "Cmd" if rng.random() < 0.6 else "NoCmd", address=rng.randint(201, 250)))
    if rng.random() < 0.4:
        cfg["buffer_address_type"] = "u8"
        objs.append(BUF("Buf", rng.randint(0, 255), rng.choice([None, "RO", "WO", "RW"])))
    nref = rng.choice([0, 0, 1, 2, 3, 4, 5])
    ndang = 0
    inner = []
    for j in range(nref):
        dangling = rng.random() < 0.45
        tgt = ("Missing%d" % rng.randint(0, 2)) if dangling else rng.choice(regs)
        ndang += dangling
        ref = REF("Ref%d" % j, "register", tgt, address=addr)
        addr += 4
        if rng.random() < 0.3:
            inner.append(ref)
        else:
            objs.append(ref)
    if inner:
        objs.append(BLK("Blk", inner, address_offset=0))
    rng.shuffle(objs)
    return {"config": cfg, "objects": objs}


# ---------------------------------------------------------------------------------------------- probe scripts

def snake(name):
    out = ""
    for i, ch in enumerate(name):
        if ch.isupper() and i > 0 and (not name[i - 1].isupper()):
            out += "_"
        out += ch.lower()
    return out


PROBE_OK = ["regs_basic", "regs_reset_orders", "enums", "commands", "buffers", "blocks", "refs", "repeats_overlap",
            "signed_addr", "mixed", "refs_shared_target"]


def _field_value(f, salt):
    w = 1 if f.get("end") is None else f["end"] - f["start"]
    if f["base"] == "bool":
        return "true" if salt % 2 == 0 else "false"
    if f["base"] == "uint":
        return str((0x5A5A5A5A5A5A5A5A >> (salt % 7)) & ((1 << min(w, 63)) - 1))
    return str(-((salt % (1 << (w - 1))) + 1) if w > 1 else 0) if salt % 2 else str(salt % (1 << max(w - 1, 0)) if w > 1 else 0)


def probe_script(d):
    """Rust statements driving every object of `d` through `dev`; pushes observations to `t: Vec<String>`."""
    by_name = {o["name"]: o for _, o in flat_objects(d)}
    lines = []
    salt = [0]

    def settable(f):
        return not f.get("enum") and not f.get("conv") and f.get("access", "RW") != "RO"

    def emit_register(acc, o, access):
        fields = o.get("fields", [])
        if access in ("RW", "WO"):
            sets = []
            for f in fields:
                if settable(f):
                    salt[0] += 1
                    sets.append(f"r.set_{f['name']}({_field_value(f, salt[0])});")
            lines.append(f"{acc}.write(|r| {{ {' '.join(sets)} }}).unwrap();")
        if access in ("RW", "RO"):
            lines.append(f't.push(format!("{{:?}}", {acc}.read().unwrap()));')
        if access == "RW":
            lines.append(f"{acc}.modify(|r| {{ let _ = r; }}).unwrap();")

    def emit_command(acc, o):
        has_in = o.get("fields_in") is not None
        has_out = o.get("fields_out") is not None
        if has_in:
            sets = []
            for f in o["fields_in"]:
                if settable(f):
                    salt[0] += 1
                    sets.append(f"r.set_{f['name']}({_field_value(f, salt[0])});")
            call = f"{acc}.dispatch(|r| {{ {' '.join(sets)} }}).unwrap()"
        else:
            call = f"{acc}.dispatch().unwrap()"
        if has_out:
            lines.append(f't.push(format!("{{:?}}", {call}));')
        else:
            lines.append(call + ";")

    def calls(prefix, o):
        name = snake(o["name"])
        rep = o.get("repeat") or (o.get("override", {}).get("repeat") if o["kind"] == "ref" else None)
        if o["kind"] == "ref" and not rep:
            rep = by_name[o["target"]].get("repeat")
        if rep:
            return [f"{prefix}.{name}({i})" for i in range(rep["count"])]
        return [f"{prefix}.{name}()"]

    def rec(prefix, objs):
        for o in objs:
            k = o["kind"]
            for acc in calls(prefix, o):
                if k == "register":
                    emit_register(acc, o, o.get("access") or "RW")
                elif k == "command":
                    emit_command(acc, o)
                elif k == "buffer":
                    a = o.get("access") or "RW"
                    if a in ("RW", "WO"):
                        salt[0] += 1
                        lines.append(f"{acc}.write_all(&[{salt[0] % 251}, 2, 3]).unwrap();")
                    if a in ("RW", "RO"):
                        lines.append(f'{{ let mut b = [0u8; 4]; let n = {acc}.read(&mut b).unwrap(); t.push(format!("{{}} {{:?}}", n, b)); }}')
                elif k == "block":
                    rec(acc, o.get("objects", []))
                elif k == "ref":
                    tgt = by_name[o["target"]]
                    if o["ref_kind"] == "register":
                        emit_register(acc, tgt, o.get("override", {}).get("access") or tgt.get("access") or "RW")
                    elif o["ref_kind"] == "command":
                        emit_command(acc, tgt)
    rec("dev", d["objects"])
    return lines


def address_types(d):
    cfg = d.get("config") or {}
    return (cfg.get("register_address_type", "u8"), cfg.get("command_address_type", "u8"), cfg.get("buffer_address_type", "u8"))
