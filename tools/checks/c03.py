"""C03 — generated accessors never touch memory outside their field set.
Ops half: canary-guarded debug build (debug_assert! on), compared with the Coq model in which every
out-of-slice access is a Fail.  Generator half: every load/store call site of real generator output
satisfies start < end <= size <= 8*N and width <= carrier (facts from gen_runner)."""
import json, os, random
import vlib
from checks import ops_common

RULE = ("ops half: the C01 exhaustive geometry run through a DEBUG build of the real ops functions on a slice "
        "embedded between 2x16 canary bytes (any out-of-range index panics through debug_assert!, any stray write "
        "changes a canary) and compared with the extracted model; generator half: see gen_half; "
        "distinct = geometry classes + distinct accessor call-site shapes")


def miri_phase(ctx):
    """Thorough tier: the real ops functions under Miri (stacked borrows, bounds of get_unchecked, uninitialised reads)
    on every in-bounds geometry point of buffer lengths 1..3 (sampled 1/12), outputs compared with the extracted model."""
    import gen_ops_cases, subprocess
    path = os.path.join(ctx.work, "miri_cases.txt")
    gen_ops_cases.gen(path, ctx.seed + 77, [1, 2, 3], [1], 1, stride=1)
    lines = [l for l in open(path).read().splitlines() if l][::12]
    with open(path, "w") as f:
        f.write("\n".join(lines) + "\n")
    env = dict(os.environ, CARGO_NET_OFFLINE="true", CARGO_TARGET_DIR=os.path.join(vlib.CACHE, "target-miri"),
               MIRIFLAGS="-Zmiri-disable-isolation")
    try:
        p = subprocess.run(["cargo", "+nightly", "miri", "run", "--offline", "-p", "ops_runner", "--", path],
                           cwd=os.path.join(vlib.VERIF, "harness"), env=env, stdout=subprocess.PIPE, stderr=subprocess.PIPE, timeout=2400)
    except (subprocess.TimeoutExpired, OSError) as ex:
        return {"ran": False, "why": str(ex)[:200]}
    out = p.stdout.decode(errors="replace").splitlines()
    err = p.stderr.decode(errors="replace")
    if "Undefined Behavior" in err or p.returncode != 0:
        if "Undefined Behavior" in err:
            k = len(out)
            vlib.violation(ctx, {"what": "Miri reports undefined behaviour in the bit operations on an in-bounds call",
                                 "failing_input": ops_common.describe(lines[k]) if k < len(lines) else None,
                                 "implementation": err[err.index("Undefined Behavior"):][:1500]})
            return {"ran": True, "ub": True, "cases": len(lines)}
        return {"ran": False, "why": "miri run failed: " + err[-300:]}
    model_exe, _, e = ops_common.build(ctx)
    model = vlib.run_sharded(lambda q: [model_exe, q], lines, workdir=ctx.work, tag="mirimodel")
    bad = [(l, a, b) for l, a, b in zip(lines, out, model) if a != b]
    if bad or len(out) != len(lines):
        l, a, b = bad[0] if bad else (lines[len(out)] if len(out) < len(lines) else lines[0], "<missing>", "")
        vlib.violation(ctx, {"what": "ops under Miri disagree with the model", "failing_input": ops_common.describe(l),
                             "implementation": a, "model_and_spec": b})
    os.remove(path)
    return {"ran": True, "ub": False, "cases": len(lines), "disagreements": len(bad)}


def run(ctx):
    info = vlib.coq_gate(ctx)
    res, err = ops_common.correspondence(ctx, ctx.tier, canary=True)
    if err:
        vlib.violation(ctx, {"broken": "correspondence harness could not run", "detail": err}, no_input=True)
        vlib.write_evidence(ctx, info, {"evaluations": 0, "distinct_nontrivial": 0, "rule": RULE, "samples": []})
        return
    stats, diffs = res
    if diffs:
        l, a, b = ops_common.minimal(diffs)
        vlib.violation(ctx, {"what": "in-bounds call of the bit operations panicked, touched a canary or returned a different result",
                             "failing_input": ops_common.describe(l), "implementation": a, "model_and_spec": b,
                             "disagreements": len(diffs)})
    miri = {"ran": False, "why": "quick tier"}
    if ctx.tier == "thorough":
        miri = miri_phase(ctx)
    gen = {"evaluations": 0, "distinct": 0, "samples": []}
    try:
        from checks import c03_gen
        gen = c03_gen.run_gen_half(ctx, info)
    except ImportError:
        ctx.notes.append("generator half not built yet")
    if not diffs and not info["ok"] and ctx.violations == 0:
        vlib.violation(ctx, {"broken": info["reason"], "theorem": "props/C03.v"}, no_input=True)
    vlib.write_evidence(ctx, info, {
        "evaluations": stats["evaluations"] + gen["evaluations"],
        "distinct_nontrivial": stats["distinct_nontrivial"] + gen["distinct"], "rule": RULE,
        "samples": stats["samples"][:2] + gen["samples"][:3], "input_distribution": stats["histogram"],
        "exhaustive": True, "disagreements": len(diffs), "gen_half": gen, "miri": miri})


def replay(ctx, path):
    from checks import c01
    c01.replay(ctx, path)
