"""C03 — generated accessors never touch memory outside their field set.
Ops half: canary-guarded debug build (debug_assert! on), compared with the Coq model in which every
out-of-slice access is a Fail.  Generator half: every load/store call site of real generator output
satisfies start < end <= size <= 8*N and width <= carrier (facts from gen_runner)."""
import json, os, random
import vlib
from checks import ops_common

RULE = ("ops half: the C01 exhaustive geometry run through a DEBUG build of the real ops functions on a slice "
        "embedded between 2x16 canary bytes (any out-of-range index panics through debug_assert!, any stray write "
        "changes a canary) and compared with the extracted model; generator half: see gen_half; "
        "distinct = geometry classes + distinct accessor call-site shapes")


def run(ctx):
    info = vlib.coq_gate(ctx)
    res, err = ops_common.correspondence(ctx, ctx.tier, canary=True)
    if err:
        vlib.violation(ctx, {"broken": "correspondence harness could not run", "detail": err}, no_input=True)
        vlib.write_evidence(ctx, info, {"evaluations": 0, "distinct_nontrivial": 0, "rule": RULE, "samples": []})
        return
    stats, diffs = res
    if diffs:
        l, a, b = ops_common.minimal(diffs)
        vlib.violation(ctx, {"what": "in-bounds call of the bit operations panicked, touched a canary or returned a different result",
                             "failing_input": ops_common.describe(l), "implementation": a, "model_and_spec": b,
                             "disagreements": len(diffs)})
    gen = {"evaluations": 0, "distinct": 0, "samples": []}
    try:
        from checks import c03_gen
        gen = c03_gen.run_gen_half(ctx, info)
    except ImportError:
        ctx.notes.append("generator half not built yet")
    if not diffs and not info["ok"] and ctx.violations == 0:
        vlib.violation(ctx, {"broken": info["reason"], "theorem": "props/C03.v"}, no_input=True)
    vlib.write_evidence(ctx, info, {
        "evaluations": stats["evaluations"] + gen["evaluations"],
        "distinct_nontrivial": stats["distinct_nontrivial"] + gen["distinct"], "rule": RULE,
        "samples": stats["samples"][:2] + gen["samples"][:3], "input_distribution": stats["histogram"],
        "exhaustive": True, "disagreements": len(diffs), "gen_half": gen})


def replay(ctx, path):
    from checks import c01
    c01.replay(ctx, path)
