"""Whole-pipeline correspondence (coq/theories/Pipeline.v): ANY cfg-free definition, accepted or rejected by ANY pass,
must get from the real generator exactly the verdict (first error kind + subjects) the sequenced pass models predict.
Run as an extra phase by several pass-level checks (different seeds), so that a change in one pass — or in the ORDER of
the passes — is seen even when the per-property generator would not steer a definition into it."""
import collections, copy, json, random, re
import vlib, adef, gendev
from checks import gen_common

FUEL = 40


def breakers(rng, d):
    """Apply 0..2 random defects from different passes' territories."""
    objs = [o for o, _ in adef.walk(d["objects"])]
    regs = [o for o in objs if o["kind"] == "register"]
    cmds = [o for o in objs if o["kind"] == "command"]
    applied = []
    for _ in range(rng.choice([0, 0, 1, 1, 1, 2])):
        k = rng.choice(["dup_name", "dangling", "recursive_ref", "enum", "layout", "reset", "collide", "too_big", "no_type", "byte_order",
                        "bool"])
        if k == "dup_name" and len(objs) >= 2:
            a, b = rng.sample(objs, 2)
            b["name"] = a["name"]
        elif k == "dangling":
            kind = rng.choice(["register", "command", "block"])
            ov = {"kind": kind}
            if kind != "block":
                ov["address"] = 7000 + rng.randrange(100)
            else:
                ov["address_offset"] = 7000
            d["objects"].append(adef.mk_ref("Qx", rng.choice(["Nowhere", "Missing"]), ov))
        elif k == "recursive_ref":
            # a block ref inside its own target (D11, rejected by refs_validated since /repo df1ac90): direct, in a sub
            # block, or through a second block ref
            bo = lambda off: {"kind": "block", "address_offset": off}
            how = rng.choice(["direct", "sub_block", "two_cycle"])
            if how == "direct":
                new = [adef.mk_block("Qrec", [adef.mk_ref("Qself", "Qrec", bo(7100))], address_offset=7200)]
            elif how == "sub_block":
                new = [adef.mk_block("Qrec", [adef.mk_block("Qsub", [adef.mk_ref("Qself", "Qrec", bo(7100))], address_offset=7300)],
                                     address_offset=7200)]
            else:
                new = [adef.mk_block("Qrec", [adef.mk_ref("Qself", "Qtwo", bo(7100))], address_offset=7200),
                       adef.mk_block("Qtwo", [adef.mk_ref("Qback", "Qrec", bo(7400))], address_offset=7500)]
            d["objects"].extend(new)
        elif k == "enum" and regs:
            r = rng.choice(regs)
            if r["size_bits"] >= 2:
                w = rng.choice([1, 2, min(3, r["size_bits"])])
                how = rng.choice(["high", "nodefault", "twodefault", "empty", "twocatch", "low", "reprlow", "reprhigh"])
                if how == "reprhigh":      # D17: needs an int field as wide as its carrier
                    w = 8 if r["size_bits"] >= 8 else w
                vs = {"high": [adef.mk_variant("Va"), adef.mk_variant("Vb", 1 << w)],
                      "low": [adef.mk_variant("Va", -1), adef.mk_variant("Vb", "default")],            # D16 (uint field)
                      "reprlow": [adef.mk_variant("Va", -129), adef.mk_variant("Vb", "default")],      # D17 (int field, i8)
                      "reprhigh": [adef.mk_variant("Va", 127), adef.mk_variant("Vb"), adef.mk_variant("Vc", "catch_all")],
                      "nodefault": [adef.mk_variant("Va")] if w > 0 else [],
                      "twodefault": [adef.mk_variant("Va", "default"), adef.mk_variant("Vb", "default")],
                      "twocatch": [adef.mk_variant("Va", "catch_all"), adef.mk_variant("Vb", "catch_all")],
                      "empty": []}[how]
                r["fields"] = [adef.mk_field("broken", "int" if how.startswith("repr") else "uint", 0, w, conv=adef.mk_enum("EnBroken" + r["name"], vs, how == "high"))]
                r["allow_bit_overlap"] = None
        elif k == "layout" and regs:
            r = rng.choice(regs)
            s = r["size_bits"]
            how = rng.choice(["exceeds", "empty", "overlap"])
            if how == "exceeds":
                r["fields"] = [adef.mk_field("alpha", "uint", 0, s + 1)]
            elif how == "empty":
                r["fields"] = [adef.mk_field("alpha", "uint", 0, 0)]
            elif s >= 3:
                r["fields"] = [adef.mk_field("alpha", "uint", 0, 2), adef.mk_field("beta", "uint", 1, 3)]
                r["allow_bit_overlap"] = rng.choice([None, False, True])
        elif k == "reset" and regs:
            r = rng.choice(regs)
            s = r["size_bits"]
            if s < 60:
                r["reset_value"] = rng.choice([1 << s, (1 << (s + 3)), [0] * ((s + 7) // 8 + 1)])
        elif k == "collide":
            pool = regs if rng.random() < 0.6 or not cmds else cmds
            pool = [o for o in pool if o in d["objects"]]
            if len(pool) >= 2:
                a, b = rng.sample(pool, 2)
                b["address"] = a["address"]
                if rng.random() < 0.3:
                    a["allow_address_overlap"] = True
                    b["allow_address_overlap"] = rng.choice([True, None])
        elif k == "too_big" and objs:
            o = rng.choice([x for x in objs if x["kind"] in ("register", "command", "buffer")] or [None])
            if o:
                at = d["config"].get(o["kind"] + "_address_type") or "u8"
                lo, hi = adef.INT_RANGE[at]
                o["address"] = rng.choice([hi + 1, lo - 1, hi, lo]) if at != "i64" else o["address"]
                o["basic"] = False if o["kind"] == "command" and o.get("basic") and o["address"] < 0 else o.get("basic")
        elif k == "no_type":
            d["config"][rng.choice(["register_address_type", "command_address_type", "buffer_address_type"])] = None
        elif k == "byte_order" and regs:
            r = rng.choice(regs)
            if r["size_bits"] > 8:
                r["byte_order"] = None
                d["config"]["default_byte_order"] = None
        elif k == "bool" and regs:
            r = rng.choice(regs)
            if r["size_bits"] >= 2:
                r["fields"] = [adef.mk_field("flag", "bool", 0, 2)]
        else:
            continue
        applied.append(k)
    return applied


def normalise(status):
    """Canonical comparison form. Address messages carry numbers the models print the same way; nothing to strip."""
    return status


def run_pipeline_phase(ctx, exe, n, seed_offset):
    rng = random.Random(ctx.seed * 7 + seed_offset)
    prof = gendev.Profile(block_refs=False, max_objects=5)
    cases, defs, tags = [], {}, {}
    for i in range(n):
        d = gendev.gen_device(rng, prof)
        tags_i = breakers(rng, d)
        syntax = rng.choice(["dsl", "dsl", "json", "yaml", "toml"])
        if syntax != "dsl":
            for o, _ in adef.walk(d["objects"]):
                if o["kind"] == "register" and isinstance(o.get("reset_value"), int) and o["reset_value"] >= 2 ** 63:
                    o["reset_value"] %= 2 ** 63
        cid = f"p{i}"
        defs[cid], tags[cid] = d, tags_i
        cases.append({"id": cid, "syntax": syntax, "text": adef.render(d, syntax, rng), "name": "Dev", "want": ["mir"]})
    res = gen_common.run_gen(ctx, exe, cases, tag="pipe")
    terms = []
    for c in cases:
        r = res[c["id"]]
        try:
            t = gen_common.mir_term(r)
        except Exception:
            t = None
        if t:
            terms.append((c["id"], f'{FUEL} "Dev"%string ({t})'))
    pre = gen_common.PREAMBLE.format(mods="Pipeline")
    model = vlib.coq_eval_strings(ctx, pre, [(i, "pipeline_result " + t) for i, t in terms], shard_size=60, tag="pipe")
    hist = collections.Counter()
    diffs = []
    for c in cases:
        cid = c["id"]
        if cid not in model:
            hist["front_end_rejected"] += 1
            continue
        impl = gen_common.canon_status(res[cid])
        m = model[cid]
        key = impl.split(":")[1] if impl.startswith("error:") else impl
        hist[key] += 1
        ok = False
        if m.startswith("oneof:"):
            ok = impl in ["error:" + x for x in m[6:].split(";")]
        elif m.startswith("panic:"):
            ok = impl in ("panic", "abort")
        else:
            ok = normalise(impl) == normalise(m)
        if not ok and gen_common.reworded_ok(res[cid], m):
            hist["reworded_message"] += 1
            ok = True
        if not ok:
            diffs.append((c, impl, m, tags[cid]))
    return {"evaluations": len(cases), "histogram": dict(hist), "diffs": diffs,
            "rule": "gendev devices (cfg-free) with 0..2 injected defects from different passes' territories (duplicate name, dangling "
                    "ref, block ref inside its own target, bad enum, bad layout, bad reset value, address collision, address out of type, missing address type / byte "
                    "order, wide bool) through the real generator; verdict + first error vs Pipeline.v (all pass models sequenced) on the real MIR"}


STAGES = [  # (error kind prefix, pipeline stage, property whose pass it is)
    ("dup_", 1, "C14"), ("enum_", 2, "C15"), ("byte_order", 3, "C11"), ("ref_unknown", 4, "C14"), ("ref_recursive", 4, "C14"), ("reset_", 5, "C08"),
    ("bool_", 6, "C11"), ("field_", 7, "C11"), ("no_address_type", 8, "C13"), ("address_too_", 9, "C13"),
    ("device_name", 10, "C14"), ("address_overlap", 11, "C12")]


def stage_of(status):
    """status: 'ok' | 'error:kind:...' | 'oneof:kind:...;...' | 'panic...' -> (stage, property)"""
    if status.startswith("oneof:"):
        status = "error:" + status[6:]
    if status.startswith("error:"):
        kind = status.split(":")[1]
        for pre, st, prop in STAGES:
            if kind.startswith(pre):
                return st, prop
        return 50, None
    if status == "ok":
        return 99, None
    return 0, None      # panic / abort: stage unknown


def attribute(impl, model):
    """The pipeline reports the FIRST error, so when verdicts differ the deviating pass is the earlier of the two
    stages (all passes before it agreed: neither side stopped there). Returns the property id or None (unknown: every
    participating check reports it)."""
    si, pi = stage_of(impl)
    sm, pm = stage_of(model)
    if si == 0 or sm == 0:
        return pm if sm not in (0, 99) else (pi if si not in (0, 99) else None)
    return pi if si < sm else pm if sm < si else pi


def report(ctx, phase, prop=None):
    if prop is not None:
        phase = dict(phase)
        phase["diffs"] = [d for d in phase["diffs"] if attribute(d[1], d[2]) in (prop, None)]
    return _report(ctx, phase)


def _report(ctx, phase):
    """Turn the phase's disagreements into a VIOLATION. A verdict mismatch (accepted vs rejected, or a panic) is a concrete
    failing input; if the two sides only disagree on WHICH error is reported first, the correspondence is broken but no
    definition was found on which the property's accept/reject clause fails: reported with no-failing-input-found."""
    diffs = phase["diffs"]
    if not diffs:
        return 0
    diffs.sort(key=lambda d: len(d[0]["text"]))

    def verdict(s):
        return "ok" if s == "ok" else "panic" if s.startswith(("panic", "abort")) else "reject"
    hard = [d for d in diffs if verdict(d[1]) != verdict(d[2])]
    c, impl, m, tg = (hard or diffs)[0]
    vlib.violation(ctx, {"what": "the real generator's verdict differs from the sequenced pass models (Pipeline.v): a pass, or the ORDER of "
                                 "the passes, no longer behaves as modelled",
                         "correspondence": "coq/theories/Pipeline.v pipeline_result vs transform_*",
                         "failing_input": {"syntax": c["syntax"], "text": c["text"], "injected": tg},
                         "implementation": impl, "model_and_spec": m, "disagreements": len(diffs),
                         "verdict_mismatches": len(hard)}, no_input=not hard)
    return len(diffs)
